#!/venv/bin/python
"""Seeded-change tooling (not a registered check).
  tools_seed.py confirm <dir>     : confirm patch/demo/suite of one seed dir in a scratch worktree (outside /repo, /verif)
  tools_seed.py detect <dir>...   : apply each patch to /repo, run every built check (quick), undo; print who fires
"""
import sys, os, json, subprocess, tempfile, shutil, glob

BASE = json.load(open('/root/.vp/BASELINE.json'))
STABLE = set(BASE['stable_pass'])


def sh(cmd, cwd=None, timeout=1800):
    p = subprocess.run(cmd, shell=True, cwd=cwd, stdout=subprocess.PIPE, stderr=subprocess.STDOUT, timeout=timeout)
    return p.returncode, p.stdout.decode(errors='replace')


def confirm(d):
    d = os.path.abspath(d)
    wt = tempfile.mkdtemp(prefix='seedconfirm-')
    os.rmdir(wt)
    out = {'dir': d}
    try:
        rc, o = sh('git -C /repo worktree add --detach %s HEAD' % wt)
        assert rc == 0, o
        rc, o = sh('git apply --check %s/patch.diff && git apply %s/patch.diff' % (d, d), cwd=wt)
        out['applies'] = rc == 0
        if rc != 0:
            out['error'] = o[-400:]
            return out
        shutil.copy(os.path.join(d, 'demo.py'), os.path.join(wt, '_demo.py'))
        rc, o = sh('/venv/bin/python -c "import pypose"', cwd=wt)
        out['imports'] = rc == 0
        rc, o = sh('/venv/bin/python _demo.py', cwd=wt, timeout=900)
        out['demo_with_change_rc'] = rc
        out['demo_with_change_tail'] = o[-300:]
        junit = os.path.join(wt, '_junit.xml')
        rc, o = sh('/venv/bin/python -m pytest -q -p no:cacheprovider --timeout=900 --continue-on-collection-errors --junitxml=%s' % junit, cwd=wt, timeout=2400)
        passed = set()
        try:
            import xml.etree.ElementTree as ET
            for tc in ET.parse(junit).getroot().iter('testcase'):
                if not any(c.tag in ('failure', 'error', 'skipped') for c in tc):
                    passed.add('%s::%s' % (tc.get('classname'), tc.get('name')))
        except Exception as e:
            out['junit_error'] = str(e)
        missing = sorted(STABLE - passed)
        # unseeded tests of the suite fail now and then on the clean tree as well (test_optim_anybatch: 5 of 300 seeds): re-run a missing test
        # on its own, up to 3 times, before counting it against the change
        retried = {}
        for t in list(missing):
            cls, name = t.split('::')
            parts = cls.split('.')
            node = '/'.join(parts[:-1]) + '.py::' + parts[-1] + '::' + name
            for k in range(3):
                rc2, _ = sh('/venv/bin/python -m pytest -q -p no:cacheprovider --timeout=900 "%s"' % node, cwd=wt, timeout=1200)
                if rc2 == 0:
                    missing.remove(t)
                    retried[t] = k + 1
                    break
        if retried:
            out['suite_retried_alone'] = retried
        out['suite_baseline_missing'] = missing
        out['suite_ok'] = not missing
        sh('git checkout -- . ', cwd=wt)
        rc, o = sh('/venv/bin/python _demo.py', cwd=wt, timeout=900)
        out['demo_clean_rc'] = rc
        out['confirmed'] = bool(out['applies'] and out['imports'] and out['demo_with_change_rc'] != 0 and out['suite_ok'] and rc == 0)
        return out
    finally:
        sh('git -C /repo worktree remove --force %s' % wt)
        shutil.rmtree(wt, ignore_errors=True)


def built_props():
    return sorted(f[:-3].upper() for f in os.listdir('/verif/sa/rules') if f.startswith('c') and f.endswith('.py'))


def detect(d):
    d = os.path.abspath(d)
    rc, o = sh('git -C /repo status --porcelain')
    assert o.strip() == '', '/repo is not clean: ' + o
    rc, o = sh('git -C /repo apply %s/patch.diff' % d)
    res = {'dir': d, 'fired': {}}
    try:
        if rc != 0:
            res['error'] = o[-300:]
            return res
        for p in built_props():
            rc, o = sh('/venv/bin/python -B -m sa.main %s --tier quick' % p, cwd='/verif')
            if rc != 0:
                lines = [l for l in o.splitlines() if l.startswith('FINDING') or l.startswith('ANALYSIS-ERROR')]
                res['fired'][p] = {'rc': rc, 'lines': lines[:6]}
    finally:
        sh('git -C /repo checkout -- .')
    return res


def _refresh_one(args):
    sid, prop = args
    sys.path.insert(0, os.path.dirname(os.path.abspath(__file__)))
    import importlib
    from sa.core import Repo, AnalysisError, DEFAULT_ROOT
    from sa.selftest import apply_unified_diff
    diff = open(os.path.join(sid, 'patch.diff') if os.path.isabs(sid) else '/verif/seeded/%s/patch.diff' % sid).read()
    touched = [l[6:].strip() for l in diff.splitlines() if l.startswith('+++ b/')]
    try:
        files = {t: open(os.path.join(DEFAULT_ROOT, t), encoding='utf-8').read() for t in touched}
        ov = apply_unified_diff(files, diff)
    except (OSError, ValueError, KeyError) as e:
        return sid, prop, None, 'patch does not apply: %s' % e
    mod = importlib.import_module('sa.rules.' + prop.lower())

    def keys(o):
        out, floor_err = set(), None
        for r in mod.rules(Repo(DEFAULT_ROOT, o), 'quick'):
            out |= {(f.rule, f.key) for f in r.findings}
            try:
                r.check_floor()
            except AnalysisError as e:
                floor_err = e
        return out, floor_err
    try:
        base, _ = keys(None)
        got, ferr = keys(ov)
    except AnalysisError as e:
        return sid, prop, ['ANALYSIS-ERROR'], None
    new = sorted({k[0] for k in got - base})
    if not new and ferr is not None:       # like the CLI: findings first, a lost anchor alone is the fail-closed exit 2
        new = ['ANALYSIS-ERROR']
    return sid, prop, new, None


def refresh(only=None):
    """recompute seeded/DETECTION.json: for every stored seed (or the named ones), which rules of which property's check report something new (in memory)"""
    from concurrent.futures import ProcessPoolExecutor
    seeds = sorted(d for d in os.listdir('/verif/seeded') if os.path.isdir('/verif/seeded/' + d))
    props = built_props()
    table = {}
    if only:
        table = json.load(open('/verif/seeded/DETECTION.json'))
        seeds_todo = [s for s in seeds if s in only]
    else:
        seeds_todo = seeds
    work = [(s, p) for s in seeds_todo for p in props]
    for s in seeds_todo:
        table[s] = {'property': json.load(open('/verif/seeded/%s/meta.json' % s))['property'], 'detected_by': {}, 'error': None}
    with ProcessPoolExecutor(16) as ex:
        for sid, prop, rules_, err in ex.map(_refresh_one, work, chunksize=4):
            if err:
                table[sid]['error'] = err
            elif rules_:
                table[sid]['detected_by'][prop] = rules_
    json.dump(table, open('/verif/seeded/DETECTION.json', 'w'), indent=1, sort_keys=True)
    own = [s for s in seeds if table[s]['property'] in table[s]['detected_by']]
    anyp = [s for s in seeds if table[s]['detected_by']]
    print('%d seeds; %d caught by their own property check, %d by any; missed: %s' % (len(seeds), len(own), len(anyp), [s for s in seeds if s not in own]))
    print('errors:', {s: table[s]['error'] for s in seeds if table[s]['error']})


if __name__ == '__main__':
    mode = sys.argv[1]
    if mode == 'refresh':
        refresh(set(sys.argv[2:]) or None)
        sys.exit(0)
    if mode == 'mdetect':     # in-memory detection of seed directories anywhere (does not touch /repo)
        from concurrent.futures import ProcessPoolExecutor
        dirs = [os.path.abspath(d) for d in sys.argv[2:]]
        tab = {}
        with ProcessPoolExecutor(16) as ex:
            for sid, prop, rules_, err in ex.map(_refresh_one, [(d, p) for d in dirs for p in built_props()], chunksize=2):
                if err:
                    tab.setdefault(os.path.basename(sid), {})['error'] = err
                elif rules_:
                    tab.setdefault(os.path.basename(sid), {})[prop] = rules_
        for d in dirs:
            print(os.path.basename(d), tab.get(os.path.basename(d), {}))
        sys.exit(0)
    for d in sys.argv[2:]:
        r = confirm(d) if mode == 'confirm' else detect(d)
        print(json.dumps(r, indent=1))
