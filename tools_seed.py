#!/venv/bin/python
"""Seeded-change tooling (not a registered check).
  tools_seed.py confirm <dir>     : confirm patch/demo/suite of one seed dir in a scratch worktree (outside /repo, /verif)
  tools_seed.py detect <dir>...   : apply each patch to /repo, run every built check (quick), undo; print who fires
"""
import sys, os, json, subprocess, tempfile, shutil, glob

BASE = json.load(open('/root/.vp/BASELINE.json'))
STABLE = set(BASE['stable_pass'])


def sh(cmd, cwd=None, timeout=1800):
    p = subprocess.run(cmd, shell=True, cwd=cwd, stdout=subprocess.PIPE, stderr=subprocess.STDOUT, timeout=timeout)
    return p.returncode, p.stdout.decode(errors='replace')


def confirm(d):
    d = os.path.abspath(d)
    wt = tempfile.mkdtemp(prefix='seedconfirm-')
    os.rmdir(wt)
    out = {'dir': d}
    try:
        rc, o = sh('git -C /repo worktree add --detach %s HEAD' % wt)
        assert rc == 0, o
        rc, o = sh('git apply --check %s/patch.diff && git apply %s/patch.diff' % (d, d), cwd=wt)
        out['applies'] = rc == 0
        if rc != 0:
            out['error'] = o[-400:]
            return out
        shutil.copy(os.path.join(d, 'demo.py'), os.path.join(wt, '_demo.py'))
        rc, o = sh('/venv/bin/python -c "import pypose"', cwd=wt)
        out['imports'] = rc == 0
        rc, o = sh('/venv/bin/python _demo.py', cwd=wt, timeout=900)
        out['demo_with_change_rc'] = rc
        out['demo_with_change_tail'] = o[-300:]
        junit = os.path.join(wt, '_junit.xml')
        rc, o = sh('/venv/bin/python -m pytest -q -p no:cacheprovider --timeout=900 --continue-on-collection-errors --junitxml=%s' % junit, cwd=wt, timeout=2400)
        passed = set()
        try:
            import xml.etree.ElementTree as ET
            for tc in ET.parse(junit).getroot().iter('testcase'):
                if not any(c.tag in ('failure', 'error', 'skipped') for c in tc):
                    passed.add('%s::%s' % (tc.get('classname'), tc.get('name')))
        except Exception as e:
            out['junit_error'] = str(e)
        missing = sorted(STABLE - passed)
        out['suite_baseline_missing'] = missing
        out['suite_ok'] = not missing
        sh('git checkout -- . ', cwd=wt)
        rc, o = sh('/venv/bin/python _demo.py', cwd=wt, timeout=900)
        out['demo_clean_rc'] = rc
        out['confirmed'] = bool(out['applies'] and out['imports'] and out['demo_with_change_rc'] != 0 and out['suite_ok'] and rc == 0)
        return out
    finally:
        sh('git -C /repo worktree remove --force %s' % wt)
        shutil.rmtree(wt, ignore_errors=True)


def built_props():
    return sorted(f[:-3].upper() for f in os.listdir('/verif/sa/rules') if f.startswith('c') and f.endswith('.py'))


def detect(d):
    d = os.path.abspath(d)
    rc, o = sh('git -C /repo status --porcelain')
    assert o.strip() == '', '/repo is not clean: ' + o
    rc, o = sh('git -C /repo apply %s/patch.diff' % d)
    res = {'dir': d, 'fired': {}}
    try:
        if rc != 0:
            res['error'] = o[-300:]
            return res
        for p in built_props():
            rc, o = sh('/venv/bin/python -B -m sa.main %s --tier quick' % p, cwd='/verif')
            if rc != 0:
                lines = [l for l in o.splitlines() if l.startswith('FINDING') or l.startswith('ANALYSIS-ERROR')]
                res['fired'][p] = {'rc': rc, 'lines': lines[:6]}
    finally:
        sh('git -C /repo checkout -- .')
    return res


if __name__ == '__main__':
    mode = sys.argv[1]
    for d in sys.argv[2:]:
        r = confirm(d) if mode == 'confirm' else detect(d)
        print(json.dumps(r, indent=1))
