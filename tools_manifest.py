#!/venv/bin/python
"""Regenerates MANIFEST.json from sa/registry.py and the rule modules that exist (python tools_manifest.py)."""
import json, os, sys
sys.path.insert(0, os.path.dirname(os.path.abspath(__file__)))
from sa.registry import PROPS

BASE = "cd /repo && /venv/bin/python -m pytest -ra -q -p no:cacheprovider --timeout=900 --continue-on-collection-errors"
TECH = {
 'C01': 'boolean-mask truth tables + layout typing over the AST; abstract interpretation of the branch formulas in a truncated Laurent-series domain (regime continuity)', 'C02': 'boolean-mask truth tables + layout typing + inverse-pair table; truncated Laurent-series abstract interpretation of the branch formulas',
 'C03': 'layout typing + sibling isomorphism + table agreement', 'C04': 'variance (vector/covector) typing + sibling agreement of backward bodies; block-structure (zero-row) analysis of the action Jacobians',
 'C05': 'def-use / table agreement over resolved callees; component-to-block agreement of the algebra adjoints with the extracted layout table; truncated-series abstract interpretation of the Jacobian coefficients', 'C06': 'alias/effect analysis with interprocedural summaries; path-based patch pairing',
 'C07': 'provenance and sign-parity dataflow; path ordering', 'C08': 'typestate over enumerated paths of step() (trial loop, handler paths, unordered-quality path of the strategies)',
 'C09': 'guard-dominance on paths; nominal dimension typing; abstract interpretation of Triggs.forward over {scalar, c R, (a I + b P) J} with the three correction identities checked on a grid', 'C10': 'error-discipline dataflow (status must reach a raising check)',
 'C11': 'mask truth tables; keyword-forwarding and raise-path checks; exact polynomial identities of the quaternion candidates modulo the unit-norm relation; evaluation of the branch selectors over a grid of admissible rotation diagonals; polynomial evaluation of the Euler quaternion (Hamilton products expanded) against the documented convention; crop typestate of the matrix argument', 'C12': 'value-kind inference; operand-role tables; exhaustive evaluation of the pass-count expression read from the source over L = 1..4096',
 'C13': 'provenance dataflow over inlined expressions (helper methods of EKF.forward flattened into the body)', 'C14': 'clock typestate over paths; loop-body dataflow; affine time-index agreement of the per-step tables in the horizon loops',
 'C15': 'who-may-write ownership; role tables of the linearisation', 'C16': 'carried-state write-back completeness; call-graph reachability of C12.KI',
 'C18': 'nominal dimension typing (index-domain agreement)', 'C20': 'typestate/linear-guard normalisation over enumerated paths',
}
NA = {
 'C17': 'optimality of SVD alignment / ICP / EPnP is a statement about singular vectors and floating-point minimisers; no structural necessary condition exists that is not a frozen source fragment (the ICP driver loop is covered by C20.DRV)',
 'C19': 'interpolation, equivariance and alignment invariance are relations between numerical outputs; the one structural defect in this area (ape/rpe mutating their timestamp argument) is decided under C06.MUT',
}

def inventory(built):
    import importlib
    from sa.core import Repo
    inv = {}
    repo = Repo('/repo')
    for p in built:
        mod = importlib.import_module('sa.rules.' + p.lower())
        inv[p] = [{'rule': r.rule, 'text': r.text} for r in mod.rules(repo, 'quick')]
    here = os.path.dirname(os.path.abspath(__file__))
    with open(os.path.join(here, 'sa', 'rule_inventory.json'), 'w') as fh:
        json.dump(inv, fh, indent=1)
    import sa.registry as reg
    reg._load_inventory()
    return inv


def main():
    built = sorted(p for p in PROPS if os.path.exists(os.path.join(os.path.dirname(os.path.abspath(__file__)), 'sa', 'rules', p.lower() + '.py')))
    inv = inventory(built)
    checks = []
    for p in built:
        checks.append({
            'property_id': p,
            'quick_cmd': './check %s --tier quick' % p,
            'thorough_cmd': './check %s --tier thorough' % p,
            'evidence_file': '/verif/evidence/%s.json' % p,
            'replay_cmd_template': './check %s --replay {path}' % p,
            'engine': 'sa',
            'level_claimed': {'category': 'other',
                              'text': 'Static analysis only: decides the structural clauses listed below on every path / call site / sibling of the '
                                      'current source tree (necessary conditions of the property). It does NOT decide the numerical behaviour. '
                                      + PROPS[p]['explanation'],
                              'design_ref': 'DESIGN.md section 4, ' + p},
            'level_note': 'trusted base: CPython ast; torch view/copy and status-return tables in sa/; documented argument shapes used as seeds '
                          'of the dimension typing; Lie-theoretic facts behind the variance table; loops unrolled twice; dynamic dispatch '
                          'through user objects opaque',
            'technique': TECH.get(p, 'static analysis') + '; alias/effect purity summaries, data-taint memo rule (identity-keyed caches, '
                         'outliving stores), freshness of in-place destinations, reviewed-site tables (safeguards, random draws, carried attributes, system calls, '
                         'untyped constructors, mode tests, unread parameters: every site of the pinned tree read and tabled, anything else a finding), call-signature / '
                         'docstring agreement, batch-axis rules, staleness rules (snapshots, loop-carried values, first-element extents, sanitised copies), rules of neighbour properties re-issued where they are necessary conditions (all AST-based, nothing executed); %d rules' % len(inv[p]),
        })
    na = [{'property_id': k, 'reason': v} for k, v in NA.items()]
    for p in sorted(PROPS):
        if p not in built:
            na.append({'property_id': p, 'reason': 'static rules for this property are designed (DESIGN.md section 4) but not built yet; not claimed until they are'})
    m = {
        'version': 1,
        'setup_cmd': '/venv/bin/python -B -m sa.selfcheck',
        'hooks': {'guard': 'PYPOSE_VERIF', 'enable': 'none needed: the checks parse /repo/pypose, nothing is executed or instrumented',
                  'baseline_off_cmd': BASE, 'source_commits': [], 'add_only': True},
        'engines': [{'name': 'sa', 'path': 'sa/', 'serves_properties': built,
                     'kind_free_text': 'repository-specific static analysis over the Python AST: repo model + call resolution (core), structured path '
                                       'enumeration (paths), single-assignment inlining / provenance / parity (expr), alias-effect summaries (effects), '
                                       'nominal dimension typing (shapes), boolean-mask algebra (masks), value kinds (kinds), truncated Laurent-series domain for coefficient formulas (series, limits)'}],
        'checks': checks,
        'not_applicable': sorted(na, key=lambda x: x['property_id']),
        'notes': 'All checks are static (family: static analysis). Genuine defects found on the pinned tree were repaired by fix: commits in /repo; '
                 'they are listed as fixed in known_findings.json. See DESIGN.md.',
    }
    with open(os.path.join(os.path.dirname(os.path.abspath(__file__)), 'MANIFEST.json'), 'w') as fh:
        json.dump(m, fh, indent=1)
    print('claimed:', built)

main()
