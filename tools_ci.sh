#!/bin/sh
# run before every commit: setup, all quick checks, schema validation. exit non-zero on any problem.
cd "$(dirname "$0")" || exit 2
/venv/bin/python -B -m sa.selfcheck || exit 2
/venv/bin/python tools_manifest.py > /dev/null || exit 2
rc=0
for p in $(/venv/bin/python -c "import json;print(' '.join(c['property_id'] for c in json.load(open('MANIFEST.json'))['checks']))"); do
  ./check $p --tier quick > /tmp/ci_$p.log 2>&1 || { echo "FAIL $p"; tail -5 /tmp/ci_$p.log; rc=1; }
done
python3-vt - <<'PY' || rc=1
import json, jsonschema, glob
m=json.load(open('/verif/MANIFEST.json')); jsonschema.validate(m, json.load(open('/root/.vp/MANIFEST.schema.json')))
s=json.load(open('/root/.vp/EVIDENCE.schema.json'))
n=0
for c in m['checks']:
    jsonschema.validate(json.load(open(c['evidence_file'])), s); n+=1
print('ci: manifest + %d evidence files valid' % n)
PY
git -C /repo status --porcelain | grep -q . && { echo "ci: /repo working tree is dirty"; rc=1; }
exit $rc
