"""Existing defect (unchanged code): LieTensor.lview rejects the torch.Size / tuple form
of the target shape although its docstring declares `shape (torch.Size or int...)` and
points to Tensor.view, which accepts both spellings.

lview builds `self.view(*shape + self.ltype.dimension)`; `shape` is the *args tuple, so a
Size argument ends up nested: view(torch.Size([4]), 3) -> TypeError.
"""
import sys, warnings
warnings.simplefilter("ignore")
import torch
import pypose as pp

x = pp.randn_so3(2, 2)
ref = x.lview(4)                       # int form works
assert ref.lshape == torch.Size([4])
assert x.tensor().view(torch.Size([4, 3])).shape == (4, 3)   # plain Tensor.view takes a Size

bad = []
for target in (torch.Size([4]), (4,), ref.lshape):
    try:
        y = x.lview(target)
        if y.lshape != torch.Size([4]) or not torch.equal(y.tensor(), ref.tensor()):
            bad.append(f"lview({target!r}) returned lshape {tuple(y.lshape)}")
    except Exception as e:
        bad.append(f"lview({target!r}) raised {type(e).__name__}: {e}")

if bad:
    print("FAIL: lview does not accept the documented torch.Size form of the shape:")
    for b in bad:
        print("  -", b)
    sys.exit(1)
print("PASS")
