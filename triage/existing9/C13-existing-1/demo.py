"""PF.forward documents `t (int, optional): set system timestamp for estimation`,
but a Python int timestamp raises TypeError (NLS.set_refpoint calls
torch.atleast_1d(t), which only accepts tensors)."""
import sys
import torch
import pypose as pp


class TV(pp.module.NLS):
    def state_transition(self, state, input, t=None):
        return state * torch.cos(torch.as_tensor(t, dtype=state.dtype)) + input

    def observation(self, state, input, t=None):
        return state + t


torch.manual_seed(0)
pf = pp.module.PF(TV(), torch.eye(2) * 0.1, torch.eye(2) * 0.1)
x, y, u, P = torch.randn(2), torch.randn(2), torch.randn(2), torch.eye(2)
xt, Pt = pf(x, y, u, P, t=torch.tensor(3))
print('tensor t=3 works:', xt)
try:
    xi, Pi = pf(x, y, u, P, t=3)
except Exception as e:
    print('FAIL: PF.forward(t=3) with the documented int timestamp raised %s: %s'
          % (type(e).__name__, str(e).splitlines()[0]))
    sys.exit(1)
print('OK: int t accepted:', xi)
