"""C08 on the UNCHANGED code: LevenbergMarquardt.step accepts a trial whose loss is NaN.

The residual log(x) is defined for x > 0 only.  From x = 5 the (almost undamped) LM step
is about -x*log(x) = -8, i.e. the trial lands at x = -3 where the residual and the loss are
NaN.  The accept/reject test is `self.last < self.loss`, which is False for a NaN trial
loss, so the trial is ACCEPTED although reject=16 rejections are available and a more
strongly damped step would decrease the loss: the parameters are left at the NaN point,
step() returns NaN and every later call fails in the linear solver.  A rejected trial
(as for +inf, or any finite worse loss) would have restored x = 5 and tried again."""
import sys
import torch
from torch import nn
import pypose as pp

torch.set_default_dtype(torch.float64)


class Log(nn.Module):
    def __init__(self):
        super().__init__()
        self.x = nn.Parameter(torch.tensor([5.0]))

    def forward(self, s):
        return torch.log(self.x * s)


bad = []
for name, strategy in (('TrustRegion', pp.optim.strategy.TrustRegion(radius=1e6)),
                       ('Adaptive', pp.optim.strategy.Adaptive(damping=1e-6)),
                       ('Constant', pp.optim.strategy.Constant(damping=1e-6))):
    model = Log()
    opt = pp.optim.LM(model, strategy=strategy, reject=16)
    s = torch.tensor([1.0])
    given = opt.model.loss(s, None).item()
    x0 = model.x.detach().clone()
    ret = opt.step(s)
    print('%-11s loss given %.6f -> step() returned %s after %d rejection(s) of %d allowed; x: %s -> %s'
          % (name, given, ret.item(), opt.reject_count, opt.reject, x0.tolist(), model.x.detach().tolist()))
    if not ret.item() <= given:
        bad.append(name)

if bad:
    print('\nFAIL (%s): a trial with NaN loss was accepted without exhausting the rejections; '
          'the parameters were not restored and step() reports NaN.' % ', '.join(bad))
    sys.exit(1)
print('\nOK: the loss never got worse.')
