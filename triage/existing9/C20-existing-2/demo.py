"""_Scheduler.state_dict() contains the `continual` wrapper object, which is bound to the
scheduler it was created for.  Loading that state into another scheduler makes
other.continual() report the *source* scheduler's flag: a stopped controller is re-armed
(driver loops never end) or a live one reports stopped."""
import sys, torch
from torch import nn
import pypose as pp
from pypose.optim.scheduler import StopOnPlateau

class Lin(nn.Module):
    def __init__(self):
        super().__init__()
        self.x = nn.Parameter(torch.zeros(3))
    def forward(self, A):
        return A @ self.x - 1.0

torch.manual_seed(0)
A = torch.randn(8, 3)
a = StopOnPlateau(pp.optim.GN(Lin()), steps=3, patience=2)
b = StopOnPlateau(pp.optim.GN(Lin()), steps=3, patience=2)
b.load_state_dict(a.state_dict())            # checkpoint / restore of a fresh scheduler

n = 0
while b.continual() and n < 20:
    b.step(b.optimizer.step(A)); n += 1
print('restored scheduler: steps=%d max_steps=%d _continual=%s continual()=%s, loop ran %d steps'
      % (b.steps, b.max_steps, b._continual, b.continual(), n))
ok = n <= 3 and b.continual() == b._continual
if not ok:
    print('FAIL: after load_state_dict, continual() reads the flag of the scheduler the '
          'state came from; the step budget (3) is not honoured')
sys.exit(0 if ok else 1)
