"""
Existing behaviour (unchanged code): NLS.set_refpoint keeps the caller's state / input
tensors by reference (only the reference time is copied), while f(x*,u*,t*) and
g(x*,u*,t*) are evaluated once and stored.  A caller that reuses its state buffer in place
after set_refpoint (the usual `x.copy_(x_next)` roll-out loop) silently moves the
reference point of A, B, C, D, but c1 / c2 keep the old f / g, so the "linearised system"
is no longer the linearisation at ANY point: A x + B u + c1 reproduces f neither at the
point given to set_refpoint nor at the point the buffer now holds.
"""
import sys
import torch
import pypose as pp


class Plant(pp.module.NLS):
    def state_transition(self, state, input, t=None):
        return state.cos() + input * state

    def observation(self, state, input, t=None):
        return state.sin() + input


def main():
    torch.set_default_dtype(torch.float64)
    m = Plant()
    x = torch.tensor([0.3, -0.7])         # the caller's state buffer
    u = torch.tensor([0.5, 1.5])
    t = torch.tensor(0)

    m.set_refpoint(state=x, input=u, t=t)
    xs = x.clone()                         # the reference point that was requested
    A0, c10 = m.A.clone(), m.c1.clone()

    x_next, _ = m(x, u)
    x.copy_(x_next)                        # roll the buffer forward in place

    A1, c11 = m.A, m.c1
    f_ref = m.state_transition(xs, u, t)
    err_ref = (pp.bmv(A1, xs) + pp.bmv(m.B, u) + c11 - f_ref).abs().max().item()
    f_now = m.state_transition(x, u, t)
    err_now = (pp.bmv(A1, x) + pp.bmv(m.B, u) + c11 - f_now).abs().max().item()
    print("A right after set_refpoint:\n", A0)
    print("A after the caller advanced its own buffer in place (no new set_refpoint):\n", A1)
    print(f"affine model error at the requested reference point: {err_ref:.3e}")
    print(f"affine model error at the buffer's current value:    {err_now:.3e}")
    bad = False
    if not torch.allclose(A0, A1):
        print("FAIL: A changed although set_refpoint was not called again")
        bad = True
    if err_ref > 1e-9:
        print("FAIL: A x* + B u* + c1 != f(x*, u*, t*) for the reference point passed to set_refpoint")
        bad = True
    sys.exit(1 if bad else 0)


if __name__ == "__main__":
    main()
