"""LM.step compares the trial loss with self.loss kept from the PREVIOUS call instead of the loss of
the current input/target at the current parameters.  After a call on data with a small loss, a call
with other data (larger loss) rejects every trial - including steps that reduce the loss a lot -
until the reject budget is exhausted and the damping has been inflated.
"""
import sys
import torch
import pypose as pp
from torch import nn

torch.set_default_dtype(torch.float64)


class Lin(nn.Module):
    def __init__(self):
        super().__init__()
        self.theta = nn.Parameter(torch.zeros(2))

    def forward(self, x):
        return (self.theta - x).view(1, 2)


model = Lin()
opt = pp.optim.LM(model)
xa, xb = torch.tensor([0.1, 0.0]), torch.tensor([3.0, -4.0])
la = float(opt.step(xa))
print('call 1 (data A): loss %.3e, theta=%s' % (la, model.theta.tolist()))
before = float((model.theta.detach() - xb).square().sum())
lb = float(opt.step(xb))
after = float((model.theta.detach() - xb).square().sum())
print('call 2 (data B): true loss before %.4f, true loss after %.4f, returned %.4f, rejected trials %d'
      % (before, after, lb, opt.reject_count))
if opt.reject_count > 0 or after > 1e-6 * before:
    print('WRONG: the problem is linear; the first (almost undamped) trial reduces the loss of data B from '
          '%.4f to ~0 and must be accepted, but it was compared with the stale loss %.3e of data A and '
          'rejected %d times' % (before, la, opt.reject_count))
    sys.exit(1)
print('ok')
