"""ReduceToBason judges 'decrease' by (last - loss) / loss, which flips sign for negative
losses (MPC costs with a linear term p can be negative): a steadily DEcreasing negative
loss is counted as a stall, a steadily INcreasing one resets the patience counter."""
import sys
from pypose.utils import ReduceToBason

dec = ReduceToBason(steps=50, patience=3, decreasing=1e-3, tol=-1e9)
n_dec = 0
for loss in [-1.0 * 2 ** k for k in range(20)]:      # -1, -2, -4, ... strictly decreasing
    if not dec.continual():
        break
    dec.step(loss); n_dec += 1

inc = ReduceToBason(steps=50, patience=3, decreasing=1e-3, tol=-1e9)
n_inc = 0
for loss in [-1024.0 / 2 ** k for k in range(20)]:   # -1024, -512, ... strictly increasing
    if not inc.continual():
        break
    inc.step(loss); n_inc += 1

print('strictly decreasing negative losses: stopped after %d steps (patience must not fire; expected 20)' % n_dec)
print('strictly increasing negative losses: stopped after %d steps (patience=3 must fire at step 4)' % n_inc)
ok = n_dec == 20 and n_inc == 4
if not ok:
    print('FAIL: sign of the relative decrease is wrong for negative losses')
sys.exit(0 if ok else 1)
