"""Existing defect: pypose.sparse.ops._sparse_csr_mm does not return the dense product for
most BSR/BSC/CSR/CSC layout pairs - it raises unrelated TypeErrors / RuntimeErrors:
  * the fall-through branch builds `zero = torch.zeros(...),` (trailing comma -> a tuple) and
    passes the tuple to torch.addmm -> TypeError (e.g. CSR x BSR, CSR x BSC, dense x CSR);
  * BSC x BSR executes `raise NotImplemented` (not an exception class) -> TypeError;
  * BSR x BSR / BSR x CSR / BSC x CSC reach torch.zeros(layout=<block layout>) -> RuntimeError.
Only CSR/CSC x CSR/CSC, BSR x BSC and (CSR|CSC|BSR) x dense work.
"""
import sys, itertools, warnings
import torch
warnings.filterwarnings('ignore')
from pypose.sparse.ops import _sparse_csr_mm

torch.manual_seed(0)
A = torch.randn(4, 6) * (torch.rand(4, 6) > 0.5)
B = torch.randn(6, 4) * (torch.rand(6, 4) > 0.5)
conv = {'csr': lambda t: t.to_sparse_csr(), 'csc': lambda t: t.to_sparse_csc(),
        'bsr': lambda t: t.to_sparse_bsr((2, 2)), 'bsc': lambda t: t.to_sparse_bsc((2, 2))}
bad = []
for l1, l2 in itertools.product(conv, conv):
    try:
        y = _sparse_csr_mm(conv[l1](A), conv[l2](B)).to_dense()
        ok = torch.allclose(y, A @ B, atol=1e-5)
        msg = 'ok' if ok else 'WRONG VALUES'
    except BaseException as e:
        ok, msg = False, 'raised %s: %s' % (type(e).__name__, str(e).splitlines()[0][:90])
    print('%s x %s : %s' % (l1, l2, msg))
    if not ok:
        bad.append((l1, l2))
if bad:
    print('\nFAIL: %d of 16 layout pairs do not yield the dense product: %s' % (len(bad), bad))
    sys.exit(1)
print('PASS')
