# Existing behaviour (unchanged code): LQR on a time-varying system with dt != 1.
# lqr_backward linearises step t at system time t*dt (set_refpoint(t=torch.tensor(t*dt))), whereas the
# nominal roll-out (runsys) and the forward roll-out advance the system clock by exactly 1 per step.
# For an LTV system indexed by its time counter the gains are therefore computed from A_{t*dt}, B_{t*dt}
# while the returned trajectory evolves with A_t, B_t: the result is feasible but NOT the minimiser.
import sys, torch, pypose as pp

torch.set_default_dtype(torch.float64)
torch.manual_seed(0)

n_batch, T, ns, nc = 2, 4, 3, 2
n = ns + nc
M = torch.randn(n_batch, T, n, n)
Q = M.mT @ M + 0.5 * torch.eye(n)
p = torch.randn(n_batch, T, n)
x_init = torch.randn(n_batch, ns)
L = 2 * T                                            # table long enough for every index touched
At = torch.eye(ns) + 0.3 * torch.randn(n_batch, L, ns, ns)
Bt = torch.randn(n_batch, L, ns, nc)
Ct = torch.eye(ns).repeat(n_batch, L, 1, 1)
Dt = torch.zeros(n_batch, L, ns, nc)


class MyLTV(pp.module.LTV):
    @property
    def A(self): return self._A[..., self._t, :, :]
    @property
    def B(self): return self._B[..., self._t, :, :]
    @property
    def C(self): return self._C[..., self._t, :, :]
    @property
    def D(self): return self._D[..., self._t, :, :]


def total_cost(u):
    x, c, xs = x_init, 0., [x_init]
    for t in range(T):
        tau = torch.cat((x, u[:, t]), dim=-1)
        c = c + 0.5 * torch.einsum('bi,bij,bj->b', tau, Q[:, t], tau) + (p[:, t] * tau).sum(-1)
        x = torch.einsum('bij,bj->bi', At[:, t], x) + torch.einsum('bij,bj->bi', Bt[:, t], u[:, t])
        xs.append(x)
    return c, torch.stack(xs, dim=1)


res = {}
for dt in (1, 2):
    x, u, cost = pp.module.LQR(MyLTV(At, Bt, Ct, Dt), Q, p, T)(x_init, dt)
    uu = u.clone().requires_grad_(True)
    c, xs = total_cost(uu)
    g, = torch.autograd.grad(c.sum(), uu)
    feas = (xs.detach() - x).abs().max().item()
    print("dt=%d: x follows x_(t+1)=A_t x_t+B_t u_t up to %.1e, reported cost %s, max |dJ/du| = %.3e"
          % (dt, feas, [round(v, 6) for v in cost.tolist()], g.abs().max().item()))
    res[dt] = (feas, cost, g.abs().max().item())

bad = False
if res[2][0] < 1e-9 and res[2][2] > 1e-6:
    print("FAIL: with dt=2 the returned trajectory obeys the SAME dynamics (A_t, B_t, one step per index) as with "
          "dt=1, but it is not a stationary point of the cost; cost %s > optimum %s"
          % (res[2][1].tolist(), res[1][1].tolist()))
    bad = True
sys.exit(1 if bad else 0)
