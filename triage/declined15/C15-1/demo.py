"""C15 demo 1: an LTI / LTV step is x' = A x + B u + c1, y = C x + D u + c2, and only a
call that really made that step may advance the system time.

B and D below have TWO input channels.  An input with a single entry is not a vector the
equations are defined for, so the call has to be refused and the clock has to stay where
it was.  The demo first checks an ordinary step (must match the equations), then feeds
one-entry inputs (unbatched, batched, 0-dim) and checks that every such call is refused
with the clock untouched.  If a value is returned instead, it is compared with the
equations for the only two-channel inputs consistent with what was passed.
"""
import sys, warnings
warnings.filterwarnings('ignore')
import torch
import pypose as pp

torch.manual_seed(1)
torch.set_default_dtype(torch.float64)
n, m, p, nb = 3, 2, 2, 4
A, B = torch.randn(n, n), torch.randn(n, m)
C, D = torch.randn(p, n), torch.randn(p, m)
c1, c2 = torch.randn(n), torch.randn(p)
lti = pp.module.LTI(A, B, C, D, c1, c2)

ok = True

# ordinary step
x, u = torch.randn(nb, n), torch.randn(nb, m)
lti.reset(3)
xn, y = lti(x, u)
e = max((xn - (x @ A.T + u @ B.T + c1)).abs().max().item(),
        (y - (x @ C.T + u @ D.T + c2)).abs().max().item())
print('ordinary step: max abs err %.2e, clock %d -> %d' % (e, 3, int(lti.systime)))
if e > 1e-12 or int(lti.systime) != 4:
    print('FAIL: ordinary step does not follow the equations / clock')
    ok = False

# one-entry inputs for a two-channel system
cases = {'u of shape (1,)': (torch.randn(n), torch.tensor([0.7])),
         'u of shape (%d, 1)' % nb: (torch.randn(nb, n), torch.randn(nb, 1)),
         '0-dim u': (torch.randn(n), torch.tensor(-1.3))}
for name, (x, u) in cases.items():
    lti.reset(5)
    try:
        xn, y = lti(x, u)
    except (AssertionError, RuntimeError) as err:
        print('%-18s: refused (%s), clock stays %d' % (name, type(err).__name__, int(lti.systime)))
        if int(lti.systime) != 5:
            print('FAIL: a refused call moved the clock')
            ok = False
        continue
    u1 = torch.atleast_1d(u)
    pad = torch.cat([u1, torch.zeros_like(u1)], dim=-1)       # the entry drives channel 0 only
    e_pad = (xn - (x @ A.T + pad @ B.T + c1)).abs().max().item()
    print('%-18s: ACCEPTED, clock %d -> %d, returned x\' differs from A x + B [u, 0] + c1 by %.3e'
          % (name, 5, int(lti.systime), e_pad))
    print('FAIL: B has %d columns but the input has 1 entry; the step x\' = A x + B u + c1 is '
          'undefined, yet a state/observation was returned (the entry was silently copied to '
          'every input channel) and the system time advanced' % m)
    ok = False

if not ok:
    sys.exit(1)
print('OK')
