"""C03 demo 1: a group product is only defined between elements of ONE group type.

For operands of different group types, X @ Y must either be rejected, or - if it is
answered at all - be the composition of the two transformations, i.e.
    (X @ Y).Act(p) == X.Act(Y.Act(p))      for every point p.
Same-type products are checked as well (they must keep obeying the law)."""
import sys, warnings, itertools
import torch, pypose as pp

warnings.filterwarnings("ignore")
torch.manual_seed(0)
dt = torch.float64
make = {'SO3': pp.randn_SO3, 'SE3': pp.randn_SE3, 'RxSO3': pp.randn_RxSO3, 'Sim3': pp.randn_Sim3}
p = torch.randn(5, 3, dtype=dt)
tol = 1e-9
bad = []

for a, b in itertools.product(make, make):
    X, Y = make[a](5, dtype=dt), make[b](5, dtype=dt)
    try:
        Z = X @ Y
    except Exception as e:
        if a == b:
            bad.append("%s @ %s raised %s" % (a, b, type(e).__name__))
        else:
            print("%-5s @ %-5s : rejected (%s) - fine" % (a, b, type(e).__name__))
        continue
    err = (Z.Act(p) - X.Act(Y.Act(p))).abs().max().item()
    status = 'ok' if err < tol else 'WRONG'
    print("%-5s @ %-5s : returned %s, |(X@Y).Act(p) - X.Act(Y.Act(p))| = %.3e  %s"
          % (a, b, type(Z.ltype).__name__, err, status))
    if err >= tol:
        bad.append("%s @ %s is answered with a %s that is not the composition (error %.3e)"
                   % (a, b, type(Z.ltype).__name__, err))

if bad:
    print("\nFAIL: product law (X@Y).Act(p) = X.Act(Y.Act(p)) violated:")
    for m in bad:
        print("  -", m)
    sys.exit(1)
print("\nPASS: every product that is answered is the composition of its operands")
