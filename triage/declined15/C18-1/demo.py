"""C18: nbr_filter keeps exactly the points with at least n OTHER points of the same
cloud within the radius.

Part 1 checks that on ordinary (N, D) clouds against the brute-force definition.
Part 2 hands nbr_filter a stack of clouds (B, N, D).  The filter is a per-cloud
operation (the number of survivors differs from cloud to cloud), so a stacked input is
either refused, or every cloud has to be filtered on its own: the points of another
cloud of the stack are not neighbours.
"""
import sys
import torch
import pypose as pp

torch.manual_seed(0)


def brute_mask(cloud, nbr, radius, pdim, ord):
    N = cloud.size(0)
    keep = []
    for i in range(N):
        c = 0
        for j in range(N):
            if i != j and torch.linalg.norm(cloud[i, :pdim] - cloud[j, :pdim], ord=ord) <= radius:
                c += 1
        keep.append(c >= nbr)
    return torch.tensor(keep)


failures = []

# ---- part 1: single clouds, extra feature channels, norms 1 / 2 / inf
for trial, (N, pdim, extra, nbr, radius, ord) in enumerate([
        (40, 3, 0, 2, 0.9, 2), (25, 2, 3, 1, 0.4, 1), (60, 4, 1, 3, 1.1, float('inf')), (1, 3, 0, 0, 1.0, 2)]):
    cloud = torch.randn(N, pdim + extra, dtype=torch.float64)
    out, mask = pp.nbr_filter(cloud, nbr, radius, pdim=pdim, ord=ord, return_mask=True)
    want = brute_mask(cloud, nbr, radius, pdim, ord)
    ok = torch.equal(mask, want) and torch.equal(out, cloud[want])
    print("single cloud #%d (N=%d, pdim=%d, ord=%s): %s" % (trial, N, pdim, ord, "ok" if ok else "WRONG"))
    if not ok:
        failures.append("single cloud %d" % trial)

# ---- part 2: two sweeps of the same scene, stacked
# Every sweep sees four isolated pairs of points: inside one sweep each point has exactly
# ONE other point within the radius, so with nbr=2 every point of every sweep is an outlier.
pairs = torch.tensor([[0., 0., 0.], [0.3, 0., 0.],
                      [9., 0., 0.], [9., 0.3, 0.],
                      [0., 9., 0.], [0., 9., 0.3],
                      [9., 9., 9.], [9.3, 9., 9.]], dtype=torch.float64)
sweeps = torch.stack([pairs, pairs + 0.01])            # (2, 8, 3)
nbr, radius = 2, 1.0
want = torch.stack([brute_mask(s, nbr, radius, 3, 2) for s in sweeps])
assert not want.any()                                   # per sweep: nothing survives

try:
    out, mask = pp.nbr_filter(sweeps, nbr, radius, return_mask=True)
except (AssertionError, RuntimeError, IndexError, ValueError) as e:
    print("stack of 2 sweeps: refused (%s: %s) - fine, the filter is a per-cloud operation"
          % (type(e).__name__, e))
else:
    mask = mask.reshape(want.shape)
    print("stack of 2 sweeps: accepted; survivors per sweep: returned %s, brute force per cloud %s"
          % (mask.sum(-1).tolist(), want.sum(-1).tolist()))
    if not torch.equal(mask, want) or out.size(0) != int(want.sum()):
        print("FAIL: points were kept although they have only %d other point(s) of their own cloud "
              "within radius %.1f (nbr=%d): the neighbours were counted across the clouds of the stack"
              % (1, radius, nbr))
        failures.append("stacked clouds filtered as one cloud")

assert not failures, failures
print("OK: nbr_filter keeps exactly the points with >= n other points of their cloud within the radius")
sys.exit(0)
