# C14: LQR returns the minimiser of  sum_t 1/2 tau_t^T Q_t tau_t + p_t^T tau_t  and reports that cost.
# The linear terms p_t are built step by step here (one [B, n] tensor per step of the horizon).
# Stacked along dim 1 they form the documented [B, T, n] layout.  Stacked along dim 0 they form a
# time-major [T, B, n] tensor, which does not match Q [B, T, n, n]: LQR must either refuse it
# ("Shape not compatible.") or solve the problem that was meant - never silently solve another one.
import sys, torch, pypose as pp

torch.set_default_dtype(torch.float64)
torch.manual_seed(11)

n_batch, T, ns, nc = 2, 3, 3, 2
n = ns + nc
A = torch.eye(ns) + 0.3 * torch.randn(n_batch, ns, ns)
B = torch.randn(n_batch, ns, nc)
C = torch.eye(ns).repeat(n_batch, 1, 1)
D = torch.zeros(n_batch, ns, nc)
c1 = torch.randn(n_batch, ns)
M = torch.randn(n_batch, T, n, n)
Q = M.mT @ M + 0.5 * torch.eye(n)
p_steps = [torch.randn(n_batch, n) for _ in range(T)]      # p_t for every batch item
x_init = torch.randn(n_batch, ns)

p_true = torch.stack(p_steps, dim=1)                       # [B, T, n], documented layout


def rollout(u):
    xs = [x_init]
    for t in range(T):
        xs.append(pp.bmv(A, xs[-1]) + pp.bmv(B, u[:, t]) + c1)
    return torch.stack(xs, dim=1)


def total_cost(u):
    x = rollout(u)
    tau = torch.cat((x[:, :-1], u), dim=-1)
    return (0.5 * pp.bvmv(tau, Q, tau) + (tau * p_true).sum(-1)).sum(-1)


def check(name, x, u, cost):
    ug = u.detach().clone().requires_grad_(True)
    J = total_cost(ug)
    grad, = torch.autograd.grad(J.sum(), ug)
    g, dc = grad.abs().max().item(), (cost - J.detach()).abs().max().item()
    print('%-28s |dJ/du|max = %.3e   |reported cost - sum of stage costs| = %.3e' % (name, g, dc))
    return g < 1e-8 and dc < 1e-8


ok = True
lti = pp.module.LTI(A, B, C, D, c1)

x, u, cost = pp.module.LQR(lti, Q, p_true, T)(x_init)
ok &= check('p as [B, T, n]', x, u, cost)

p_time_major = torch.stack(p_steps, dim=0)                 # [T, B, n] = [3, 2, 5]
try:
    lqr = pp.module.LQR(lti, Q, p_time_major, T)
    x, u, cost = lqr(x_init)
except (AssertionError, RuntimeError, IndexError) as e:
    print('p as [T, B, n]: rejected (%s: %s) - fine' % (type(e).__name__, str(e)[:60]))
else:
    good = check('p as [T, B, n] (accepted)', x, u, cost)
    if not good:
        print('   -> the mis-laid-out p was accepted and its entries were silently re-assigned to other '
              'steps / batch items: the returned inputs do not minimise the stated cost and the '
              'reported cost is not the sum of the stage costs')
    ok &= good

if not ok:
    print('FAIL: property C14 violated')
    sys.exit(1)
print('PASS')
