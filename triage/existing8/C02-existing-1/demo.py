"""Unchanged code: sim3 Exp (and hence Log(Exp(x)) = x) is grossly wrong when the log-scale sigma is
slightly above machine epsilon.  rxso3_Ws switches from the limit C = 1 to the closed form
C = (exp(sigma) - 1) / sigma as soon as |sigma| > eps; exp(sigma) is then 1 plus one or two ulps,
so C (the coefficient of the identity in the translation coupling matrix W) comes out as 0.8 ... 1.6
instead of 1.0000001.  The translation of Exp(x) is off by tens of percent and Log(Exp(x)) != x.
"""
import sys, warnings
import torch
import pypose as pp

warnings.filterwarnings("ignore")
bad = []
for dtype, sigmas, tol in ((torch.float32, [1.5e-7, 2e-7, 3e-7, 1e-6, 1e-5], 1e-4),
                           (torch.float64, [3e-16, 5e-16, 1e-15, 1e-13], 1e-9)):
    for sg in sigmas:
        x = pp.sim3(torch.tensor([1.0, -2.0, 3.0, 0.0, 0.0, 0.0, sg], dtype=dtype))
        # zero rotation: W = C * I, the exact translation of Exp(x) is expm1(sigma)/sigma * tau ~ tau
        X = x.Exp()
        ref = torch.special.expm1(torch.tensor(sg, dtype=torch.float64)) / sg * x.tensor()[:3].double()
        rel = ((X.translation().double() - ref).abs().max() / ref.abs().max()).item()
        back = (X.Log().tensor() - x.tensor()).abs().max().item()
        print(dtype, 'sigma=%g' % sg, 'relative error of Exp(x).translation: %.3g' % rel,
              ' |Log(Exp(x)) - x|: %.3g' % back)
        if not (rel < tol and back < tol * 10):
            bad.append((dtype, sg, rel, back))
if bad:
    print("VIOLATION on the unchanged code: sim3 Exp / Log(Exp(x)) wrong for log-scale slightly above eps")
    sys.exit(1)
print("OK")
