"""Existing defect: LQR(x_init, dt) with dt != 1 on a time-varying (LTV) system.

lqr_backward linearises step t at system time t*dt (set_refpoint(t=t*dt)), while the nominal
roll-out and lqr_forward advance the system clock by 1 per step.  The gains are therefore
computed for A_{t*dt}, B_{t*dt} but applied to A_t, B_t: the returned inputs are not optimal
for the system that was actually rolled out (and whose cost is reported).
"""
import sys, torch, pypose as pp

torch.set_default_dtype(torch.float64)
torch.manual_seed(0)
nb, T, ns, nc, dt = 2, 5, 3, 2, 2
n = ns + nc
M = torch.randn(nb, T, n, n)
Q = M @ M.mT + 0.5 * torch.eye(n)
p = torch.randn(nb, T, n)
A = torch.eye(ns) + 0.3 * torch.randn(nb, dt * T, ns, ns)
B = torch.randn(nb, dt * T, ns, nc)
x_init = torch.randn(nb, ns)


class TV(pp.module.LTV):
    @property
    def A(self):
        return self._A[..., self._t, :, :]

    @property
    def B(self):
        return self._B[..., self._t, :, :]


ltv = TV(A, B, torch.zeros(nb, ns, ns), torch.zeros(nb, ns, nc))
x, u, cost = pp.module.LQR(ltv, Q, p, T)(x_init, dt)


def total(uu, stride):
    xt, c = x_init, 0.
    for t in range(T):
        tau = torch.cat((xt, uu[:, t]), dim=-1)
        c = c + 0.5 * pp.bvmv(tau, Q[:, t], tau) + (p[:, t] * tau).sum(-1)
        xt = pp.bmv(A[:, t * stride], xt) + pp.bmv(B[:, t * stride], uu[:, t])
    return c

bad = True
for stride in (1, dt):   # either reading of dt: clock advances by 1 or by dt per step
    feas = max((x[:, t + 1] - pp.bmv(A[:, t * stride], x[:, t]) - pp.bmv(B[:, t * stride], u[:, t])).abs().max().item()
               for t in range(T))
    uu = u.clone().requires_grad_(True)
    g, = torch.autograd.grad(total(uu, stride).sum(), uu)
    print('system stepping its clock by %d: dynamics residual %.2e, |dcost/du| %.2e, cost mismatch %.2e'
          % (stride, feas, g.abs().max().item(), (total(u, stride) - cost).abs().max().item()))
    if feas < 1e-8 and g.abs().max() < 1e-6:
        bad = False
if bad:
    print("FAIL: with dt=2 the LQR result is the feasible minimiser under neither reading of dt")
    sys.exit(1)
print("OK")
