"""knn_filter(points, k, radius=r) raises whenever fewer than k+1 points survive the
radius test, although every surviving point does have k other points within the radius
(so a result is promised for it), and although an empty result is the natural answer
when nothing survives.

The radius branch keeps the points with at least k others within `radius`, counted in the
FULL cloud, but then searches the k+1 nearest rows among the SURVIVORS only
(dist[rmask][:, rmask].topk(k+1)).  The guard `count >= k` therefore does not imply the
precondition of the topk: the neighbours that made a point an inlier may themselves have
been removed.
"""
import sys
import torch
import pypose as pp

bad = []

# a 'star': the centre has 2 others within 1.5, each leaf has only 1; one far outlier
star = torch.tensor([[0., 0., 0.], [1., 0., 0.], [-1., 0., 0.], [50., 0., 0.]])
kept, mask = pp.nbr_filter(star, nbr=2, radius=1.5, return_mask=True)
print("nbr_filter(star, nbr=2, radius=1.5) keeps", mask.tolist())
for order in ([0, 1, 2, 3], [3, 1, 0, 2]):
    try:
        out = pp.knn_filter(star[order], k=2, radius=1.5)
        print("knn_filter(star%s, k=2, radius=1.5) ->" % order, out.tolist())
        want = star[:3].mean(dim=0, keepdim=True)
        if out.shape != (1, 3) or not torch.allclose(out, want, atol=1e-6):
            bad.append("star: expected the mean of the centre and its two leaves %s" % want.tolist())
    except Exception as e:
        print("knn_filter(star%s, k=2, radius=1.5) raised %s: %s" % (order, type(e).__name__, e))
        bad.append("star: exception although the centre point has k=2 others within the radius")

# two stars: two survivors (< k+1)
two = torch.tensor([[0., 0.], [1., 0.], [-1., 0.], [10., 0.], [11., 0.], [9., 0.], [30., 30.]])
try:
    out = pp.knn_filter(two, k=2, radius=1.5)
    print("knn_filter(two stars) ->", out.tolist())
except Exception as e:
    print("knn_filter(two stars, k=2, radius=1.5) raised %s: %s" % (type(e).__name__, e))
    bad.append("two stars: exception with two retained points")

# nothing survives: an empty (0, D) cloud is expected (nbr_filter returns one)
sparse = torch.arange(5.)[:, None] * torch.tensor([[100., 0., 0.]])
print("nbr_filter(sparse) shape", tuple(pp.nbr_filter(sparse, nbr=2, radius=0.1).shape))
try:
    out = pp.knn_filter(sparse, k=2, radius=0.1)
    print("knn_filter(sparse) shape", tuple(out.shape))
    if out.shape != (0, 3):
        bad.append("sparse: expected an empty (0, 3) result")
except Exception as e:
    print("knn_filter(sparse, k=2, radius=0.1) raised %s: %s" % (type(e).__name__, e))
    bad.append("sparse: exception instead of an empty result")

# three stars: no exception, but every centre is averaged with the other two centres,
# which are 10 and 20 away, i.e. far outside the radius that defined its neighbours
three = torch.cat([two[:6], torch.tensor([[20., 0.], [21., 0.], [19., 0.]])])
out = pp.knn_filter(three, k=2, radius=1.5)
print("knn_filter(three stars, k=2, radius=1.5) ->", out.tolist(),
      "(each centre has exactly two points within the radius: its own leaves)")

if bad:
    print("\nDEFECT:")
    for b in bad:
        print("   ", b)
    sys.exit(1)
print("ok")
