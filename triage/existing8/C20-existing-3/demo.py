# Existing defect: MPC turns a stepper budget n into "n-1 loops without gradient and
# 1 loop with gradient" by `stepper.max_steps -= 1`. For steps=1 the no-grad budget is 0,
# but reset() arms the stepper unconditionally, so one no-grad LQR solve is done anyway:
# 2 LQR solves for a budget of 1 (same as for a budget of 2). The decrement is also
# applied to the caller's stepper object itself, once per MPC built with it.
import sys
import torch, pypose as pp

T, dt = 4, 0.1
A = torch.tensor([[1.0, dt], [0.0, 1.0]]); B = torch.tensor([[0.0], [dt]])
C = torch.eye(2); D = torch.zeros(2, 1)
Q = torch.tile(torch.eye(3), (1, T, 1, 1)); p = torch.ones(1, T, 3)
x0 = torch.tensor([[1.0, 0.0]])

ok = True
for budget in (1, 2, 3):
    stepper = pp.utils.ReduceToBason(steps=budget, patience=100, tol=-1.0)
    mpc = pp.module.MPC(pp.module.LTI(A, B, C, D), Q, p, T, stepper=stepper)
    calls = []
    mpc.lqr.register_forward_hook(lambda *a: calls.append(1))
    mpc(dt, x0)
    good = len(calls) <= budget
    ok = ok and good
    print('steps=%d: %d LQR solves %s' % (budget, len(calls), '' if good else '<-- more than the budget'))

stepper = pp.utils.ReduceToBason(steps=5)
for _ in range(3):
    pp.module.MPC(pp.module.LTI(A, B, C, D), Q, p, T, stepper=stepper)
print('a stepper created with steps=5 and handed to three MPC objects now has max_steps =', stepper.max_steps)
ok = ok and stepper.max_steps >= 4
if not ok:
    print('FAIL'); sys.exit(1)
print('PASS')
