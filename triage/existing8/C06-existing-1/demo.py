"""Existing defect: pp.metric.ape / rpe ignore `nposes` ("The number of poses to use for
alignment"): the slice [..., :nposes] is taken on the xyz axis of the (N, 3) translations,
not on the pose axis.  nposes >= 3 therefore always aligns on ALL poses, nposes < 3 raises."""
import sys
import torch
import pypose as pp

torch.manual_seed(0)
dt = torch.float64
N, k = 10, 4
ref = pp.randn_SE3(N, dtype=dt)
T = pp.randn_SE3(dtype=dt)
est = T @ ref                                   # estimate = rigidly moved reference ...
noise = pp.randn_se3(N - k, sigma=1.0, dtype=dt).Exp()
est[k:] = noise @ est[k:]                       # ... but only the first k poses are clean
stamps = torch.arange(N, dtype=dt)

bad = []
out = pp.metric.ape(stamps, ref, stamps, est, align=True, nposes=k, otype='Min')
print(f"ape(align=True, nposes={k}): Min translation error = {out.item():.3e} "
      f"(aligning on the first {k} clean poses must give ~0)")
if not out.item() < 1e-8:
    bad.append("nposes=4 did not restrict the alignment to the first 4 poses")
allp = pp.metric.ape(stamps, ref, stamps, est, align=True, nposes=-1, otype='Min')
if torch.equal(out, allp):
    bad.append(f"nposes={k} gives exactly the nposes=-1 (all poses) result {allp.item():.6f}")
try:
    pp.metric.ape(stamps, ref, stamps, est, align=True, nposes=2, otype='Min')
except Exception as e:
    # 2 poses are not enough for a unique alignment, but the failure is an assertion about
    # the *point dimension*, showing which axis was sliced
    print("ape(align=True, nposes=2) raised", type(e).__name__, e)
    if 'point dim' in str(e):
        bad.append("nposes=2 sliced the xyz axis: " + str(e))
if bad:
    print("DEFECT:"); [print("  -", b) for b in bad]
    sys.exit(1)
print("OK")
