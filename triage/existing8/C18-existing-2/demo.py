"""knn(ref, nbr, k, dim=...) only works for dim=-1.  The docstring describes `dim` as
'the dimension encompassing the point cloud coordinates' (default: the last one), so
for (N, D) clouds dim=1 names the same axis as dim=-1 and for (B, N, D) clouds dim=2
does.  The implementation applies `dim` to the (…, N1, N2, D) difference tensor, which
has one axis more than the inputs, and then re-uses the same `dim` for the topk over the
(…, N1, N2) distance matrix, so a non-negative spelling of the coordinate axis reduces
over the NEIGHBOUR axis instead and returns wrong distances / indices without any error
(or raises an IndexError).
"""
import sys
import torch
import pypose as pp

torch.manual_seed(0)
bad = []

ref, nbr = torch.randn(6, 3), torch.randn(5, 3)
want = pp.knn(ref, nbr, k=2, dim=-1)
try:
    got = pp.knn(ref, nbr, k=2, dim=1)        # axis 1 of (N, 3) clouds == the last axis
    same = got.values.shape == want.values.shape and \
        torch.allclose(got.values, want.values) and torch.equal(got.indices, want.indices)
    print("unbatched dim=1 :", "same as dim=-1" if same else
          "DIFFERENT values\n%s\nvs dim=-1\n%s\nindices %s vs %s" % (
              got.values, want.values, got.indices.tolist(), want.indices.tolist()))
    if not same:
        bad.append("knn(ref(6,3), nbr(5,3), k=2, dim=1) != knn(..., dim=-1)")
except Exception as e:
    print("unbatched dim=1 raised %s: %s" % (type(e).__name__, e))
    bad.append("knn(..., dim=1) raised")

ref, nbr = torch.randn(2, 6, 3), torch.randn(2, 5, 3)
want = pp.knn(ref, nbr, k=2, dim=-1)
try:
    got = pp.knn(ref, nbr, k=2, dim=2)        # axis 2 of (B, N, 3) clouds == the last axis
    same = got.values.shape == want.values.shape and \
        torch.allclose(got.values, want.values) and torch.equal(got.indices, want.indices)
    print("batched dim=2   :", "same as dim=-1" if same else
          "DIFFERENT: shape %s vs %s" % (tuple(got.values.shape), tuple(want.values.shape)))
    if not same:
        bad.append("knn(ref(2,6,3), nbr(2,5,3), k=2, dim=2) != knn(..., dim=-1)")
except Exception as e:
    print("batched dim=2 raised %s: %s" % (type(e).__name__, e))
    bad.append("knn(..., dim=2) raised")

if bad:
    print("\nDEFECT:")
    for b in bad:
        print("   ", b)
    sys.exit(1)
print("ok")
