"""pp.identity_*(lsize..., requires_grad=True) does not return a differentiable *input*.

The docstrings promise `requires_grad (bool, optional): If autograd should record operations on
the returned tensor`, exactly like pp.randn_*(..., requires_grad=True).  The identity constructors
build the 1-D template with torch.tensor(..., requires_grad=True) and then .repeat() it (group
types) or push it through Log (algebra types), so the LieTensor handed to the user is a NON-LEAF
result of that hidden operation: after backward() its .grad stays None, so the left-perturbation
gradient "stored in X.grad" at the identity element never materialises, and it cannot be given to
an optimizer ("can't optimize a non-leaf Tensor")."""
import sys, warnings, torch, pypose as pp

warnings.simplefilter('ignore')
p = torch.tensor([[1., 2., 3.], [4., 5., 6.]])
bad = []
for name in ['SO3', 'SE3', 'Sim3', 'RxSO3']:
    R = getattr(pp, 'randn_' + name)(2, requires_grad=True)
    R.Act(p).sum().backward()
    X = getattr(pp, 'identity_' + name)(2, requires_grad=True)
    X.Act(p).sum().backward()
    ok = X.is_leaf and X.grad is not None
    print('%-6s randn: is_leaf=%s grad set=%s | identity: requires_grad=%s is_leaf=%s grad set=%s %s'
          % (name, R.is_leaf, R.grad is not None, X.requires_grad, X.is_leaf, X.grad is not None, '' if ok else '<-- WRONG'))
    if not ok:
        bad.append('identity_' + name)
    x = getattr(pp, 'identity_' + name.lower())(2, requires_grad=True)
    x.Exp().Act(p).sum().backward()
    ok = x.is_leaf and x.grad is not None
    print('%-6s identity (algebra): requires_grad=%s is_leaf=%s grad set=%s %s'
          % (name.lower(), x.requires_grad, x.is_leaf, x.grad is not None, '' if ok else '<-- WRONG'))
    if not ok:
        bad.append('identity_' + name.lower())
try:
    torch.optim.SGD([pp.identity_SE3(2, requires_grad=True)], lr=0.1)
except ValueError as e:
    print('torch.optim.SGD([pp.identity_SE3(2, requires_grad=True)]) ->', e)
    bad.append('optimizer')
if bad:
    print('FAIL: gradient at the identity element is not delivered in .grad for', bad)
    sys.exit(1)
print('PASS')
