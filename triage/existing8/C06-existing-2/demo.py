"""Existing defect: the return type of X.Act(p) / X @ p / X * p (documented: Tensor, the
transformed points) depends on the group when the points are passed as a LieTensor (e.g. an
so3 LieTensor, as tests/lietensor/test_lietensor.py does with I.Act(a)):
SE3 / Sim3 / RxSO3 return a plain Tensor, SO3 returns a LieTensor that claims ltype so3."""
import sys, warnings
import torch
import pypose as pp

torch.manual_seed(0)
warnings.simplefilter('ignore')
a = pp.randn_so3(3)                 # 3-vectors that happen to be wrapped as so3
bad = []
for mk in [pp.randn_SO3, pp.randn_SE3, pp.randn_Sim3, pp.randn_RxSO3]:
    for lshape in [(3,), (), (2, 1)]:
        X = mk(*lshape)
        ref = X.Act(a.tensor())
        for name, out in [("Act", X.Act(a)), ("@", X @ a), ("*", X * a), ("pp.Act", pp.Act(X, a))]:
            ok_val = torch.allclose(torch.Tensor.as_subclass(out, torch.Tensor), ref, atol=1e-6)
            if isinstance(out, pp.LieTensor) or not ok_val:
                bad.append(f"{mk.__name__}{lshape} {name} so3-points -> {type(out).__name__}"
                           f"{' ltype=' + type(out.ltype).__name__ if hasattr(out, 'ltype') else ''}"
                           f" values_ok={ok_val}")
if bad:
    print("DEFECT: Act on points returns a LieTensor (rotated points are not an so3 item):")
    [print("  -", b) for b in bad]
    sys.exit(1)
print("OK")
