"""Unchanged code: LevenbergMarquardt.step ACCEPTS a trial whose loss is NaN.

The reject test is `self.last < self.loss`; with loss = NaN the comparison is False, so the
trial is treated as accepted: the parameters are left at the point where the model is not
finite, step() returns NaN and reject_count stays 0 - although reject = 16 retries with a
larger damping were available (the second or third trial would have succeeded) and although
the strategy itself classified the very same trial as 'unsuccessful' (NaN quality -> damping
scaled up).  All later step() calls then see NaN residuals and can never recover."""
import sys, math, torch, pypose as pp
from torch import nn

torch.set_default_dtype(torch.float64)


class SqrtModel(nn.Module):
    # residual r(x) = sqrt(x) + 1, defined for x >= 0 only; minimum of r^2 at x = 0
    def __init__(self):
        super().__init__()
        self.x = nn.Parameter(torch.tensor([1.0]))

    def forward(self, inp):
        return (self.x.sqrt() + 1.0).view(1, 1)


fails = 0
for strategy in (pp.optim.strategy.Constant(damping=1e-6), pp.optim.strategy.Adaptive(),
                 pp.optim.strategy.TrustRegion()):
    model, inp = SqrtModel(), torch.zeros(1)
    opt = pp.optim.LM(model, strategy=strategy, reject=16)
    before = opt.model.loss(inp, None).item()
    d0 = opt.param_groups[0]['damping']
    ret = opt.step(inp).item()
    at = opt.model.loss(inp, None).item()
    ok = (not math.isnan(ret)) and ret <= before and abs(ret - at) <= 1e-9 * max(1.0, abs(at))
    print('%-11s loss given %.4f -> returned %s, x left at %s, loss there %s, reject_count %d, '
          'damping %.3g -> %.3g   %s' % (type(strategy).__name__, before, ret, model.x.data.tolist(), at,
          opt.reject_count, d0, opt.param_groups[0]['damping'], 'ok' if ok else 'VIOLATION'))
    fails += not ok

if fails:
    print('FAIL: a trial with a NaN loss was accepted (0 of 16 allowed rejections used); the returned '
          'loss is not <= the loss at the given parameters and the parameters were not restored')
    sys.exit(1)
print('OK')
