# Existing discrepancy: StopOnPlateau documents `decreasing` as the RELATIVE loss decrease
# (and its verbose line prints "reduction/loss"), but step() compares the ABSOLUTE decrease
# optimizer.last - optimizer.loss with it. A loss that halves at every step (relative
# decrease 0.5 >> decreasing=1e-3) is therefore reported as a plateau once it is small.
import sys
import torch, pypose as pp
from torch import nn

class Scripted(pp.optim.optimizer._Optimizer):
    def __init__(self, model, start):
        super().__init__(model.parameters(), defaults={})
        self.loss = start
    def step(self, input=None, target=None, weight=None):
        self.last, self.loss = self.loss, self.loss * 0.5
        return self.loss

def run(start):
    opt = Scripted(nn.Linear(1, 1), start)
    sch = pp.optim.scheduler.StopOnPlateau(opt, steps=20, patience=2, decreasing=1e-3)
    sch.optimize(input=None)
    return sch.steps, sch.patience_count

big, small = run(1e3), run(1e-3)
print('loss halves each step (relative decrease 0.5), decreasing=1e-3, patience=2, steps=20')
print('  start 1e+3: stopped after %d steps (patience_count %d)' % big)
print('  start 1e-3: stopped after %d steps (patience_count %d)' % small)
if small[0] != 20:
    print('FAIL: stopped on patience although every step reduced the loss by 50%; the '
          'documented relative threshold is applied to the absolute decrease.')
    sys.exit(1)
print('PASS')
