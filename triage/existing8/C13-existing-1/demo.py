"""Existing defect (unchanged tree): the filters do not fall back to the model's current
system time when `t` is not given.  PF.forward documents "t: set system timestamp for
estimation. If None, current system time is used", and NLS.forward / NLS.set_refpoint do
use `systime` when no time is given, but EKF/UKF/PF.forward hand the literal `None` to
`model.state_transition` / `model.observation`.  For a time-variant system written as in
the NLS docstring (the Floquet example, which calls t.cos()), a filter step without an
explicit t raises instead of returning the estimate at the current system time; EKF
additionally linearises at `systime` (via set_refpoint) while evaluating f, g at None."""
import sys, os, math
sys.path.insert(0, os.getcwd())
import warnings; warnings.filterwarnings("ignore")
import torch, pypose as pp


class Floquet(pp.module.NLS):          # linear time-variant system from the NLS docstring
    def state_transition(self, state, input, t):
        cc = (2 * math.pi * t / 100).cos()
        ss = (2 * math.pi * t / 100).sin()
        A = torch.stack([torch.stack([torch.ones_like(cc), cc / 10]),
                         torch.stack([cc / 10, torch.ones_like(cc)])]).reshape(2, 2)
        B = torch.stack([ss, torch.ones_like(ss)]).reshape(2, 1)
        return pp.bmv(A, state) + pp.bmv(B, input)

    def observation(self, state, input, t):
        return state + t


if __name__ == "__main__":
    step = 8
    model = Floquet().reset(t=step)
    Q, R, P = 0.01 * torch.eye(2), 0.01 * torch.eye(2), torch.eye(2)
    x, u = torch.tensor([1., 1.]), torch.tensor([0.5])
    y = model.observation(model.state_transition(x, u, model.systime), u, model.systime)
    bad = False
    for name, filt in [("EKF", pp.module.EKF(model, Q, R)), ("UKF", pp.module.UKF(model, Q, R)),
                       ("PF", pp.module.PF(model, Q, R))]:
        torch.manual_seed(0)
        x_ref, P_ref = filt(x, y, u, P, t=torch.tensor(step))       # explicit time works
        try:
            torch.manual_seed(0)
            x_def, P_def = filt(x, y, u, P)                         # t=None -> current system time
            same = torch.allclose(x_def, x_ref) and torch.allclose(P_def, P_ref)
            print(f"{name}: t=None result equals t=systime result: {same}")
            bad = bad or not same
        except Exception as e:
            print(f"{name}: filter step without t raised {type(e).__name__}: {e} "
                  f"(with t=systime it returns x = {x_ref.tolist()})")
            bad = True
    if bad:
        print("DEFECT: filters pass t=None through to the model instead of the current system time")
        sys.exit(1)
    print("OK")
