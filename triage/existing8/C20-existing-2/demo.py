# Existing defect: ReduceToBason.step keeps a reference to the caller's loss tensor
# (self.last = loss, no copy). A loop that keeps its loss in one buffer and updates it
# in place therefore always sees last - loss == 0, every step counts as "no decrease",
# and the stepper stops on patience although the loss halves at every step.
import sys
import torch, pypose as pp

def run(inplace):
    stepper = pp.utils.ReduceToBason(steps=20, patience=3, decreasing=1e-3, tol=1e-12)
    loss = torch.tensor(1000.0)
    while stepper.continual():
        if inplace:
            loss.mul_(0.5)
        else:
            loss = loss * 0.5
        stepper.step(loss)
    return stepper.steps, stepper.patience_count

a, b = run(False), run(True)
print('loss halves each step, steps=20, patience=3:')
print('  fresh tensor per step : stopped after %d steps, patience_count=%d' % a)
print('  same buffer, in place : stopped after %d steps, patience_count=%d' % b)
if a != b:
    print('FAIL: identical loss values give different stopping steps; with the in-place '
          'buffer the patience rule fires although every step decreased the loss by 50%.')
    sys.exit(1)
print('PASS')
