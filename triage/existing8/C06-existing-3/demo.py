"""Existing defect: randn_se3 / randn_SE3 / randn_sim3 / randn_Sim3 document the keyword
`generator (torch.Generator, optional)` but raise TypeError when it is given, because every
keyword is also forwarded to torch.tensor([...sigma...], **kwargs).  randn_so3 / randn_SO3 /
randn_rxso3 / randn_RxSO3 accept it."""
import sys
import torch
import pypose as pp

bad = []
for f in [pp.randn_so3, pp.randn_SO3, pp.randn_rxso3, pp.randn_RxSO3,
          pp.randn_se3, pp.randn_SE3, pp.randn_sim3, pp.randn_Sim3]:
    try:
        g = torch.Generator().manual_seed(3)
        x = f(2, 3, generator=g)
        g = torch.Generator().manual_seed(3)
        y = f(2, 3, generator=g)
        if x.lshape != (2, 3) or not torch.equal(x, y):
            bad.append(f"{f.__name__}: generator accepted but sampling not reproducible")
    except Exception as e:
        bad.append(f"{f.__name__}(2, 3, generator=g) raised {type(e).__name__}: {e}")
try:
    pp.randn_like(pp.identity_SE3(2), generator=torch.Generator().manual_seed(0))
except Exception as e:
    bad.append(f"randn_like(SE3, generator=g) raised {type(e).__name__}: {e}")
if bad:
    print("DEFECT:"); [print("  -", b) for b in bad]
    sys.exit(1)
print("OK")
