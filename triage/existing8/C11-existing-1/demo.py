"""Existing behaviour (unchanged code): in the gimbal-lock branch of LieTensor.euler()
(|sin(pitch)| >= 1 - eps) the yaw is computed as  -2 * sign * atan2(x, w), which lies in
[-2*pi, 2*pi] and is never wrapped, so the returned yaw leaves the principal range
(-pi, pi] although the rotation has an equivalent yaw inside it."""
import math, sys, warnings
warnings.filterwarnings("ignore")
import torch
import pypose as pp

bad = []
for pitch in (math.pi / 2, -math.pi / 2, math.pi / 2 - 1e-3):
    for yaw_in in (3.0, -3.0, 2.0):
        X = pp.euler2SO3(torch.tensor([0.0, pitch, yaw_in], dtype=torch.float64))
        if X.tensor()[3] > 0:            # use the other quaternion of the same rotation as well
            X = pp.SO3(-X.tensor())
        r, p, y = X.euler().tolist()
        same = (pp.euler2SO3(torch.tensor([r, p, y], dtype=torch.float64)).matrix() - X.matrix()).abs().max().item()
        print("pitch=%+.6f yaw_in=%+.1f  q=%s -> euler=(%.4f, %.4f, %.4f)  (round trip err %.1e)"
              % (pitch, yaw_in, [round(v, 4) for v in X.tensor().tolist()], r, p, y, same))
        if not (-math.pi - 1e-9 <= y <= math.pi + 1e-9):
            bad.append((pitch, yaw_in, y))

if bad:
    print("FAIL: yaw returned outside the principal range (-pi, pi]:")
    for b in bad:
        print("   pitch=%+.6f yaw_in=%+.1f -> yaw=%.4f" % b)
    sys.exit(1)
print("OK")
