# Existing defect: _Scheduler.state_dict() also stores the `continual` wrapper object
# (it is bound to the scheduler it was taken from), and load_state_dict() installs it
# in the receiving scheduler. After restoring a checkpoint of a RUNNING scheduler, the
# new scheduler's continual() reports the flag of the OLD scheduler object, which
# nobody steps any more: the restored scheduler never stops (budget / patience ignored).
import sys
import torch, pypose as pp
from torch import nn

class Scripted(pp.optim.optimizer._Optimizer):
    def __init__(self, model):
        super().__init__(model.parameters(), defaults={})
        self.loss = 100.0
    def step(self, input=None, target=None, weight=None):
        self.last, self.loss = self.loss, self.loss * 0.5
        return self.loss

model = nn.Linear(1, 1)
optimizer = Scripted(model)
old = pp.optim.scheduler.StopOnPlateau(optimizer, steps=6, patience=3, decreasing=1e-9)
for _ in range(2):
    old.step(optimizer.step())
checkpoint = old.state_dict()            # taken while still running (2 of 6 steps used)

new = pp.optim.scheduler.StopOnPlateau(optimizer, steps=6, patience=3, decreasing=1e-9)
new.load_state_dict(checkpoint)
n, limit = 0, 50
while new.continual() and n < limit:
    new.step(optimizer.step()); n += 1
print('restored at step 2 of 6: ran %d further steps, scheduler.steps=%d, '
      'new._continual=%s, new.continual()=%s, wrapper bound to old scheduler: %s'
      % (n, new.steps, new._continual, new.continual(), new.continual.optimizer is old))
if n > 4:
    print('FAIL: the restored scheduler overran its budget of 6 steps (loop only ended '
          'on the demo limit); continual() reads the flag of the scheduler the state '
          'was saved from.')
    sys.exit(1)
print('PASS')
