"""Existing defect: pypose.sparse.ops._sparse_csr_mm does not handle every BSR/BSC/CSR/CSC
layout pair.  Only csr/csc x csr/csc and bsr x bsc give the dense product; the other pairs
raise unrelated internal errors (a tuple passed to addmm because of a trailing comma,
`raise NotImplemented`, zeros() with a block layout)."""
import sys, warnings
import torch
warnings.filterwarnings('ignore')
from pypose.sparse.ops import _sparse_csr_mm

torch.manual_seed(0)
D1, D2 = torch.randn(4, 6), torch.randn(6, 4)
D1[D1.abs() < 0.5] = 0
D2[D2.abs() < 0.5] = 0
conv = {'csr': lambda D: D.to_sparse_csr(), 'csc': lambda D: D.to_sparse_csc(),
        'bsr': lambda D: D.to_sparse_bsr((2, 2)), 'bsc': lambda D: D.to_sparse_bsc((2, 2))}
bad = []
for l1 in conv:
    for l2 in conv:
        try:
            y = _sparse_csr_mm(conv[l1](D1), conv[l2](D2))
            err = (y.to_dense() - D1 @ D2).abs().max().item()
            status = 'ok' if err < 1e-5 else f'WRONG (max err {err:.2e})'
        except BaseException as e:
            status = f'{type(e).__name__}: {str(e)[:70]}'
        print(f'{l1} x {l2}: {status}')
        if status != 'ok':
            bad.append((l1, l2))
if bad:
    print(f'\nFAIL: {len(bad)} of 16 layout pairs do not return the dense product: {bad}')
    sys.exit(1)
print('PASS')
