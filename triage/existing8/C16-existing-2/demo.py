"""Existing behaviour (unchanged code): the covariance propagation uses dR_{i,k+1} where the
forward() docstring (and Forster et al. A.7-A.9) has dR_{ik}: the blocks -dR_{ik} a_k^ dt,
-1/2 dR_{ik} a_k^ dt^2 of A and dR_{ik} dt, 1/2 dR_{ik} dt^2 of B_a are built from
inte_state['Dr'] = incre_r[:,1:], i.e. the rotation AFTER the k-th gyro sample was applied.
The sequential recursion below follows the docstring (noise terms divided by dt as the code does).
Run as: cd <checkout> && /venv/bin/python demo.py
"""
import sys, torch, pypose as pp
torch.manual_seed(0)
dtype = torch.float64
F = 20
dt = torch.rand(1, F, 1, dtype=dtype) * 0.05 + 0.01
gyro = torch.randn(1, F, 3, dtype=dtype) * 2
acc = torch.randn(1, F, 3, dtype=dtype) * 3
m = pp.module.IMUPreintegrator(gravity=0.).to(dtype)      # zero gravity: a_k == acc_k
cov = m(dt, gyro, acc)['cov'][0]
Cg, Ca = torch.diag(m.gyro_cov[0]), torch.diag(m.acc_cov[0])

def recursion(after):
    C = torch.zeros(9, 9, dtype=dtype); dR = pp.identity_SO3(dtype=dtype); I3 = torch.eye(3, dtype=dtype)
    for k in range(F):
        d = dt[0, k, 0]; E = pp.so3(gyro[0, k] * d).Exp(); H = pp.vec2skew(acc[0, k])
        R = ((dR * E) if after else dR).matrix()
        A = torch.eye(9, dtype=dtype)
        A[0:3, 0:3] = E.matrix().mT; A[3:6, 0:3] = -R @ H * d; A[6:9, 0:3] = -0.5 * R @ H * d * d; A[6:9, 3:6] = I3 * d
        Bg = torch.zeros(9, 3, dtype=dtype); Ba = torch.zeros(9, 3, dtype=dtype)
        Bg[0:3] = E.Jr() * d; Ba[3:6] = R * d; Ba[6:9] = 0.5 * R * d * d
        C = A @ C @ A.mT + (Bg @ Cg @ Bg.mT + Ba @ Ca @ Ba.mT) / d
        dR = dR * E
    return C

doc, shifted = recursion(False), recursion(True)
blk = lambda C: C[3:6, 0:3]                                # velocity/rotation cross block
e_doc = ((blk(cov) - blk(doc)).abs().max() / blk(doc).abs().max()).item()
e_sh = ((cov - shifted).abs().max() / shifted.abs().max()).item()
print('module vs docstring recursion (dR_ik),   vel-rot block rel. diff: %.3e' % e_doc)
print('module vs recursion with dR_{i,k+1},     full matrix rel. diff  : %.3e' % e_sh)
if e_doc > 1e-6:
    print('MISMATCH: propagate_cov is fed Rij = dR_{i,k+1}; the documented A and B_a use dR_{ik}')
    sys.exit(1)
print('ok')
