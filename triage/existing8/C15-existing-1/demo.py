"""NLS.set_refpoint(x*, u*, t*) hands the transition / observation functions a time of a
different SHAPE than every forward call does.

forward():                 t = self.systime            -> 0-d tensor
set_refpoint() (t=None):   t = self.systime.clone()    -> 0-d tensor
set_refpoint(t=tensor(k)): t = atleast_1d(t).clone()   -> shape (1,)

A time dependent f / g that assembles its result component-wise (torch.stack, exactly the style
of the CartPole system in tests/module/test_dynamics.py) works at every call of the system and
with set_refpoint(), but with an explicit scalar reference time it either raises or silently
yields f(x*,u*,t*) of shape (n, 1), A of shape (n, 1, n) and c1 of shape (n, 1).
"""
import sys
import torch
import pypose as pp

torch.set_default_dtype(torch.float64)


class Pendulum(pp.module.NLS):
    def state_transition(self, state, input, t=None):
        p, v = state
        a = input.squeeze() * torch.cos(0.1 * t) - torch.sin(p)
        return torch.stack((p + 0.1 * v, v + 0.1 * a))        # mixes t-free and t-dependent rows

    def observation(self, state, input, t=None):
        p, v = state
        return torch.stack((p * (1 + t), v * torch.cos(0.2 * t)))  # every row depends on t


bad = []
model = Pendulum().reset(3)
x, u = torch.tensor([0.3, -0.2]), torch.tensor([0.7])
x1, y = model(x, u)                                  # works, t = 3 (0-d)
model.systime = 3
model.set_refpoint()                                 # works, reference time = clock = 3 (0-d)
A0, C0, c10, c20 = model.A, model.C, model.c1, model.c2
print("set_refpoint():          A", tuple(A0.shape), "C", tuple(C0.shape),
      "c1", tuple(c10.shape), "c2", tuple(c20.shape))

# the same reference point, time given explicitly as the documented Tensor
try:
    model.set_refpoint(state=x, input=u, t=torch.tensor(3))
    print("set_refpoint(x,u,t=3):   accepted")
except RuntimeError as e:
    print("set_refpoint(x,u,t=tensor(3)) raised:", e)
    bad.append("set_refpoint with an explicit 0-d time raises for a state_transition that "
               "works in forward() (time arrives with shape (1,) instead of ())")


class ObsOnly(Pendulum):
    def state_transition(self, state, input, t=None):
        p, v = state
        a = input.squeeze() * torch.cos(0.1 * t) - torch.sin(p)
        return torch.stack((p + 0.1 * v * torch.cos(0.0 * t), v + 0.1 * a))  # all rows use t


model = ObsOnly().reset(3)
model(x, u)
model.systime = 3
model.set_refpoint()
A0, c10 = model.A, model.c1
model.set_refpoint(state=x, input=u, t=torch.tensor(3))
A1, c11, f1 = model.A, model.c1, model._ref_f
print("explicit t: f(x*,u*,t*)", tuple(f1.shape), "A", tuple(A1.shape), "c1", tuple(c11.shape),
      " vs default t: A", tuple(A0.shape), "c1", tuple(c10.shape))
if A1.shape != A0.shape or c11.shape != c10.shape:
    bad.append(f"same reference point, explicit time: A has shape {tuple(A1.shape)} instead of "
               f"{tuple(A0.shape)}, c1 {tuple(c11.shape)} instead of {tuple(c10.shape)}")

if bad:
    print("DEFECT:")
    for b in bad:
        print(" -", b)
    sys.exit(1)
print("OK")
