"""Existing behaviour (unchanged code): in the integrated-rotation branch (rot=None) the gravity
is removed from the k-th accelerometer sample with the attitude at the END of the k-th interval,
R_i * dR_{i,k+1}, although the sample belongs to time step k and is rotated with dR_{ik} in the
documented recursion (and although the known-rotation branch uses rot[k] for sample k).

Scenario: an IMU that spins about its x axis with 1 rad/s and does not translate.  The
accelerometer then measures exactly R_k^T g.  Removing gravity with the attitude of the same time
step gives a_k = 0 and zero velocity; the integrator reports a velocity of about |g| * w * dt * T/dt * dt.
Run as: cd <checkout> && /venv/bin/python demo.py
"""
import sys, torch, pypose as pp
dtype = torch.float64
F = 100
dt = torch.full((1, F, 1), 0.01, dtype=dtype)
w = torch.tensor([1.0, 0.0, 0.0], dtype=dtype)
t = torch.cat([torch.zeros(1, dtype=dtype), dt[0, :, 0].cumsum(0)])[:-1]     # measurement times
Rk = pp.so3(w[None] * t[:, None]).Exp()                                      # attitude at those times
m = pp.module.IMUPreintegrator().to(dtype)
acc = (Rk.Inv() @ m.gravity)[None]                                            # specific force at rest
gyro = w.expand(1, F, 3).clone()

out = m(dt, gyro, acc)                                                        # integrated rotation
# the integrated attitude is exact here: rot[k] == attitude at the END of interval k
assert torch.allclose(out['rot'][0, :-1].tensor(), Rk[1:].tensor(), atol=1e-12)
known = pp.module.IMUPreintegrator().to(dtype)(dt, gyro, acc, rot=Rk[None])   # same attitude, supplied

v_int, v_known = out['vel'][0, -1].norm().item(), known['vel'][0, -1].norm().item()
print('final |vel|, gravity removed with the integrated rotation : %.6f m/s' % v_int)
print('final |vel|, same (exact) rotation supplied through rot=  : %.6f m/s' % v_known)
# equivalent sequential recursion with gravity removed by the attitude of time step k
dR = pp.identity_SO3(dtype=dtype); dv = torch.zeros(3, dtype=dtype)
for k in range(F):
    a = acc[0, k] - dR.Inv() @ m.gravity
    dv = dv + (dR @ a) * dt[0, k]
    dR = dR * pp.so3(gyro[0, k] * dt[0, k]).Exp()
print('final |vel| of the documented recursion with a_k = acc_k - R_k^T g: %.2e' % dv.norm().item())
if abs(v_int - v_known) > 1e-6:
    print('MISMATCH: rot=None removes gravity from sample k with the attitude of step k+1 '
          '(inte_rot[:,1:,:] in IMUPreintegrator.integrate), a one-frame offset that leaves a spurious '
          'acceleration of about |g|*|w|*dt = %.3f m/s^2 in every rotating frame' % (9.81007 * 1.0 * 0.01))
    sys.exit(1)
print('ok')
