"""LieTensor.lview documents its argument as `shape (torch.Size or int...)` ("The only
difference from view() is the last dimension is hidden"), but only the int... spelling
works: a torch.Size / tuple raises TypeError, although Tensor.view accepts both."""
import sys, warnings
import torch
import pypose as pp
warnings.simplefilter("ignore")

x = pp.randn_so3(2, 2)
ok = x.lview(4)                       # int... form works
assert ok.lshape == torch.Size([4]) and ok.ltype == x.ltype
assert x.tensor().view(torch.Size([4, 3])).shape == (4, 3)   # plain view takes a Size
bad = []
for shape in (torch.Size([4]), (4,), torch.Size([1, 4]), x.lshape):
    try:
        y = x.lview(shape)
        assert y.lshape == torch.Size(shape) and y.ltype == x.ltype
        print(f"lview({shape!r}) -> lshape {tuple(y.lshape)} ok")
    except Exception as e:
        print(f"lview({shape!r}) raised {type(e).__name__}: {e}")
        bad.append(shape)
if bad:
    print("FAIL: the documented torch.Size form of LieTensor.lview is rejected")
    sys.exit(1)
print("OK")
