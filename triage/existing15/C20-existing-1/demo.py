"""
ReduceToBason: a batch item whose loss is exactly 0 makes the plateau (patience)
rule unreachable. The relative decrease (last - loss) / loss is 0/0 = nan for that
item, nan < decreasing is False, so torch.all(...) is False on every step and
patience_count is reset to 0 forever, although no item decreased its loss at all.
Documented rule: stop after `patience` consecutive steps without the configured
decrease. Observed: the loop only ends on the step budget.
"""
import sys
import torch
from pypose.utils import ReduceToBason

steps, patience = 10, 2
stepper = ReduceToBason(steps=steps, patience=patience, decreasing=1e-3, tol=1e-5)
loss = torch.tensor([0.0, 1.0])     # item 0 converged exactly, item 1 is stuck at 1.0
n = 0
while stepper.continual():
    stepper.step(loss.clone())
    n += 1
    print('step %d loss %s patience_count %d continual %s'
          % (n, loss.tolist(), stepper.patience_count, stepper.continual()))

# control: the same history with 1e-7 instead of 0 stops as documented
control = ReduceToBason(steps=steps, patience=patience, decreasing=1e-3, tol=1e-5)
m = 0
while control.continual():
    control.step(torch.tensor([1e-7, 1.0]))
    m += 1

expected = patience + 1    # first step has no predecessor, then `patience` equal steps
print('constant loss [0, 1]: loop ended after %d steps; constant loss [1e-7, 1]: %d steps; '
      'documented rule: %d' % (n, m, expected))
if n != expected or m != expected:
    print('FAIL: constant (never decreasing) batched loss containing an exact 0 is never '
          'counted as a plateau step; only the step budget ends the loop.')
    sys.exit(1)
print('PASS')
