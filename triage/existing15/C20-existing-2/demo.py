"""
ReduceToBason.step keeps a reference to the caller's loss tensor as its comparison
baseline (self.last = loss). A loop that updates its loss tensor in place therefore
compares every loss with itself: the relative decrease is always 0, every step after
the first counts as a plateau step and the stepper stops after patience+1 steps
although the loss halves on every step.
"""
import sys
import torch
from pypose.utils import ReduceToBason

steps, patience = 10, 2
values = [8.0 * 0.5 ** k for k in range(1, steps + 1)]    # 4, 2, 1, ... (halving)

def run(inplace):
    stepper = ReduceToBason(steps=steps, patience=patience, decreasing=0.1, tol=1e-5)
    loss, n = torch.tensor(8.0), 0
    while stepper.continual():
        if inplace:
            loss.mul_(0.5)                 # same values, same tensor object
        else:
            loss = loss * 0.5              # same values, fresh tensor
        stepper.step(loss)
        n += 1
    return n

fresh, inplace = run(False), run(True)
print('loss halves on every step (decrease 100%% >> decreasing=10%%), steps=%d patience=%d'
      % (steps, patience))
print('fresh tensor per step : loop ended after %d steps' % fresh)
print('tensor updated in place: loop ended after %d steps' % inplace)
if fresh != steps or inplace != steps:
    print('FAIL: the same loss values stop the stepper on the patience rule when the loss '
          'tensor is updated in place (baseline aliases the current loss).')
    sys.exit(1)
print('PASS')
