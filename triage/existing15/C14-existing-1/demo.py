# Existing behaviour (unchanged code): LQR / MPC on a time-varying linear system is only optimal for
# dt == 1.  lqr_backward linearises step k at time k*dt (system.set_refpoint(t=k*dt); for an LTV the
# clock is set to k*dt, truncated to an integer), while the nominal roll-out and the forward roll-out
# advance the integer step clock 0, 1, 2, ...  With dt = 0.5 the gains are computed from A_0, A_0,
# A_1, A_1, ... (dt = 0.01 as in the MPC docstring example: from A_0 only); with dt = 2 from
# A_0, A_2, A_4, ... (or an IndexError when the user's table has only T entries).  The returned
# trajectory is feasible but not the minimiser, and MPC (whose dt argument is mandatory) disagrees
# with the LQ optimum.
import sys, torch, pypose as pp

torch.set_default_dtype(torch.float64)
torch.manual_seed(5)

n_batch, T, ns, nc = 1, 4, 2, 2
n = ns + nc
A = torch.eye(ns) + 0.4 * torch.randn(n_batch, 2 * T, ns, ns)   # table long enough for every lookup
B = torch.randn(n_batch, 2 * T, ns, nc)
C = torch.eye(ns).repeat(n_batch, 2 * T, 1, 1)
D = torch.zeros(n_batch, 2 * T, ns, nc)
M = torch.randn(n_batch, T, n, n)
Q = M.mT @ M + 0.5 * torch.eye(n)
p = torch.randn(n_batch, T, n)
x_init = torch.randn(n_batch, ns)


class TableLTV(pp.module.LTV):
    @property
    def A(self): return self._A[..., self._t, :, :]
    @property
    def B(self): return self._B[..., self._t, :, :]
    @property
    def C(self): return self._C[..., self._t, :, :]
    @property
    def D(self): return self._D[..., self._t, :, :]


def total_cost(u):
    # the dynamics the solver itself rolls out: one system call per step, clock 0, 1, 2, ...
    xs = [x_init]
    for t in range(T):
        xs.append(pp.bmv(A[:, t], xs[-1]) + pp.bmv(B[:, t], u[:, t]))
    x = torch.stack(xs, dim=1)
    tau = torch.cat((x[:, :-1], u), dim=-1)
    return x, (0.5 * pp.bvmv(tau, Q, tau) + (tau * p).sum(-1)).sum(-1)


ok = True
ref = None
for dt in (1, 0.5, 2, 0.01):
    ltv = TableLTV(A, B, C, D)
    x, u, cost = pp.module.MPC(ltv, Q, p, T)(dt, x_init)
    ug = u.detach().clone().requires_grad_(True)
    xr, J = total_cost(ug)
    grad, = torch.autograd.grad(J.sum(), ug)
    feas = (x - xr.detach()).abs().max().item()
    print('dt = %-5s cost = %10.4f   |dJ/du|max = %.3e   |x - rollout(u)| = %.1e   |cost - J(u)| = %.1e'
          % (dt, cost.item(), grad.abs().max().item(), feas, (cost - J.detach()).abs().max().item()))
    if dt == 1:
        ref = cost
    if grad.abs().max().item() > 1e-7:
        print('   -> feasible for the dynamics the solver rolled out, but NOT the minimiser '
              '(optimal cost %.4f)' % ref.item())
        ok = False

if not ok:
    print('FAIL: LQR/MPC on a time-varying system is not optimal unless dt == 1')
    sys.exit(1)
print('PASS')
