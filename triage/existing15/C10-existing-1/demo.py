"""Existing defect (unchanged code): the last fallback branch of pypose.sparse.ops._sparse_csr_mm
builds its zero accumulator with a stray trailing comma (`zero = torch.zeros(...),`), so `zero`
is a 1-tuple and torch.addmm always raises TypeError.  Every layout pair that reaches this branch
fails, including dense x CSR / CSC / BSC, which torch.addmm itself computes fine.
Run as:  cd <checkout> && /venv/bin/python demo.py
"""
import sys, warnings
import torch
from pypose.sparse.ops import _sparse_csr_mm

warnings.simplefilter('ignore')
torch.manual_seed(0)
A = torch.randn(4, 6)
B = torch.randn(6, 4) * (torch.rand(6, 4) < 0.5)
bad = 0
for name, Bs in (('csr', B.to_sparse_csr()), ('csc', B.to_sparse_csc()),
                 ('bsc', B.to_sparse_bsc((2, 2)))):
    ref = torch.addmm(torch.zeros(4, 4), A, Bs, beta=0.0, alpha=1.0)   # what the branch intends
    assert torch.allclose(ref, A @ B)
    try:
        y = _sparse_csr_mm(A, Bs)
        y = y.to_dense() if y.layout != torch.strided else y
        ok = torch.allclose(y, A @ B)
        print('dense x %s: returned, %s' % (name, 'correct' if ok else 'WRONG'))
        bad += not ok
    except TypeError as e:
        print('dense x %s: TypeError: %s' % (name, str(e).splitlines()[0][:110]))
        bad += 1
if bad:
    print('\n_sparse_csr_mm cannot evaluate a product that the torch.addmm call in its own '
          'fallback branch supports: the accumulator is a tuple because of a trailing comma.')
    sys.exit(1)
print('OK')
