"""PF.forward documents `t (int, optional): set system timestamp for estimation`, but a
Python int time stamp is rejected: PF passes t to NLS.set_refpoint, which calls
torch.atleast_1d(t) and raises TypeError for a non-tensor (EKF / UKF behave the same;
their docstrings ask for a Tensor).  With t = torch.tensor(3) the same step works."""
import sys, warnings
import torch, pypose as pp
warnings.simplefilter('ignore')
torch.manual_seed(0)


class M(pp.module.NLS):
    def state_transition(self, state, input, t=None):
        return state * (1 + 0.1 * t) + input

    def observation(self, state, input, t=None):
        return 2 * state + input


n = 2
pf = pp.module.PF(M(), Q=torch.eye(n), R=torch.eye(n), particles=2000)
x, y, u, P = torch.ones(n), torch.zeros(n), torch.zeros(n), torch.eye(n)
print('t = torch.tensor(3):', pf(x, y, u, P, t=torch.tensor(3))[0])
try:
    print('t = 3 (int, as documented):', pf(x, y, u, P, t=3)[0])
except TypeError as e:
    print('t = 3 (int, as documented): TypeError:', str(e).splitlines()[0])
    print('FAIL: PF.forward rejects the int time stamp its docstring asks for')
    sys.exit(1)
print('OK')
