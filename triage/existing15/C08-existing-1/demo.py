"""Existing defect (unchanged code): LM accepts a trial whose loss is NaN.

LevenbergMarquardt.step rejects a trial with `if self.last < self.loss and ...`.
For a NaN trial loss the comparison is False, so the trial is ACCEPTED although the
reject budget (16) has not been touched: the finite loss the call was given is
replaced by NaN and the parameters are left outside the model's domain.

Model: y = a * log(b * x), fitted from b = 20 towards b = 0.3.  The first (almost
undamped) step makes b negative, log() gives NaN.  A larger damping would have
produced a valid, better point - that is what the rejection loop is for.
"""
import sys, math
import torch
import pypose as pp
from torch import nn

torch.set_default_dtype(torch.float64)


class LogFit(nn.Module):
    def __init__(self):
        super().__init__()
        self.a = nn.Parameter(torch.tensor([1.0]))
        self.b = nn.Parameter(torch.tensor([20.0]))

    def forward(self, x):
        return self.a * torch.log(self.b * x)


x = torch.linspace(1, 5, 9).view(-1, 1)
y = 2.0 * torch.log(0.3 * x)
bad = 0
S = pp.optim.strategy
for name, strategy in (('TrustRegion', S.TrustRegion()), ('Adaptive', S.Adaptive()), ('Constant', S.Constant())):
    model = LogFit()
    opt = pp.optim.LM(model, strategy=strategy, reject=16)
    given = (model(x) - y).square().sum().item()
    loss = opt.step(x, y).item()
    ok = loss <= given
    print('%-11s loss given %.4f -> returned %s, rejections used %d of %d, a=%.4f b=%.4f  %s' % (
        name, given, loss, opt.reject_count, opt.reject, model.a.item(), model.b.item(),
        'ok' if ok else 'BAD: a non-finite (not smaller) loss was accepted with the reject budget unused'))
    bad += not ok
sys.exit(1 if bad else 0)
