"""knn_filter(points, k, radius=r) raises instead of returning a result whenever fewer
than k+1 points survive the radius test (in particular when every point is an outlier).

The sibling nbr_filter returns an empty (0, D) tensor for the same cloud; knn_filter
promises "removing points if number of neighbors within radius is less than k", so a
cloud made only of outliers has the empty cloud as its answer, and a cloud with m <= k
survivors has m averaged points - not an exception from topk.
"""
import sys
import torch
import pypose as pp

bad = []

# (a) every point is an outlier
cloud = torch.tensor([[0., 0., 0.], [10., 0., 0.], [0., 10., 0.], [0., 0., 10.]])
print("nbr_filter(cloud, 1, 1.0) ->", tuple(pp.nbr_filter(cloud, 1, 1.0).shape))
try:
    out = pp.knn_filter(cloud, k=1, radius=1.0)
    print("knn_filter(cloud, k=1, radius=1.0) ->", tuple(out.shape))
    if tuple(out.shape) != (0, 3):
        bad.append("all outliers: shape %s" % (tuple(out.shape),))
except Exception as e:
    print("knn_filter(cloud, k=1, radius=1.0) raised %s: %s" % (type(e).__name__, e))
    bad.append("all outliers: raised")

# (b) one survivor: only the middle point of the chain has 2 others within 1.1
cloud = torch.tensor([[0., 0., 0.], [1., 0., 0.], [2., 0., 0.], [50., 0., 0.]])
_, mask = pp.nbr_filter(cloud, 2, 1.1, return_mask=True)
print("points with >= 2 others within 1.1:", mask.tolist())
try:
    out = pp.knn_filter(cloud, k=2, radius=1.1)
    print("knn_filter(cloud, k=2, radius=1.1) ->", out.tolist())
    if out.size(0) != int(mask.sum()):
        bad.append("one survivor: %d rows" % out.size(0))
except Exception as e:
    print("knn_filter(cloud, k=2, radius=1.1) raised %s: %s" % (type(e).__name__, e))
    bad.append("one survivor: raised")

if bad:
    print("FAIL:", bad)
    sys.exit(1)
print("OK")
