"""Existing defect (unchanged tree): the Jacobian of RxSO3 AdjT cannot be computed through the
vectorised reverse-mode routes -- pp.func.jacrev, torch.autograd.functional.jacobian(vectorize=True)
and pp.optim.functional.modjac(vectorize=True) -- although the very same call works for SO3, SE3
and Sim3 and although the plain (row by row) route works for RxSO3 as well.

RxSO3_AdjTXa.backward builds rxso3_adj(a_grad) by writing the (vmapped) cotangent into a freshly
allocated, un-batched 4x4 buffer in place, which vmap rejects.

Run from the root of the checkout:  /venv/bin/python demo.py
"""
import sys
import warnings
warnings.filterwarnings("ignore")
import torch
import pypose as pp

torch.manual_seed(0)
torch.set_default_dtype(torch.float64)

GROUPS = {'SO3': (pp.randn_SO3, pp.randn_so3), 'SE3': (pp.randn_SE3, pp.randn_se3),
          'RxSO3': (pp.randn_RxSO3, pp.randn_rxso3), 'Sim3': (pp.randn_Sim3, pp.randn_sim3)}

bad = []
for name, (randG, randa) in GROUPS.items():
    X, a = randG(1), randa(1)
    f = lambda X: X.AdjT(a).tensor()
    ref = torch.autograd.functional.jacobian(f, X)                 # row by row: works everywhere
    routes = {
        'pp.func.jacrev': lambda: pp.func.jacrev(f)(X),
        'jacobian(vectorize=True)': lambda: torch.autograd.functional.jacobian(f, X, vectorize=True),
    }

    class M(torch.nn.Module):
        def __init__(self):
            super().__init__()
            self.X = pp.Parameter(X.clone())
        def forward(self):
            return self.X.AdjT(a).tensor()
    routes['modjac(vectorize=True)'] = lambda: pp.optim.functional.modjac(M(), vectorize=True)[0]

    for route, call in routes.items():
        try:
            J = call()
            err = (torch.as_tensor(J).reshape(ref.shape) - ref).abs().max().item()
            print(f'{name:6s} {route:26s} ok, max deviation from row-by-row Jacobian {err:.1e}')
            if err > 1e-12:
                bad.append(f'{name} {route}: differs from the row-by-row Jacobian by {err:.2e}')
        except Exception as e:
            msg = str(e).split('\n')[0][:110]
            print(f'{name:6s} {route:26s} RAISED {type(e).__name__}: {msg}')
            bad.append(f'{name} {route}: raised {type(e).__name__}')

if bad:
    print('\nDEFECT: a Jacobian that is promised (and delivered for the other groups) is not returned:')
    for b in bad:
        print('  -', b)
    sys.exit(1)
print('\nOK')
