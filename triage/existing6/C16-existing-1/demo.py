"""Existing defect: forward()/predict() document init_state entries with shape (B, H_in)
(pos (B,3), rot (B,4), vel (B,3)), but the code broadcasts them directly against the
(B, F, H) increments, so the batch axis of the initial state is aligned with the FRAME
axis.  For B > 1 this raises, and when B == F (with a known rotation, which skips the
init_rot product inside integrate) it silently returns wrong states.
Run from the root of a pypose checkout."""
import sys, torch, pypose as pp
torch.manual_seed(0)
dtype = torch.float64
bad = []

def sequential(dt, gyro, acc, rot, p0, R0, v0, gvec):
    B, F = dt.shape[:2]
    dR = pp.identity_SO3(B, dtype=dtype); dv = torch.zeros(B, 3, dtype=dtype); dp = torch.zeros(B, 3, dtype=dtype)
    T = torch.zeros(B, 1, dtype=dtype); pos = []
    for k in range(F):
        h = dt[:, k]; a = acc[:, k] - rot[:, k].Inv() @ gvec
        dp = dp + dv * h + 0.5 * (dR @ a) * h**2; dv = dv + (dR @ a) * h
        dR = dR * pp.so3(gyro[:, k] * h).Exp(); T = T + h
        pos.append(p0 + R0 @ dp + v0 * T)
    return torch.stack(pos, 1)

for B, F in ((1, 4), (2, 5), (2, 2), (3, 3)):
    dt = torch.rand(B, F, 1, dtype=dtype) * 0.05 + 0.01
    gyro = torch.randn(B, F, 3, dtype=dtype); acc = torch.randn(B, F, 3, dtype=dtype)
    rot = pp.randn_SO3(B, F, dtype=dtype)
    init = {'pos': torch.randn(B, 3, dtype=dtype), 'rot': pp.randn_SO3(B, dtype=dtype), 'vel': torch.randn(B, 3, dtype=dtype)}
    m = pp.module.IMUPreintegrator(reset=True).double()
    ref = sequential(dt, gyro, acc, rot, init['pos'], init['rot'], init['vel'], m.gravity)
    try:
        out = m(dt, gyro, acc, rot, init_state=init)
        err = (out['pos'] - ref).abs().max().item() if out['pos'].shape == ref.shape else float('nan')
        print('B=%d F=%d: init_state of documented shape (B,H): output shape %s, |pos - recursion| = %.3e' % (B, F, tuple(out['pos'].shape), err))
        if not err < 1e-8: bad.append((B, F, 'wrong result %.3e' % err))
    except Exception as e:
        print('B=%d F=%d: init_state of documented shape (B,H): raises %s: %s' % (B, F, type(e).__name__, str(e)[:90]))
        bad.append((B, F, 'raises'))
if bad:
    print('FAIL:', bad); sys.exit(1)
print('OK')
