"""Existing (minor) defect: retain_ltype leaves one PyTorch internal modified after exit.

On entry it executes `torch._functorch.vmap._add_batch_dim.__module__ = 'torch._functorch.vmap'`
so that its restore loop can find the function by module/name.  That attribute of the PyTorch
function object is never put back, neither on normal exit nor when the body raises.
"""
import sys, warnings, torch, pypose as pp
warnings.simplefilter("ignore")
import torch._functorch.vmap as V
import torch._functorch.eager_transforms as E
import torch.autograd.forward_ad as F
funcs = {"vmap._add_batch_dim": V._add_batch_dim, "eager_transforms._wrap_tensor_for_grad": E._wrap_tensor_for_grad,
         "forward_ad.make_dual": F.make_dual}
before = {k: (f, f.__module__, f.__name__) for k, f in funcs.items()}
try:
    with pp.retain_ltype():
        raise RuntimeError("boom")
except RuntimeError:
    pass
bad = False
for k, (f, mod, name) in before.items():
    now = {"vmap._add_batch_dim": V._add_batch_dim, "eager_transforms._wrap_tensor_for_grad": E._wrap_tensor_for_grad,
           "forward_ad.make_dual": F.make_dual}[k]
    ok = now is f and now.__module__ == mod and now.__name__ == name
    print(("ok   " if ok else "FAIL ") + "%s: object restored=%s, __module__ %r -> %r" % (k, now is f, mod, now.__module__))
    bad |= not ok
sys.exit(1 if bad else 0)
