"""Existing defect (unchanged code): LQR / MPC accept u_lower / u_upper / du, document them as
"The lower bounds on the controls" / "The upper bounds on the controls" / "The amount each
component of the controls is allowed to change", but never use them: the returned inputs
violate the bounds by orders of magnitude and are identical to the unconstrained solution.
"""
import sys
import torch
import pypose as pp

torch.set_default_dtype(torch.float64)
torch.manual_seed(0)
n_batch, T, ns, nc = 2, 4, 3, 2
n = ns + nc
A = torch.eye(ns) + 0.2 * torch.randn(n_batch, ns, ns)
B = torch.randn(n_batch, ns, nc)
C = torch.eye(ns).repeat(n_batch, 1, 1)
D = torch.zeros(n_batch, ns, nc)
Q = torch.eye(n).repeat(n_batch, T, 1, 1)
p = torch.randn(n_batch, T, n)
x_init = torch.randn(n_batch, ns)
lo, hi = -0.01 * torch.ones(n_batch, T, nc), 0.01 * torch.ones(n_batch, T, nc)

lqr = pp.module.LQR(pp.module.LTI(A, B, C, D), Q, p, T)
x0, u0, c0 = lqr(x_init)
x1, u1, c1 = lqr(x_init, 1, None, lo, hi)
print("unconstrained max|u| = %.4f ; with u_lower=-0.01, u_upper=0.01 max|u| = %.4f" % (u0.abs().max(), u1.abs().max()))
if (u1 < lo - 1e-12).any() or (u1 > hi + 1e-12).any():
    print("DEFECT: documented control bounds u_lower / u_upper are silently ignored by LQR.forward "
          "(result identical to unconstrained: %s)" % torch.equal(u0, u1))
    sys.exit(1)
