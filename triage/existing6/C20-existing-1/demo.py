"""MPC and the step budget of its stepper (unchanged code).
MPC.__init__ does `stepper.max_steps -= 1` ("n-1 loops, 1 loop with gradient") on the caller's
stepper object.  (a) With a budget of steps=1 the no-grad loop still runs once (the budget is only
tested after a step), so 2 LQR solves are made for a budget of 1.  (b) The decrement is permanent
and repeated: every MPC built around the same stepper shortens it again, so the same
ReduceToBason(steps=4) drives 4, then 3, then 2 solves.
"""
import sys
import torch, pypose as pp

torch.manual_seed(0)
n_batch, n_state, n_ctrl, T = 1, 3, 2, 5
A = torch.randn(n_batch, n_state, n_state) * 0.3
B = torch.randn(n_batch, n_state, n_ctrl)
C = torch.eye(n_state).repeat(n_batch, 1, 1)
D = torch.zeros(n_batch, n_state, n_ctrl)
lti = pp.module.LTI(A, B, C, D)
Q = torch.tile(torch.eye(n_state + n_ctrl), (n_batch, T, 1, 1))
p = torch.randn(n_batch, T, n_state + n_ctrl)
x_init = torch.randn(n_batch, n_state)


def solves(stepper):
    mpc = pp.module.MPC(lti, Q, p, T, stepper=stepper)
    calls, orig = [], mpc.lqr.forward
    def counted(*a, **k):
        calls.append(1)
        return orig(*a, **k)
    mpc.lqr.forward = counted
    mpc(0.1, x_init)
    return len(calls)

bad = False
# only the budget can stop these loops (patience / tol disabled)
one = pp.utils.ReduceToBason(steps=1, patience=100, decreasing=-1e9, tol=-1e30)
n = solves(one)
print('(a) steps=1: %d LQR solves (budget 1), stepper.max_steps is now %d' % (n, one.max_steps))
bad |= n > 1

shared = pp.utils.ReduceToBason(steps=4, patience=100, decreasing=-1e9, tol=-1e30)
counts = [solves(shared) for _ in range(3)]
print('(b) the same ReduceToBason(steps=4) given to three MPC modules in turn: %s LQR solves, '
      'max_steps is now %d' % (counts, shared.max_steps))
bad |= counts != [4, 4, 4] or shared.max_steps != 4

if bad:
    print('FAIL: MPC does not honour / preserve the stepper budget')
    sys.exit(1)
print('OK')
