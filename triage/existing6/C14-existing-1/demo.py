"""Existing defect (unchanged code): LQR / MPC with dt != 1 on a time-varying linear system.

lqr_backward linearises the system at clock  t*dt  (set_refpoint(t=torch.tensor(t*dt))),
but the nominal roll-out and the forward roll-out advance the system clock by ONE per
step (forward_hook), i.e. step t uses A_t, B_t.  For dt != 1 the gains are therefore
computed for A_{t*dt}, B_{t*dt} while the trajectory is generated with A_t, B_t:
the returned trajectory is feasible but NOT the minimiser (and for an LTV that indexes
stacked matrices by the clock, the backward pass reads out of range / raises IndexError).
"""
import sys
import torch
import pypose as pp

torch.set_default_dtype(torch.float64)
torch.manual_seed(0)
n_batch, T, ns, nc = 1, 4, 3, 2
n = ns + nc
A0 = torch.eye(ns) + 0.2 * torch.randn(n_batch, ns, ns)
B0 = torch.randn(n_batch, ns, nc)


def A_of(t): return A0 * (1 + 0.3 * t)
def B_of(t): return B0 * (1 - 0.2 * t)


class MyLTV(pp.module.LTV):            # "generate the system matrices with the time variable _t"
    def __init__(self):
        super().__init__(C=torch.eye(ns).repeat(n_batch, 1, 1), D=torch.zeros(n_batch, ns, nc))
    @property
    def A(self): return A_of(self._t)
    @property
    def B(self): return B_of(self._t)


M = torch.randn(n_batch, T, n, n)
Q = M.mT @ M + 0.5 * torch.eye(n)
p = torch.randn(n_batch, T, n)
x_init = torch.randn(n_batch, ns)


def rollout(u):
    xs = [x_init]
    for t in range(T):
        xs.append(pp.bmv(A_of(t), xs[-1]) + pp.bmv(B_of(t), u[:, t]))
    return torch.stack(xs, 1)


def total_cost(u):
    tau = torch.cat((rollout(u)[:, :T], u), -1)
    return (0.5 * torch.einsum('bti,btij,btj->bt', tau, Q, tau) + (p * tau).sum(-1)).sum(-1)


def report(name, x, u, cost):
    uu = u.clone().requires_grad_(True)
    g, = torch.autograd.grad(total_cost(uu).sum(), uu)
    feas = (rollout(u) - x).abs().max().item()
    print("%-22s cost %.6f  feasibility err %.1e  max|dJ/du| %.3e" % (name, cost.item(), feas, g.abs().max()))
    return g.abs().max().item(), cost.item()


g1, c1_ = report("LQR dt=1", *pp.module.LQR(MyLTV(), Q, p, T)(x_init, 1))
g2, c2_ = report("LQR dt=2", *pp.module.LQR(MyLTV(), Q, p, T)(x_init, 2))
mpc = pp.module.MPC(MyLTV(), Q, p, T, stepper=pp.utils.ReduceToBason(steps=3))
g3, c3_ = report("MPC dt=2", *mpc(2, x_init))

bad = False
if g1 > 1e-8:
    print("unexpected: dt=1 is not optimal"); bad = True
if g2 > 1e-6 or c2_ > c1_ + 1e-9:
    print("DEFECT: LQR(x_init, dt=2) on an LTV system returns a feasible but non-optimal trajectory "
          "(gains computed for A_{2t}, B_{2t}, roll-out uses A_t, B_t)")
    bad = True
if g3 > 1e-6 or c3_ > c1_ + 1e-9:
    print("DEFECT: MPC(dt=2, x_init) on the same linear system does not return the LQ optimum")
    bad = True
sys.exit(1 if bad else 0)
