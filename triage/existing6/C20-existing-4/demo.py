"""StopOnPlateau documents `decreasing` as the RELATIVE loss decrease used to count patience steps
(and its verbose line prints reduction/loss), but step() compares the ABSOLUTE difference
optimizer.last - optimizer.loss with it.  ReduceToBason, documented with the same words, uses the
relative decrease.  So the same loss history stops the two controllers at different steps.
"""
import sys
import torch
import pypose as pp
from pypose.optim.optimizer import _Optimizer


class Replay(_Optimizer):
    """An optimizer that replays a given loss history through .last / .loss."""
    def __init__(self, history):
        super().__init__([torch.nn.Parameter(torch.zeros(1))], {})
        self.history, self.k, self.loss = history, 0, torch.tensor(history[0])
    def step(self, input=None, target=None, weight=None):
        self.k += 1
        self.last, self.loss = self.loss, torch.tensor(self.history[self.k])
        return self.loss


def plateau(history, **kw):
    opt = Replay(history)
    sch = pp.optim.scheduler.StopOnPlateau(opt, steps=len(history) - 1, **kw)
    sch.optimize(input=None)
    return sch.steps

def bason(history, **kw):
    st = pp.utils.ReduceToBason(steps=len(history), tol=0.0, **kw)
    for loss in history:            # first entry is the initial loss (baseline)
        if not st.continual():
            break
        st.step(loss)
    return st.steps - 1

bad = False
# loss ~1e3 creeping down by 0.01 % per step: relative decrease 1e-4 < decreasing = 1e-3
big = [1000.0 * (1 - 1e-4) ** k for k in range(13)]
a, b = plateau(big, patience=3, decreasing=1e-3), bason(big, patience=3, decreasing=1e-3)
print('loss ~1e3, -0.01 %%/step : StopOnPlateau ran %d optimizer steps, ReduceToBason rule %d '
      '(relative rule: 3 stalled steps -> 3)' % (a, b))
bad |= a != 3
# loss ~1e-3 halving every step: relative decrease 0.5 >= 1e-3, no plateau at all
small = [1e-3 * 0.5 ** k for k in range(13)]
a, b = plateau(small, patience=3, decreasing=1e-3), bason(small, patience=3, decreasing=1e-3)
print('loss ~1e-3, halving     : StopOnPlateau ran %d optimizer steps, ReduceToBason rule %d '
      '(relative rule: never stalls -> budget 12)' % (a, b))
bad |= a != 12

if bad:
    print("FAIL: StopOnPlateau applies `decreasing` to the absolute loss difference although it "
          "is documented as relative")
    sys.exit(1)
print('OK')
