"""Existing defect: EKF / UKF / PF cannot be run on the library's own linear
system class pp.module.LTI (nor LTV): they call model.state_transition(x, u, t)
and model.observation(x, u, t), but LTI.state_transition / LTI.observation take
only (state, input), so every filter step raises TypeError instead of returning
the Kalman posterior of the linear system x' = A x + B u + c1, y = C x' + D u + c2.

Run as:  cd <checkout> && /venv/bin/python demo.py
"""
import sys
import torch
import pypose as pp

torch.set_default_dtype(torch.float64)
torch.manual_seed(0)
n = 2
A = torch.tensor([[0.9, 0.2], [0.0, 0.8]])
B, C, D = torch.eye(n), torch.eye(n), torch.zeros(n, n)
c1, c2 = torch.zeros(n), torch.zeros(n)
Q, R, P = 0.1 * torch.eye(n), 0.2 * torch.eye(n), torch.eye(n)
x, u, y = torch.tensor([1.0, -1.0]), torch.tensor([0.3, 0.1]), torch.tensor([0.5, 0.2])

# exact Kalman posterior
xm = A @ x + B @ u + c1
Pm = A @ P @ A.mT + Q
S = C @ Pm @ C.mT + R
K = Pm @ C.mT @ torch.linalg.inv(S)
xk, Pk = xm + K @ (y - (C @ xm + D @ u + c2)), Pm - K @ S @ K.mT

lti = pp.module.LTI(A, B, C, D, c1, c2)
bad = 0
for F in (pp.module.EKF, pp.module.UKF, pp.module.PF):
    try:
        xe, Pe = F(lti, Q, R)(x, y, u, P)
    except Exception as e:
        bad += 1
        print('%s on pp.module.LTI raised %s: %s' % (F.__name__, type(e).__name__, e))
        continue
    if F is not pp.module.PF:
        ok = torch.allclose(xe, xk, atol=1e-8) and torch.allclose(Pe, Pk, atol=1e-8)
        print('%s on pp.module.LTI returned, equals Kalman: %s' % (F.__name__, ok))
        bad += 0 if ok else 1
    else:
        print('PF on pp.module.LTI returned', xe)
if bad:
    print('FAIL: %d of 3 filters cannot process the linear system class LTI' % bad)
    sys.exit(1)
print('OK')
