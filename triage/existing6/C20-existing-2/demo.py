"""ReduceToBason.step keeps a reference to the loss tensor it was given (`self.last = loss`, no
clone / detach).  A loop that accumulates its loss into a pre-allocated tensor (in-place update)
therefore always compares the new loss with itself: the decrease is 0 on every step and the
stepper stops on 'patience' although the loss halves every step.
"""
import sys
import torch
from pypose.utils import ReduceToBason

def run(inplace):
    stepper = ReduceToBason(steps=20, patience=3, decreasing=1e-3, tol=1e-12)
    buf, value, n = torch.zeros(2), torch.tensor([8.0, 4.0]), 0
    while stepper.continual():
        value = value * 0.5                      # every element halves: relative decrease 1.0
        if inplace:
            buf.copy_(value); loss = buf          # re-used loss buffer
        else:
            loss = value.clone()
        stepper.step(loss); n += 1
    return n, stepper.patience_count

fresh, reused = run(False), run(True)
print('fresh loss tensor each step : %d steps, patience_count %d' % fresh)
print('loss written into one buffer: %d steps, patience_count %d' % reused)
if fresh != reused:
    print('FAIL: identical loss values give different stopping steps; the stepper aliases the '
          "caller's loss tensor as its baseline")
    sys.exit(1)
print('OK')
