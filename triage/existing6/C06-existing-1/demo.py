"""Existing defect: euler2SO3 rejects a batch that is a (non-contiguous) view.

The angles are only read, so a permuted / transposed view of a (*, 3) tensor is an
admissible input and must convert like its contiguous copy.
"""
import sys, warnings, torch, pypose as pp
warnings.simplefilter("ignore")
torch.manual_seed(0)
base = torch.randn(5, 2, 3, dtype=torch.float64)
view = base.transpose(0, 1)                      # shape (2, 5, 3), not contiguous
ref = pp.euler2SO3(view.contiguous())            # works
try:
    out = pp.euler2SO3(view)
except Exception as e:
    print("FAIL euler2SO3(transposed view of shape %s) raised %s: %s" % (tuple(view.shape), type(e).__name__, e))
    sys.exit(1)
ok = tuple(out.shape) == (2, 5, 4) and torch.equal(out.tensor(), ref.tensor())
print("ok" if ok else "FAIL result differs from the contiguous copy")
sys.exit(0 if ok else 1)
