"""Existing defect: NLS.set_refpoint(x, u, t=system.systime) keeps the live clock
buffer as reference time (torch.atleast_1d of the 0-dim buffer is a view of it).
Every later call of the system advances the clock in place and thereby moves
the reference time: A, B, C, D are then evaluated at the current clock while
c1, c2 still use f, g cached when set_refpoint ran.  (The default t=None path
stores a clone; the explicit path does not.)"""
import sys, torch
import pypose as pp
from torch.autograd.functional import jacobian


class S(pp.module.NLS):
    def state_transition(self, x, u, t):
        return x.sin() * torch.cos(t / 3.) + u * (1 + 0.5 * t)

    def observation(self, x, u, t):
        return x * x + u * t


s = S().reset(4)
x, u = torch.tensor([0.1, 0.2, 0.3]), torch.tensor([0.5, -0.4, 0.2])
s.set_refpoint(state=x, input=u, t=s.systime)      # linearise "now" (t* = 4)
t_star = torch.tensor(4)
A0, c10 = s.A.clone(), s.c1.clone()
s(x, u); s(x, u)                                   # the system moves on to t = 6
A_true = jacobian(lambda a: s.state_transition(a, u, t_star), x)
f_true = s.state_transition(x, u, t_star)
errA = (s.A - A_true).abs().max().item()
errf = (s.A @ x + s.B @ u + s.c1 - f_true).abs().max().item()
print("reference time stored:", s._ref_t, "(set to 4)")
print("max |A - df/dx(x*,u*,4)| after two more calls:", errA, " (right after set_refpoint:",
      (A0 - A_true).abs().max().item(), ")")
print("max |A x*+B u*+c1 - f(x*,u*,4)|:", errf)
if errA > 1e-6 or errf > 1e-5:
    print("DEFECT: the linearisation drifted with the clock although the reference point was not changed")
    sys.exit(1)
print("ok")
