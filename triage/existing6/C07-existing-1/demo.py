"""Existing defect: a weight that is broadcastable to the residual through a size-1 dimension
(e.g. M*1*R*R for a B*M*N*R residual) is accepted silently but paired with the wrong residual
items.  RobustModel.normalize_RWJ flattens the weight to a list of blocks and tiles that list, so
item (b, m, n) gets block number (flat index mod M) instead of W[m, 0].
The docstring of GN/LM only requires residual and weight to be broadcastable (PyTorch semantics).
"""
import sys
import torch
import pypose as pp
from torch import nn

torch.set_default_dtype(torch.float64)
torch.manual_seed(0)
B, M, N, R = 2, 2, 3, 3
c = torch.randn(B, M, N, R)


def residual(x):
    return c * x.sin() - 0.1            # (B, M, N, R), x: (M, N, R)


class Model(nn.Module):
    def __init__(self, x0):
        super().__init__()
        self.x = nn.Parameter(x0.clone())

    def forward(self, _):
        return residual(self.x)


def rand_spd(*batch):
    A = torch.randn(*batch, R, R)
    return A @ A.mT + 0.5 * torch.eye(R)


def gn_error(W):
    x0 = torch.randn(M, N, R)
    J = torch.autograd.functional.jacobian(lambda v: residual(x0 + v.view(M, N, R)).reshape(-1),
                                           torch.zeros(M * N * R))
    Rv = residual(x0).reshape(-1)
    Wfull = torch.block_diag(*W.expand(B, M, N, R, R).reshape(-1, R, R))   # true broadcasting
    delta = torch.linalg.pinv(Wfull @ J) @ (-Wfull @ Rv)
    model = Model(x0)
    pp.optim.GN(model, weight=W).step(torch.zeros(1))
    return (model.x.detach() - (x0 + delta.view(M, N, R))).abs().max().item()


e_doc = gn_error(rand_spd(N))           # documented N*R*R
e_b1 = gn_error(rand_spd(M, 1))         # M*1*R*R, broadcastable
e_b2 = gn_error(rand_spd(B, 1, 1))      # B*1*1*R*R, broadcastable
print('GN step error, weight N*R*R     :', e_doc)
print('GN step error, weight M*1*R*R   :', e_b1)
print('GN step error, weight B*1*1*R*R :', e_b2)
if not (e_doc < 1e-9 and e_b1 < 1e-9 and e_b2 < 1e-9):
    print('FAIL: broadcastable weights with size-1 dimensions are expanded in the wrong order; '
          'the step is not the solution of W J delta = -W R')
    sys.exit(1)
print('OK')
