"""Existing discrepancy: the covariance returned by IMUPreintegrator does not follow the
"Uncertainty Propagation" recursion in forward()'s docstring
    C_{ik+1} = A C_{ik} A^T + B_g C_g B_g^T + B_a C_a B_a^T,
with B_a = [0; dR_ik dt; 1/2 dR_ik dt^2] and A rows built from dR_ik.
The code (a) divides the noise term by dt and (b) uses dR_{i,k+1} (rotation AFTER the
step) where the docstring has dR_{ik}.  The docstring's own printed example
(cov[0,0] = 5.7583e-11 for dt = 0.002) is not reproduced either (code: 2.0480e-08).
Run from the root of a pypose checkout."""
import sys, torch, pypose as pp
torch.manual_seed(0)
dtype = torch.float64
F = 6
dt = torch.rand(F, 1, dtype=dtype) * 0.1 + 0.01; gyro = torch.randn(F, 3, dtype=dtype); acc = torch.randn(F, 3, dtype=dtype)
gc = torch.tensor([[1e-5, 2e-5, 3e-5]], dtype=dtype); ac = torch.tensor([[1e-3, 5e-3, 9e-3]], dtype=dtype)
m = pp.module.IMUPreintegrator(gyro_cov=gc, acc_cov=ac).double()
code = m(dt, gyro, acc)['cov'][0]

def doc(after_step, divide):
    dR = pp.identity_SO3(dtype=dtype); C = torch.zeros(9, 9, dtype=dtype); I = torch.eye(3, dtype=dtype)
    Cg = torch.diag(gc[0]); Ca = torch.diag(ac[0])
    for k in range(F):
        h = dt[k]; w = pp.so3(gyro[k] * h); dRn = dR * w.Exp()
        a = acc[k] - dRn.Inv() @ m.gravity
        R = (dRn if after_step else dR).matrix(); H = pp.vec2skew(a)
        A = torch.eye(9, dtype=dtype); A[0:3, 0:3] = w.Exp().matrix().mT
        A[3:6, 0:3] = -R @ H * h; A[6:9, 0:3] = -0.5 * R @ H * h**2; A[6:9, 3:6] = I * h
        Bg = torch.zeros(9, 3, dtype=dtype); Ba = torch.zeros(9, 3, dtype=dtype)
        Bg[0:3] = w.Jr() * h; Ba[3:6] = R * h; Ba[6:9] = 0.5 * R * h**2
        Q = Bg @ Cg @ Bg.mT + Ba @ Ca @ Ba.mT
        C = A @ C @ A.mT + (Q / h if divide else Q); dR = dRn
    return C
rel = lambda x: ((x - code).abs().max() / code.abs().max()).item()
e_doc = rel(doc(False, False)); e_div = rel(doc(False, True)); e_code = rel(doc(True, True))
print('rel. diff to docstring recursion                         : %.3e' % e_doc)
print('rel. diff to docstring recursion with noise term / dt    : %.3e' % e_div)
print('rel. diff with / dt and dR_{i,k+1} in place of dR_{ik}    : %.3e' % e_code)
ex = pp.module.IMUPreintegrator(torch.zeros(3), pp.identity_SO3(), torch.zeros(3))
c00 = ex(torch.tensor([0.002]), torch.tensor([.1, .1, .1]), torch.tensor([.1, .1, .1]), pp.mat2SO3(torch.eye(3)))['cov'][0, 0, 0].item()
print('class docstring example cov[0,0]: documented 5.7583e-11, code returns %.4e' % c00)
if e_doc > 1e-6:
    print('FAIL: returned covariance does not follow the documented recursion'); sys.exit(1)
print('OK')
