"""Existing defect: LieTensor.lview does not accept the torch.Size it documents.

Docstring: 'shape (torch.Size or int...): the desired size', same contract as Tensor.view,
and x.view(torch.Size([4, 3])) works.  x.lview(torch.Size([4])) raises TypeError.
"""
import sys, warnings, torch, pypose as pp
warnings.simplefilter("ignore")
x = pp.randn_so3(2, 2)
ref = x.lview(4)
bad = False
for arg in (torch.Size([4]), (4,), [2, 2]):
    try:
        y = x.lview(arg)
        ok = isinstance(y, pp.LieTensor) and y.ltype is x.ltype and tuple(y.lshape) == tuple(arg)
        print(("ok   " if ok else "FAIL ") + "x.lview(%r) -> lshape %s" % (arg, tuple(y.lshape)))
    except Exception as e:
        ok = False
        print("FAIL x.lview(%r) raised %s: %s" % (arg, type(e).__name__, e))
    bad |= not ok
sys.exit(1 if bad else 0)
