"""Existing behaviour (unchanged code): LevenbergMarquardt.step keeps a trial whose loss is
NaN although rejections are still available, returns NaN, and every later call is a no-op.

The accept/reject test is `if self.last < self.loss and ...: reject  else: accept`; a NaN
trial loss makes `last < loss` False, so the trial is *accepted* with reject_count == 0,
and afterwards `while self.last <= self.loss` is False for NaN, so no further trial is made.
Model: residual log(theta) (defined for theta > 0), theta0 = 5; the weakly damped first
step lands at theta ~ -3, where the residual is NaN. A more strongly damped step (what the
reject loop is for) would have decreased the loss.
Run from the root of a pypose checkout:  /venv/bin/python demo.py
"""
import sys, math
import torch
import pypose as pp
from torch import nn

torch.set_default_dtype(torch.float64)


class LogRes(nn.Module):
    def __init__(self):
        super().__init__()
        self.theta = nn.Parameter(torch.tensor([5.0]))

    def forward(self, x):
        return torch.log(self.theta).unsqueeze(-1)


bad = []
for name, strategy in (('TrustRegion', pp.optim.strategy.TrustRegion()),
                       ('Adaptive', pp.optim.strategy.Adaptive()),
                       ('Constant', pp.optim.strategy.Constant())):
    model = LogRes()
    opt = pp.optim.LM(model, strategy=strategy, reject=16)
    before = float(model(None).square().sum())
    theta0 = model.theta.detach().clone()
    ret = float(opt.step(None))
    print('%-12s loss before %.6f, step returned %r, theta %s -> %s, rejections used %d of %d'
          % (name, before, ret, theta0.tolist(), model.theta.tolist(), opt.reject_count, opt.reject))
    if not ret <= before:
        bad.append('%s: returned loss %r is not <= the loss %.6f at the given parameters, '
                   'with %d of %d rejections used' % (name, ret, before, opt.reject_count, opt.reject))
    ret2 = float(opt.step(None))
    if math.isnan(ret2):
        bad.append('%s: the second call also returns NaN; parameters stay NaN/invalid: %s'
                   % (name, model.theta.tolist()))

# sanity: a damped step from the same start does reduce the loss, so rejecting would have helped
model = LogRes()
opt = pp.optim.LM(model, strategy=pp.optim.strategy.Constant(damping=10.), reject=16)
print('with damping 10 the first step gives loss %.6f (start %.6f)' % (opt.step(None), math.log(5.)**2))

if bad:
    print('\nDEFECT:')
    for b in bad:
        print(' -', b)
    sys.exit(1)
print('OK')
