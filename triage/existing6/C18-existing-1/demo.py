"""knn_filter(points, k, radius=r): every point that has at least k other points within
the radius is retained and must come back as the mean of itself and its k nearest
neighbours.  The unchanged code looks for the k nearest neighbours among the RETAINED
points only, so
  (a) it raises (topk: selected index k out of range) whenever fewer than k+1 points are
      retained, although each retained point does have k neighbours within the radius;
  (b) when it does not raise, a retained point whose neighbours were themselves dropped
      is averaged with far-away retained points instead of its k nearest neighbours.
"""
import sys
import torch
import pypose as pp

bad = False

# (a) two short chains; only the middle point of each chain has 2 others within radius 1
pts = torch.tensor([[0., 0.], [1., 0.], [2., 0.], [3.5, 0.], [4.5, 0.], [5.5, 0.]])
kept, mask = pp.nbr_filter(pts, nbr=2, radius=1., return_mask=True)
print("nbr_filter(nbr=2, radius=1) keeps", kept.tolist())
try:
    out = pp.knn_filter(pts, k=2, radius=1.)
    print("knn_filter(k=2, radius=1) ->", out.tolist())
except RuntimeError as e:
    bad = True
    print("FAIL (a): knn_filter(k=2, radius=1) raised %r; expected the 2 retained points "
          "averaged with their 2 nearest neighbours: [[1, 0], [4.5, 0]]" % (e,))

# (b) three chains -> three retained points, enough for topk, no exception
pts = torch.tensor([[0., 0.], [1., 0.], [2., 0.],
                    [10., 0.], [11., 0.], [12., 0.],
                    [20., 0.], [21., 0.], [22., 0.]])
out = pp.knn_filter(pts, k=2, radius=1.)
want = torch.tensor([[1., 0.], [11., 0.], [21., 0.]])   # mean of each middle point and its 2 nearest
print("knn_filter(k=2, radius=1) on three chains ->", out.tolist())
if out.shape != want.shape or not torch.allclose(out, want, atol=1e-6):
    bad = True
    print("FAIL (b): expected", want.tolist(), "(each retained point averaged with its 2 "
          "nearest neighbours, 1 away); got the mean of the three retained points, which "
          "are 10 and 20 apart")

sys.exit(1 if bad else 0)
