"""Existing defect: the pp.SO3 docstring promises that quaternions need not be normalised at
construction ("Normalization is not required at initialization as it is done internally by the library
right before further computation", example: pp.SO3(torch.randn(2, 4))), but no operation normalises:
Act / matrix() / Inv / @ of such an element are not those of a rotation.
"""
import sys, warnings
import torch
import pypose as pp
warnings.filterwarnings("ignore")

q = torch.tensor([0.3, -0.2, 0.5, 0.7], dtype=torch.float64)      # |q| = 0.933, as accepted by pp.SO3(...)
Xu = pp.SO3(q)                    # un-normalised, allowed by the docstring
Xn = pp.SO3(q / q.norm())         # what "normalised internally" would compute with
p = torch.tensor([1., 2., 3.], dtype=torch.float64)

ok = True
a, b = Xu.Act(p), Xn.Act(p)
print("Act with raw q      :", a.tolist(), " |.| =", a.norm().item())
print("Act with q/|q|      :", b.tolist(), " |.| =", b.norm().item(), " (|p| = %g)" % p.norm().item())
ok &= torch.allclose(a, b, atol=1e-9)
M = Xu.matrix()
print("matrix() M M^T      :", (M @ M.T).tolist())
ok &= torch.allclose(M @ M.T, torch.eye(3, dtype=torch.float64), atol=1e-9)
E = (Xu @ Xu.Inv()).tensor()
print("X @ X.Inv()         :", E.tolist())
ok &= torch.allclose(E, torch.tensor([0, 0, 0, 1.], dtype=torch.float64), atol=1e-9)
if not ok:
    print("the quaternion is NOT normalised before computation, contradicting the pp.SO3 docstring")
    sys.exit(1)
print("OK")
