"""Existing defect: the in-place product `X *= Y` of two group elements is NOT the group product.

`X * Y` and `X @ Y` are the documented group product (pp.mul docstring: "we suggest calling a * b or
a @ b"), `X @= Y` gives X @ Y and `X += a` is overloaded to the retraction, but LieTensor does not
define __imul__, so `X *= Y` falls through to torch.Tensor.__imul__ (element-wise mul_) and silently
leaves an invalid element (non-unit quaternion) in X.
"""
import sys, warnings
import torch
import pypose as pp
warnings.filterwarnings("ignore")
torch.manual_seed(0)

bad = 0
for randn in (pp.randn_SO3, pp.randn_SE3, pp.randn_RxSO3, pp.randn_Sim3):
    X = randn(3, dtype=torch.float64)
    Y = randn(3, dtype=torch.float64)
    Z = X * Y                       # group product
    W = X.clone(); W @= Y           # in-place spelling of @ : fine
    assert torch.allclose(W.tensor(), Z.tensor())
    V = X.clone(); V *= Y           # in-place spelling of *
    qn = V.rotation().tensor().norm(dim=-1)
    same = torch.allclose(V.tensor(), Z.tensor(), atol=1e-12)
    unit = torch.allclose(qn, torch.ones_like(qn), atol=1e-9)
    print("%-12s X*=Y equals X*Y: %s   |q| after X*=Y: %s" % (randn.__name__, same, qn.tolist()))
    if not (same and unit):
        bad += 1
if bad:
    print("X *= Y silently multiplied the coordinates element-wise; the result is not X*Y and not a valid group element")
    sys.exit(1)
print("OK")
