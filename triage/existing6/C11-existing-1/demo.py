"""mat2RxSO3 / mat2Sim3 (check=True): the documented legality condition |s| > atol is enforced
for a single matrix, but in a batch it is only enforced when EVERY element violates it
(torch.allclose(s, 0) is an all-reduction), so the same illegal matrix is rejected alone and
silently accepted next to a valid one."""
import sys, torch
import pypose as pp

torch.manual_seed(0)
R = pp.randn_SO3(2, dtype=torch.float64).matrix()
tiny = 1e-6 * R[0]            # scale 1e-6 < atol = 1e-5  -> documented as illegal
bad = 0
for f in (pp.mat2RxSO3, pp.mat2Sim3):
    try:
        f(tiny, check=True)
        single = 'accepted'
    except ValueError as e:
        single = 'ValueError(%s)' % e
    try:
        out = f(torch.stack([tiny, R[1]]), check=True)
        batch = 'accepted, scales = %s' % out.scale().flatten().tolist()
    except ValueError as e:
        batch = 'ValueError(%s)' % e
    print('%s: alone -> %s ; batched with a valid matrix -> %s' % (f.__name__, single, batch))
    if single.startswith('ValueError') != batch.startswith('ValueError'):
        bad += 1
if bad:
    print('INCONSISTENT: the |s| > atol check depends on the other batch elements')
    sys.exit(1)
print('ok')
