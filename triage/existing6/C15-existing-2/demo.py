"""Existing defect: the time handed to f / g has a different shape depending on
the path.  forward() and set_refpoint() with t=None pass the 0-dim clock, but an
explicitly given reference time is wrapped by torch.atleast_1d into shape [1].
For a model that looks its parameters up by time step (K[t], the pattern the
LTV documentation uses) the same reference point then yields A of shape
[1, n, n] and c1 of shape [1, n] instead of [n, n] and [n]."""
import sys, torch
import pypose as pp

torch.manual_seed(0)
K = torch.randn(5, 3, 3)


class Table(pp.module.NLS):
    def state_transition(self, x, u, t):
        return pp.bmv(K[t], x.sin()) + u

    def observation(self, x, u, t):
        return x * x


x, u = torch.tensor([0.1, 0.2, 0.3]), torch.tensor([0.5, -0.4, 0.1])
s = Table().reset(2)
s.set_refpoint(x, u)                          # t* defaults to the clock (2)
A_def, c1_def = s.A, s.c1
s.set_refpoint(x, u, torch.tensor(2))         # the same t*, given explicitly
A_exp, c1_exp = s.A, s.c1
print("t defaulted : A", tuple(A_def.shape), "c1", tuple(c1_def.shape))
print("t explicit  : A", tuple(A_exp.shape), "c1", tuple(c1_exp.shape))
if A_def.shape != A_exp.shape or c1_def.shape != c1_exp.shape:
    print("DEFECT: same reference point, different shapes of the linearised model")
    sys.exit(1)
print("ok")
