"""Existing defect (unchanged tree): sim3 Exp loses most of the translation when
   |phi| <= eps < |sigma| and sigma is of the order of eps.

Root cause: pypose/lietensor/operation.py rxso3_Ws, regime 'condition3' (sigma > eps, theta <= eps):
    B = (0.5*s2*e + e - 1 - s2*e) / s3           with s = sigma, e = exp(sigma)
but the coefficient of K@K in W = int_0^1 exp(t*sigma) R(t*phi) dt for theta -> 0 is
    B = int_0^1 t^2/2 * exp(t*sigma) dt = (0.5*s2*e - s*e + e - 1) / s3      (-> 1/6 for s -> 0)
i.e. the code has '- sigma**2 * scale' where '- sigma * scale' belongs.  The wrong B behaves like
1/sigma**2 for small sigma, so B*K@K ~ -(theta/sigma)**2 is O(1) when theta <= eps < sigma ~ eps.
(sigma = 0.5: wrong B = 3.54, right B = 0.2436 - invisible there only because K@K <= eps**2.)
"""
import sys, torch, pypose as pp

bad = 0
for dtype in (torch.float64, torch.float32):
    eps = torch.finfo(dtype).eps
    for ratio in (1.25, 2.0, 4.0):
        x = torch.tensor([0.0, 1.0, 0.0, eps, 0.0, 0.0, ratio * eps], dtype=dtype)   # tau ⟂ phi, |phi| = eps, sigma = ratio*eps
        t = pp.sim3(x).Exp().translation().double()
        G = torch.zeros(4, 4, dtype=torch.float64)
        G[1, 2], G[2, 1] = -float(x[3]), float(x[3])
        G[:3, :3] += float(x[6]) * torch.eye(3, dtype=torch.float64)
        G[:3, 3] = x[:3].double()
        ref = torch.linalg.matrix_exp(G)[:3, 3]
        err = ((t - ref).norm() / ref.norm()).item()
        print(f"{str(dtype):14s} |phi| = eps, sigma = {ratio}*eps: translation {t.tolist()} expected {ref.tolist()} "
              f"rel.err {err:.3f}  (predicted (theta/sigma)^2 = {1 / ratio ** 2:.3f})")
        bad += err > 1e-3
s = torch.tensor(0.5, dtype=torch.float64); e = s.exp()
print("sigma=0.5: B used by rxso3_Ws condition3 =", ((0.5*s*s*e + e - 1 - s*s*e) / s**3).item(),
      " correct int_0^1 t^2/2 e^(t sigma) dt =", ((0.5*s*s*e - s*e + e - 1) / s**3).item())
if bad:
    print("DEFECT: sim3 Exp translation is wrong by 6-71 % in the band |phi| <= eps < |sigma| ~ eps")
    sys.exit(1)
print("ok")
