"""Existing defect: for an NLS whose state / input carry a leading batch axis of
one (shape [1, n], the layout the MPC/LQR cart-pole test uses) the Jacobians keep
both batch axes (A is [1, n, 1, n]) and c1 / c2 are computed with bmv on them:
c1 comes out with shape [1, n, n] instead of [1, n], so A x* + B u* + c1 cannot
reproduce f(x*, u*, t*)."""
import sys, torch
import pypose as pp


class S(pp.module.NLS):
    def state_transition(self, x, u, t):
        return x.sin() * torch.cos(t / 5.) + u.sum(-1, keepdim=True) * x

    def observation(self, x, u, t):
        return x * x + t


s = S()
x, u = torch.tensor([[0.1, 0.2, 0.3]]), torch.tensor([[0.5, -0.4]])
s.set_refpoint(x, u, torch.tensor(2))
f = s.state_transition(x, u, torch.tensor(2))
print("f(x*,u*,t*) shape", tuple(f.shape), " A", tuple(s.A.shape), " c1", tuple(s.c1.shape),
      " c2", tuple(s.c2.shape))
if s.c1.shape != f.shape:
    print("DEFECT: c1 does not have the shape of f(x*,u*,t*); the affine model is not defined")
    sys.exit(1)
print("ok")
