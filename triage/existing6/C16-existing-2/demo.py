"""Existing defect: IMUPreintegrator.integrate() documents `init_rot`: "If not given, the
initial state in constructor will be used", but when it is omitted the code uses the
IDENTITY rotation for the gravity compensation, not the module's rotation.
Run from the root of a pypose checkout."""
import sys, torch, pypose as pp
torch.manual_seed(0)
R0 = pp.randn_SO3()
m = pp.module.IMUPreintegrator(rot=R0)
dt = torch.full((1, 3, 1), 0.1); gyro = torch.randn(1, 3, 3); acc = torch.randn(1, 3, 3)
default = m.integrate(dt, gyro, acc)
explicit = m.integrate(dt, gyro, acc, init_rot=m.rot)
ident = m.integrate(dt, gyro, acc, init_rot=pp.identity_SO3(1, 1))
d1 = (default['Dv'] - explicit['Dv']).abs().max().item()
d2 = (default['Dv'] - ident['Dv']).abs().max().item()
print('max |Dv(default init_rot) - Dv(init_rot = constructor rot)| = %.3e' % d1)
print('max |Dv(default init_rot) - Dv(init_rot = identity)|        = %.3e' % d2)
if d1 > 1e-5:
    print('FAIL: omitted init_rot behaves as identity, docstring promises the constructor state'); sys.exit(1)
print('OK')
