"""Existing defect (state/history): LevenbergMarquardt.step() compares each trial against
self.loss cached from the PREVIOUS call instead of the loss of the current parameters on the
current (input, target).  After converging on one target, a call with a new target therefore
rejects the (perfect) first trial - its loss ~1e-10 is 'not below' the cached 0.0 although the
real loss at the start of the call is 100 - keeps rejecting until the reject budget is used up,
lets the strategy blow the damping up to 1e6 and leaves the parameters where they were.
The documented loop is 'while first iteration or loss not decreasing', i.e. relative to
theta_(t-1) on the x, y given to this step.
"""
import sys
import torch
import pypose as pp
from torch import nn

torch.set_default_dtype(torch.float64)


class Model(nn.Module):
    def __init__(self):
        super().__init__()
        self.x = nn.Parameter(torch.zeros(4))

    def forward(self, s):
        return s * self.x


class Counting(nn.Module):
    def __init__(self):
        super().__init__()
        self.n = 0

    def forward(self, A, b):
        self.n += 1
        return torch.linalg.solve(A, b)


s = torch.ones(4)
a = torch.tensor([1., 2., 3., 4.])
b = a + 5
model, solver = Model(), Counting()
opt = pp.optim.LM(model, solver=solver)
for _ in range(3):
    opt.step(s, a)                       # converge on target a (loss becomes exactly 0)
solver.n = 0
before = ((model.x.detach() - b) ** 2).sum().item()
ret = opt.step(s, b).item()              # same optimizer, new target
after = ((model.x.detach() - b) ** 2).sum().item()
print('loss on new target before the call :', before)
print('loss on new target after the call  :', after, ' (returned: %g)' % ret)
print('trials in that call                :', solver.n)
print('damping after the call             :', opt.param_groups[0]['damping'])
# the model is linear: the very first trial (damping ~1e-7) lands on the target
if not (after < 1e-6 * before and solver.n == 1):
    print('FAIL: the first trial reduces the loss from 100 to ~1e-10 but is rejected because it is '
          'compared with the loss cached from the previous call (other target)')
    sys.exit(1)
print('OK')
