"""Existing defect: mat2Sim3 / mat2RxSO3 / from_matrix raise on an empty batch.

An empty batch of valid matrices (shape (0, 4, 4), e.g. randn_Sim3(0).matrix()) must give an
empty Sim3 / RxSO3 LieTensor, as mat2SO3 / mat2SE3 do.  The 'not full rank' guard is
torch.allclose(s, zeros_like(s)), which is vacuously True for an empty s.
"""
import sys, warnings, torch, pypose as pp
warnings.simplefilter("ignore")
bad = []
cases = [("mat2SO3", pp.mat2SO3, pp.randn_SO3(0).matrix(), (0, 4)),
         ("mat2SE3", pp.mat2SE3, pp.randn_SE3(0).matrix(), (0, 7)),
         ("mat2Sim3", pp.mat2Sim3, pp.randn_Sim3(0).matrix(), (0, 8)),
         ("mat2Sim3 (2,0)", pp.mat2Sim3, pp.randn_Sim3(2, 0).matrix(), (2, 0, 8)),
         ("mat2RxSO3", pp.mat2RxSO3, pp.randn_RxSO3(0).matrix(), (0, 5)),
         ("from_matrix Sim3", lambda m: pp.from_matrix(m, pp.Sim3_type), pp.randn_Sim3(0).matrix(), (0, 8))]
for name, f, m, shape in cases:
    try:
        out = f(m)
        ok = tuple(out.shape) == shape
        print(("ok   " if ok else "FAIL ") + "%s(%s) -> %s" % (name, tuple(m.shape), tuple(out.shape)))
    except Exception as e:
        ok = False
        print("FAIL %s(%s) raised %s: %s" % (name, tuple(m.shape), type(e).__name__, e))
    if not ok:
        bad.append(name)
sys.exit(1 if bad else 0)
