"""ReduceToBason measures the decrease as (last - loss) / loss.  Dividing by the signed loss makes
the test wrong for losses that are not strictly positive (MPC costs with a linear term are
routinely negative):
  * a negative loss that gets WORSE every step (-1, -0.9, -0.8, ...) has (last-loss)/loss > 0, is
    counted as a sufficient decrease and never triggers patience;
  * a negative loss that IMPROVES every step (-1, -2, -4, ...) has (last-loss)/loss < 0, is counted
    as 'no decrease' and stops on patience;
  * a loss that sits at exactly 0 gives 0/0 = nan, which compares False, so 'equal' steps reset the
    patience counter instead of counting.
(tol is set below the losses so that only patience / budget can stop the loop.)
"""
import sys
import torch
from pypose.utils import ReduceToBason

def run(losses, tol):
    stepper = ReduceToBason(steps=len(losses), patience=2, decreasing=1e-3, tol=tol)
    for k, loss in enumerate(losses, 1):
        stepper.step(torch.tensor(loss))
        if not stepper.continual():
            return k
    return None

bad = False
worse = [-1.0 + 0.1 * k for k in range(9)]             # increases every step
k = run(worse, tol=-1e30)
print('loss increasing  -1.0, -0.9, ...      : stopped at step %s of %d (2 non-decreasing steps in a row '
      'are reached at step 3)' % (k, len(worse)))
bad |= k != 3

better = [-(2.0 ** k) for k in range(9)]                # decreases (doubles in magnitude) every step
k = run(better, tol=-1e30)
print('loss decreasing  -1, -2, -4, ...      : stopped at step %s of %d (every step decreases the loss, '
      'only the budget should stop it)' % (k, len(better)))
bad |= k != len(better)

zeros = [0.0] * 9                                       # equal losses
k = run(zeros, tol=0.0)
print('loss constant     0, 0, 0, ... (tol=0): stopped at step %s of %d (steps 2 and 3 do not decrease '
      'the loss, patience=2 is reached at step 3)' % (k, len(zeros)))
bad |= k != 3

if bad:
    print('FAIL: patience is mis-counted for non-positive losses')
    sys.exit(1)
print('OK')
