"""LQR.forward / MPC.forward document u_lower / u_upper as 'the lower/upper bounds on the
controls', but the arguments are never used: the returned inputs violate the bounds and are
bit-identical to the unconstrained solution."""
import sys, torch, pypose as pp

torch.set_default_dtype(torch.float64)
torch.manual_seed(0)
nb, T, ns, nc = 2, 5, 3, 2
n = ns + nc
R = torch.randn(nb, T, n, n)
Q = R.mT @ R + 0.5 * torch.eye(n)
p = torch.randn(nb, T, n)
A = torch.eye(ns) + 0.3 * torch.randn(nb, ns, ns)
B = torch.randn(nb, ns, nc)
lti = pp.module.LTI(A, B, torch.eye(ns).repeat(nb, 1, 1), torch.zeros(nb, ns, nc))
x0 = torch.randn(nb, ns)
lqr = pp.module.LQR(lti, Q, p, T)

_, u_free, _ = lqr(x0)
lo, hi = -0.05 * torch.ones(nb, T, nc), 0.05 * torch.ones(nb, T, nc)
_, u_box, _ = lqr(x0, u_lower=lo, u_upper=hi)

print('unconstrained max |u| = %.4f' % u_free.abs().max())
print('with bounds [-0.05, 0.05]: max |u| = %.4f, identical to unconstrained: %s'
      % (u_box.abs().max(), torch.equal(u_free, u_box)))
if (u_box < lo - 1e-9).any() or (u_box > hi + 1e-9).any():
    print('u_lower / u_upper are accepted but ignored: returned controls violate the bounds')
    sys.exit(1)
print('bounds respected')
