"""The "Invalid dim" guard of pp.cumops / cummul / cumprod can never fire.

pypose/basics/ops.py:cumops_ starts with
    assert dim != -1 or dim != v.shape[-1], "Invalid dim"
which is a tautology (`or`, and it compares dim with the *extent* of the last dimension).
The guard is meant to reject the hidden last dimension of a LieTensor (the documentation says
dim is the dimension over which the LieType *items* are accumulated).  With dim = -1 (or
dim = x.dim() - 1) the scan silently runs over the coordinates inside every single item and
returns a LieTensor of the same ltype whose items are not the cumulative result of any items.
"""
import sys, warnings
import torch, pypose as pp
warnings.simplefilter('ignore')
torch.manual_seed(0)

x = pp.randn_so3(4, dtype=torch.float64)
add = lambda a, b: a + b
ref = pp.cumops(x, 0, add)                         # the documented use: accumulate items
assert torch.allclose(ref.tensor(), x.tensor().cumsum(0))
bad = False
for dim in (-1, x.dim() - 1):
    try:
        out = pp.cumops(x, dim, add)
    except AssertionError as e:
        print('dim=%d rejected: %s' % (dim, e))
        continue
    bad = True
    mixes = torch.allclose(out.tensor(), x.tensor().cumsum(-1))
    print('dim=%d accepted; returned %s of lshape %s; equals cumsum over the 3 coordinates '
          'of each item: %s' % (dim, type(out.ltype).__name__, tuple(out.lshape), mixes))
if bad:
    print('FAIL: the last (hidden) dimension is accepted although cumops_ asserts "Invalid dim"')
    sys.exit(1)
print('PASS')
