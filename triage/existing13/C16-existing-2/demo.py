"""The propagated covariance does not follow the recursion documented in forward().

The docstring (and Forster et al., eq. A.9) gives C_{k+1} = A C_k A^T + B diag(Cg, Ca) B^T with
    A[3:6,0:3] = -dR_ik a_k^ dt,  A[6:9,0:3] = -1/2 dR_ik a_k^ dt^2,
    B_a = [0; dR_ik dt; 1/2 dR_ik dt^2]
i.e. with the preintegrated rotation dR_ik BEFORE the k-th step. The code feeds
inte_state['Dr'] = incre_r[:, 1:] = dR_{i,k+1} (the rotation AFTER the k-th step) into these
blocks - an off-by-one on the frame axis. (The code additionally divides the noise term by dt;
this demo grants that scaling to both candidates so that only the index is compared.)
"""
import sys
import torch
import pypose as pp

torch.manual_seed(0)
dtype = torch.float64
gc, ac = 2.0 ** -16, 2.0 ** -8          # exactly representable noise densities


def cov_recursion(dt, gyro, a, after):
    B, F = dt.shape[:2]
    C = torch.zeros(B, 9, 9, dtype=dtype)
    dR = pp.identity_SO3(B, dtype=dtype)
    Cg, Ca = torch.eye(3, dtype=dtype) * gc, torch.eye(3, dtype=dtype) * ac
    I3 = torch.eye(3, dtype=dtype)
    for k in range(F):
        h = dt[:, k][..., None]
        Rk = pp.so3(gyro[:, k] * dt[:, k]).Exp()
        dRn = dR * Rk
        R = (dRn if after else dR).matrix()
        Ha = pp.vec2skew(a[:, k])
        A = torch.eye(9, dtype=dtype).repeat(B, 1, 1)
        A[:, 0:3, 0:3] = Rk.matrix().mT
        A[:, 3:6, 0:3] = -R @ Ha * h
        A[:, 6:9, 0:3] = -0.5 * R @ Ha * h ** 2
        A[:, 6:9, 3:6] = I3 * h
        Bg = torch.zeros(B, 9, 3, dtype=dtype); Ba = torch.zeros(B, 9, 3, dtype=dtype)
        Bg[:, 0:3] = Rk.Jr() * h
        Ba[:, 3:6] = R * h; Ba[:, 6:9] = 0.5 * R * h ** 2
        C = A @ C @ A.mT + (Bg @ Cg @ Bg.mT + Ba @ Ca @ Ba.mT) / h
        dR = dRn
    return C


B, F = 2, 7
dt = torch.rand(B, F, 1, dtype=dtype) * 0.5 + 0.1
gyro = torch.randn(B, F, 3, dtype=dtype) * 2
acc = torch.randn(B, F, 3, dtype=dtype) * 3
m = pp.module.IMUPreintegrator(gravity=0., gyro_cov=gc, acc_cov=ac).to(dtype)
cov = m(dt, gyro, acc)['cov']
e_doc = float((cov_recursion(dt, gyro, acc, after=False) - cov).abs().max() / cov.abs().max())
e_off = float((cov_recursion(dt, gyro, acc, after=True) - cov).abs().max() / cov.abs().max())
print("relative deviation from the documented recursion (dR_ik)      : %.3e" % e_doc)
print("relative deviation from the shifted recursion   (dR_i,k+1)    : %.3e" % e_off)
if e_doc > 1e-9:
    print("VIOLATION: the covariance is propagated with dR_{i,k+1} where the docstring (and the cited "
          "report) use dR_ik")
    sys.exit(1)
