"""Nested pp.func.jacrev / pp.retain_ltype leaves PyTorch's torch._functorch.vmap module modified.

Property C06: the temporary patching of PyTorch internals done by retain_ltype / func.jacrev
is undone on exit.  When retain_ltype is entered while another retain_ltype is active (e.g. a
Hessian computed as pp.func.jacrev of a function that itself calls pp.func.jacrev), the inner
context looks up the module and name of the *outer wrappers* (name 'wrapper', and for the
_add_batch_dim wrapper the module was re-labelled 'torch._functorch.vmap' by the __module__
assignment at the top of retain_ltype), so it assigns a new attribute `wrapper` in
torch._functorch.vmap (and in pypose.lietensor.lietensor) and "restores" it to the outer
wrapper on exit.  The attribute stays in the PyTorch module after all contexts have exited.
"""
import sys, types, warnings
import torch, torch._functorch.vmap, torch._functorch.eager_transforms
import pypose as pp
warnings.simplefilter('ignore')
torch.manual_seed(0)

vm = torch._functorch.vmap
kinds = (types.FunctionType, types.BuiltinFunctionType)
def names():
    return {k: v for k, v in vars(vm).items() if isinstance(v, kinds)}

pose = pp.randn_SE3(2, dtype=torch.float64)
points = torch.randn(2, 3, dtype=torch.float64)
f = lambda X, p: X.Act(p)

# warm up (single, un-nested use) and take the reference picture of the module
pp.func.jacrev(f)(pose, points)
before = names()

g = lambda X, p: pp.func.jacrev(f)(X, p).sum((0, 1))      # nested use: second derivative
H = pp.func.jacrev(g)(pose, points)
assert H.shape == (2, 7, 2, 7)

after = names()
added = sorted(set(after) - set(before))
changed = sorted(k for k in before if k in after and after[k] is not before[k])
print('functions added to torch._functorch.vmap after the nested call returned:', added)
print('functions replaced in torch._functorch.vmap:', changed)
if added or changed:
    for k in added:
        print('  torch._functorch.vmap.%s = %r' % (k, after[k]))
    print('FAIL: the PyTorch module torch._functorch.vmap is not back in its original state')
    sys.exit(1)
print('PASS')
