"""Existing defect (unchanged code): _Scheduler.state_dict() also stores the `continual`
wrapper object, which is bound to the scheduler it was taken from.  After
other.load_state_dict(sd) the call other.continual() therefore no longer reads other's
own `_continual` flag but the one of the SOURCE scheduler:

  * a scheduler restored from a mid-run checkpoint reports continual() == False as soon
    as the source scheduler has finished, although its own state (steps < budget,
    patience_count < patience, no rejection) says it must go on, so optimize() does nothing;
  * conversely a restored, stopped scheduler keeps running while the source is running.
"""
import sys, torch, pypose as pp
from torch import nn


class PoseInv(nn.Module):
    def __init__(self, *dim):
        super().__init__()
        self.pose = pp.Parameter(pp.randn_SE3(*dim))

    def forward(self, inputs):
        return (self.pose @ inputs).Log().tensor()


def build(steps):
    net = PoseInv(2, 2)
    opt = pp.optim.GN(net)
    return net, opt, pp.optim.scheduler.StopOnPlateau(opt, steps=steps, patience=50,
                                                      decreasing=-1.0)

torch.manual_seed(0)
inputs = pp.randn_SE3(2, 2)

_, opt_a, a = build(steps=5)
for _ in range(2):                       # two of five steps, then checkpoint
    a.step(opt_a.step(inputs))
sd = a.state_dict()
assert a.continual() and sd['steps'] == 2 and sd['_continual'] is True

while a.continual():                     # the original run goes on to its end
    a.step(opt_a.step(inputs))
print('source scheduler finished: steps', a.steps, 'continual', a.continual())

_, opt_b, b = build(steps=5)
b.load_state_dict(sd)                    # resume from the mid-run checkpoint
print('restored scheduler: steps %d of %d, patience_count %d of %d, _continual flag %s, '
      'continual() -> %s' % (b.steps, b.max_steps, b.patience_count, b.patience,
                             b._continual, b.continual()))
calls = 0
while b.continual():
    b.step(opt_b.step(inputs)); calls += 1
print('steps made by the restored scheduler:', calls, '(expected 3: budget 5, 2 used)')
if calls != 3:
    print('WRONG: continual() of the restored scheduler reads the flag of the scheduler '
          'the state_dict came from (state_dict()["continual"] is bound to it)')
    sys.exit(1)
print('OK')
