"""Existing behaviour (unchanged code): LM accepts a trial whose loss is NaN.

The accept/reject test in LevenbergMarquardt.step is `self.last < self.loss`; for a trial
that leaves the domain of the model (loss = NaN) the comparison is False, so the trial is
ACCEPTED at the first attempt (reject_count stays 0 although reject=16 rejections are
allowed).  The parameters and optimizer.loss are NaN from then on; a rejected trial with a
larger damping would have reduced the loss.
"""
import sys
import math
import torch
import pypose as pp
from torch import nn

torch.set_default_dtype(torch.float64)


class LogFit(nn.Module):            # residual_i = log(theta * x_i) - y_i, domain theta > 0
    def __init__(self):
        super().__init__()
        self.theta = nn.Parameter(torch.tensor([1.0]))

    def forward(self, x):
        return torch.log(self.theta * x)


x = torch.tensor([[1.0], [2.0], [3.0]])
y = torch.log(0.01 * x)             # exact solution theta = 0.01
bad = False
for name, strategy in [('TrustRegion', pp.optim.strategy.TrustRegion()),
                       ('Adaptive', pp.optim.strategy.Adaptive(damping=1e-6)),
                       ('Constant', pp.optim.strategy.Constant(damping=1e-6))]:
    model = LogFit()
    opt = pp.optim.LM(model, strategy=strategy, reject=16)
    with torch.no_grad():
        given = float((model(x) - y).square().sum())
    ret = float(opt.step(x, y))
    print('%-12s loss given %.4f -> returned %s, theta = %s, rejections used %d of %d' % (
        name, given, ret, model.theta.data.tolist(), opt.reject_count, opt.reject))
    if math.isnan(ret) or not ret <= given:
        bad = True

# the same problem is solved when the first step is damped enough
model = LogFit()
opt = pp.optim.LM(model, strategy=pp.optim.strategy.Adaptive(damping=10.), reject=16)
for i in range(30):
    ret = float(opt.step(x, y))
print('with damping=10 the same problem converges: loss %.3e theta %s' % (ret, model.theta.data.tolist()))

if bad:
    print('FAIL: a NaN trial was accepted without using any of the allowed rejections; '
          'the model parameters are destroyed.')
    sys.exit(1)
print('OK')
