"""LieTensor.lview does not accept the torch.Size / tuple form its docstring promises.

Docstring of LieTensor.lview:  "shape (torch.Size or int...): the desired size" and
"The only difference from view is the last dimension is hidden."  Tensor.view accepts
x.view(torch.Size([6, 7])) and x.view((6, 7)); lview(torch.Size([6])) / lview((6,)) raise.
"""
import sys, warnings
import torch, pypose as pp
warnings.simplefilter('ignore')

x = pp.randn_SE3(2, 3)
ok = True
print('x.view(torch.Size([6, 7])).shape =', tuple(x.view(torch.Size([6, 7])).shape))
for arg in (torch.Size([6]), (6,), [6], x.lview(6).lshape):
    try:
        y = x.lview(arg)
        good = type(y) is pp.LieTensor and y.ltype == x.ltype and tuple(y.lshape) == (6,) \
            and torch.equal(y.tensor(), x.tensor().reshape(6, 7))
        print('x.lview(%r) -> lshape %s %s' % (arg, tuple(y.lshape), 'ok' if good else 'WRONG'))
        ok &= good
    except Exception as e:
        ok = False
        print('x.lview(%r) raised %s: %s' % (arg, type(e).__name__, e))
print('x.lview(6).lshape =', tuple(x.lview(6).lshape), '(int form works)')
if not ok:
    print('FAIL: lview rejects the documented torch.Size form (e.g. y.lview(x.lshape))')
    sys.exit(1)
print('PASS')
