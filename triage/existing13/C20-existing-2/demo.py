"""Existing defect (unchanged code): ReduceToBason measures the relative decrease as
(last - loss) / loss.  For negative losses (e.g. the quadratic-plus-linear MPC cost
0.5 x'Qx + p'x, which is negative near its optimum) the division flips the sign:
a loss that DEcreases every step is counted as `no decrease` (patience runs out although
every step improved by 100 %), while a loss that INcreases every step resets the counter.
(tol is set below the losses here; with the default tol a negative loss stops the loop at
once through the tol rule.)
"""
import sys
from pypose.utils import ReduceToBason

bad = 0
s = ReduceToBason(steps=20, patience=2, decreasing=0.1, tol=-1e9)
n = 0
for loss in [-1., -2., -4., -8., -16., -32.]:      # halves^-1: decreases by |loss|/2 each step
    if not s.continual():
        break
    s.step(loss); n += 1
print('decreasing negative losses: stopped after %d steps, patience_count %d' % (n, s.patience_count))
if n != 6 or not s.continual():
    bad += 1
    print('  WRONG: every step decreased the loss by far more than 10 %, patience must not run out')

s = ReduceToBason(steps=20, patience=2, decreasing=0.1, tol=-1e9)
n = 0
for loss in [-32., -16., -8., -4., -2., -1.]:      # gets worse every step
    if not s.continual():
        break
    s.step(loss); n += 1
print('increasing negative losses: stopped after %d steps, patience_count %d' % (n, s.patience_count))
# first step compares with +inf, so the two stalled steps are steps 2 and 3
if n != 3:
    bad += 1
    print('  WRONG: two consecutive steps failed to decrease the loss, the loop must stop after step 3')
sys.exit(1 if bad else 0)
