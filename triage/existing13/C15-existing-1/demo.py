"""
Existing behaviour (unchanged code): an NLS whose state/input carry a single batch
axis, x of shape (1, n), u of shape (1, m) - the form that pp.module.LQR / MPC feed
into an NLS (see tests/module/test_mpc.py and the squeeze(-2) in LQR.lqr_backward) -
gets offsets c1, c2 of the wrong shape and value, so the affine model
A x + B u + c1 does not reproduce f(x*, u*, t*).

jacobian() keeps the batch axes, A has shape (1, n, 1, n); bmv(A, x*) then yields
(1, n, 1) and `_ref_f - bmv(A, x*) - bmv(B, u*)` broadcasts to (1, n, n).
"""
import sys
import torch
import pypose as pp

torch.manual_seed(0)
torch.set_default_dtype(torch.float64)


class S(pp.module.NLS):
    def state_transition(self, x, u, t=None):
        return x + 0.1 * torch.sin(x) + u.sum(-1, keepdim=True) * x

    def observation(self, x, u, t=None):
        return x * x


s = S()
x, u, t = torch.randn(1, 3), torch.randn(1, 2), torch.tensor(0)
s.set_refpoint(x, u, t)
f = s.state_transition(x, u, t)
g = s.observation(x, u, t)
A, B, C, D = (M.squeeze(-2) for M in (s.A, s.B, s.C, s.D))   # what LQR does with the kept batch axis
print("f(x*,u*,t*) shape", tuple(f.shape), " c1 shape", tuple(s.c1.shape), " c2 shape", tuple(s.c2.shape))
bad = False
if s.c1.shape != f.shape or s.c2.shape != g.shape:
    print("WRONG: c1 / c2 do not have the shape of f / g at the reference point")
    bad = True
else:
    e1 = (pp.bmv(A, x) + pp.bmv(B, u) + s.c1 - f).abs().max().item()
    e2 = (pp.bmv(C, x) + pp.bmv(D, u) + s.c2 - g).abs().max().item()
    print("affine model error at the reference point:", e1, e2)
    bad = e1 > 1e-9 or e2 > 1e-9
sys.exit(1 if bad else 0)
