"""knn_filter(points, k, radius=r) promises: keep the points with at least k
others within r and return, for each of them, the mean of itself and its k
nearest neighbours.  When fewer than k+1 points are retained the unchanged code
raises 'selected index k out of range' from topk instead of returning a result:
  (a) no point has k neighbours within r  -> expected an empty (0, D) tensor,
  (b) a star: only the hub has k neighbours within r (its neighbours are the
      leaves, which are themselves dropped) -> expected one row.
"""
import sys, torch, pypose as pp

bad = False
pts = torch.tensor([[0., 0.], [1., 0.], [-1., 0.], [0., 1.2], [20., 20.]])

kept, mask = pp.nbr_filter(pts, nbr=2, radius=0.1, return_mask=True)
print("(a) nbr_filter keeps", int(mask.sum()), "points for nbr=2, radius=0.1")
try:
    out = pp.knn_filter(pts, k=2, radius=0.1)
    print("    knn_filter ->", tuple(out.shape))
    bad |= out.shape != (0, 2)
except RuntimeError as e:
    print("    knn_filter raised instead of returning an empty cloud:", e)
    bad = True

kept, mask = pp.nbr_filter(pts, nbr=3, radius=1.3, return_mask=True)
print("(b) nbr_filter keeps", int(mask.sum()), "point(s) for nbr=3, radius=1.3:", kept.tolist())
try:
    out = pp.knn_filter(pts, k=3, radius=1.3)
    print("    knn_filter ->", out.tolist())
    bad |= out.shape[0] != 1
except RuntimeError as e:
    print("    knn_filter raised although one point has 3 neighbours within the radius:", e)
    bad = True

sys.exit(1 if bad else 0)
