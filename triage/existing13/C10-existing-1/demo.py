"""_sparse_csr_mm on the layout pairs the property quantifies over (BSR/BSC/CSR/CSC x BSR/BSC/CSR/CSC).
Only 5 of the 16 pairs give a product; the rest do not even fail with a meaningful error:
  * the generic fall-through branch builds `zero = torch.zeros(...),` (trailing comma -> a 1-tuple),
    so torch.addmm always dies with "TypeError: addmm() received an invalid combination of arguments";
  * BSC x BSR executes `raise NotImplemented` -> "TypeError: exceptions must derive from BaseException";
  * BSR/BSC x anything-but-BSC reaches the `is_sparse_csr` fast path guard and then zeros(layout=bsr).
Exit code 0 = every pair returns the dense product."""
import sys, warnings
warnings.filterwarnings('ignore')
import torch
from pypose.sparse.ops import _sparse_csr_mm
torch.manual_seed(0)
D1 = torch.randn(4, 6, dtype=torch.float64) * (torch.rand(4, 6) > 0.5)
D2 = torch.randn(6, 4, dtype=torch.float64) * (torch.rand(6, 4) > 0.5)
lay = {'csr': lambda d: d.to_sparse_csr(), 'csc': lambda d: d.to_sparse_csc(),
       'bsr': lambda d: d.to_sparse_bsr((2, 2)), 'bsc': lambda d: d.to_sparse_bsc((2, 2))}
bad = []
for a in lay:
    for c in lay:
        try:
            r = _sparse_csr_mm(lay[a](D1), lay[c](D2))
            err = (r.to_dense() - D1 @ D2).abs().max().item()
            print(f'{a} x {c}: ok, max err {err:.1e}')
            if err > 1e-12: bad.append((a, c))
        except Exception as e:
            print(f'{a} x {c}: {type(e).__name__}: {str(e).splitlines()[0][:90]}')
            bad.append((a, c))
if bad:
    print(f'FAIL: {len(bad)} of 16 layout pairs give no product: {bad}')
    sys.exit(1)
print('OK')
