"""Existing behaviour (unchanged code): LM.step compares the trials of a call with the loss cached by
the PREVIOUS call (self.loss), which belongs to the previous input/target.  With a new input whose
loss is larger, trials that clearly decrease the loss are rejected up to `reject` times; the
parameters end at the heavily damped 17th trial instead of the first decreasing one.
Docstring of LevenbergMarquardt: a trial is rejected only 'if loss not decreasing'.
"""
import sys, torch, pypose as pp
from torch import nn

torch.set_default_dtype(torch.float64)
torch.manual_seed(0)


class PoseInv(nn.Module):
    def __init__(self):
        super().__init__()
        self.pose = pp.Parameter(pp.randn_SE3(2))

    def forward(self, x):
        return (self.pose @ x).Log().tensor()


class Record(pp.optim.strategy.TrustRegion):
    def __init__(self):
        super().__init__()
        self.trials = []

    def update(self, pg, last, loss, **kw):
        self.trials.append((float(last), float(loss)))
        super().update(pg, last=last, loss=loss, **kw)


model, strategy = PoseInv(), Record()
opt = pp.optim.LM(model, strategy=strategy)
batch_a, batch_b = pp.randn_SE3(2), pp.randn_SE3(2)
for _ in range(6):
    opt.step(batch_a)
print('loss on batch a after 6 steps: %.3e' % opt.loss)

with torch.no_grad():
    before = model(batch_b).square().sum().item()
strategy.trials.clear()
opt.step(batch_b)
with torch.no_grad():
    after = model(batch_b).square().sum().item()
first = strategy.trials[0]
print('batch b: true loss at the current parameters %.6f' % before)
print('batch b: trial 1 has loss %.6f but was compared with last = %.3e' % (first[1], first[0]))
print('batch b: %d trials, reject_count = %d, loss after the step %.6f' %
      (len(strategy.trials), opt.reject_count, after))
if first[1] < before and opt.reject_count > 0:
    print('WRONG: the first trial decreases the loss on the given input (%.6f -> %.6f) and is '
          'rejected anyway, because it is compared with the loss cached from the previous '
          'input; the step ends at trial %d.' % (before, first[1], len(strategy.trials)))
    sys.exit(1)
print('ok')
