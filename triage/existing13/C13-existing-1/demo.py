"""PF.forward documents `t (int, optional): set system timestamp for estimation`, but an
int time stamp makes every PF step on an NLS model raise TypeError: PF passes t on to
NLS.set_refpoint, which calls torch.atleast_1d(t), and that accepts tensors only.
(The same happens for EKF/UKF with a Python number as t; a 0-dim tensor works.)"""
import sys, torch, pypose as pp


class NLS(pp.module.NLS):
    def state_transition(self, state, input, t=None):
        return state.cos() + input

    def observation(self, state, input, t=None):
        return state.sin() + input


torch.manual_seed(0)
N = 2
pf = pp.module.PF(NLS(), torch.eye(N) * 0.01, torch.eye(N) * 0.01)
x, y, u, P = torch.randn(N), torch.randn(N), torch.randn(N), torch.eye(N)
xt, Pt = pf(x, y, u, P, t=torch.tensor(3))
print('t = torch.tensor(3): ok', tuple(xt.shape), tuple(Pt.shape))
try:
    xi, Pi = pf(x, y, u, P, t=3)
except TypeError as e:
    print('t = 3 (int, as documented): PF step raises TypeError:', str(e).split('\n')[0])
    sys.exit(1)
print('t = 3: ok', tuple(xi.shape), tuple(Pi.shape))
