"""Existing behaviour (unchanged code): with a weight W the LM accept/reject test and the value
returned by step() use the UNWEIGHTED loss sum(rho(r^T r)), although the documented objective
(class docstring of LevenbergMarquardt) and the normal equations use sum(rho(r^T W r)).
Steps that decrease the documented objective are rejected `reject` times in a row and are
finally taken only because the rejections are exhausted; the reported loss goes UP.
"""
import sys
import torch
import pypose as pp
from torch import nn

torch.set_default_dtype(torch.float64)


class Two(nn.Module):               # one 2-dimensional residual r = (theta - 0, theta - 1)
    def __init__(self):
        super().__init__()
        self.theta = nn.Parameter(torch.tensor([0.5]))

    def forward(self, _):
        return torch.cat([self.theta - 0., self.theta - 1.]).view(1, 2)


W = torch.diag(torch.tensor([1., 100.]))       # weighted optimum theta = 100/101


def objectives(model):
    r = model(None).detach()
    return float(r @ W @ r.T), float(r.square().sum())


model = Two()
opt = pp.optim.LM(model, strategy=pp.optim.strategy.Adaptive(damping=1e-6), weight=W, reject=16)
bad = False
for it in range(4):
    w0, u0 = objectives(model)
    ret = float(opt.step(None))
    w1, u1 = objectives(model)
    print('call %d: documented objective r^T W r %.5f -> %.5f, returned %.5f (= unweighted %.5f, was %.5f), '
          'rejections %d/%d' % (it, w0, w1, ret, u1, u0, opt.reject_count, opt.reject))
    if abs(ret - w1) > 1e-9 or (ret > u0 + 1e-12):
        bad = True
if bad:
    print('FAIL: step() does not report the documented (weighted) objective; trials that decrease it are '
          'rejected until the rejection budget is exhausted and the reported loss increases.')
    sys.exit(1)
print('OK')
