"""IMUPreintegrator.integrate() does not honour its own docstring.

The docstring of integrate() says
  * "This layer supports the input shape with (B, F, H_in), (F, H_in) and (H_in)", and
  * "init_rot: the initial orientation of the IMU state. If not given, the initial state in
     constructor will be used."
On the unchanged code the (F, H) and (H) inputs raise, and an omitted init_rot silently means
the identity rotation (so gravity is removed in the wrong frame when the constructor rotation
is not the identity).
"""
import sys
import torch
import pypose as pp

torch.manual_seed(0)
dtype = torch.float64
F = 5
dt = torch.rand(F, 1, dtype=dtype) * 0.05 + 1e-3
gyro = torch.randn(F, 3, dtype=dtype)
acc = torch.randn(F, 3, dtype=dtype)
R0 = pp.randn_SO3(dtype=dtype)
m = pp.module.IMUPreintegrator(rot=R0).to(dtype)

problems = []
ref = m.integrate(dt[None], gyro[None], acc[None], init_rot=m.rot)
for name, args in [('(F, H)', (dt, gyro, acc)), ('(H)', (dt[0], gyro[0], acc[0]))]:
    try:
        out = m.integrate(*args, init_rot=m.rot)
        n = out['Dp'].shape[-2]
        if not torch.allclose(out['Dp'].reshape(-1, 3), ref['Dp'][0, :n]):
            problems.append(f"{name} input: wrong increments")
    except Exception as ex:
        problems.append(f"{name} input raises {type(ex).__name__}: {str(ex)[:70]}")

a_default = m.integrate(dt[None], gyro[None], acc[None])['a']
a_ctor = ref['a']
a_ident = m.integrate(dt[None], gyro[None], acc[None], init_rot=pp.identity_SO3(1, 1, dtype=dtype))['a']
if not torch.allclose(a_default, a_ctor):
    problems.append("omitted init_rot: gravity-free acceleration differs from the one obtained with the "
                    "constructor rotation by %.3f m/s^2 (equals identity-rotation result: %s)"
                    % (float((a_default - a_ctor).abs().max()), torch.allclose(a_default, a_ident)))

for p in problems:
    print("VIOLATION:", p)
sys.exit(1 if problems else 0)
