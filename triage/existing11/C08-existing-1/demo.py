"""Existing defect: LevenbergMarquardt.step accepts a trial whose loss is NaN and is stuck afterwards.

The accept/reject test is `self.last < self.loss`; with loss = NaN the comparison is False,
so the trial is *accepted* (no rejection was used, let alone `reject` exhausted), the
parameters are left at a point where the model is undefined, and on every later call
`while self.last <= self.loss` is False (NaN <= NaN), so step() makes no trial at all and
keeps returning NaN.  An `inf` trial loss, in contrast, is rejected and restored correctly.

Model: one residual log(theta) - log(0.01) with theta0 = 5.  The (almost undamped) first
trial overshoots to theta < 0 where log() is NaN; a damped step would have reduced the loss.

Run from the root of the checkout:  /venv/bin/python demo.py
"""
import sys, math
import torch
from torch import nn
import pypose as pp

torch.set_default_dtype(torch.float64)


class LogFit(nn.Module):
    def __init__(self):
        super().__init__()
        self.theta = nn.Parameter(torch.tensor([5.0]))

    def forward(self, target):
        return (torch.log(self.theta) - torch.log(target)).unsqueeze(-1)


def main():
    bad = []
    for strategy in (pp.optim.strategy.TrustRegion(radius=1e6),
                     pp.optim.strategy.Adaptive(damping=1e-6)):
        model, target = LogFit(), torch.tensor([0.01])
        optimizer = pp.optim.LM(model, strategy=strategy, reject=16)
        loss0 = float(model(target).square().sum())
        name = type(strategy).__name__
        for call in range(4):
            theta0 = model.theta.detach().clone()
            ret = float(optimizer.step(target))
            print('%-11s call %d: returned %s, reject_count %d of 16, theta %s -> %s' % (name,
                  call, ret, optimizer.reject_count, theta0.tolist(), model.theta.tolist()))
            if math.isnan(ret) or not ret <= loss0:
                bad.append('%s call %d: step() returned %s (loss before the run %.6f) after using '
                           'only %d of 16 rejections; theta = %s' % (name, call, ret, loss0,
                           optimizer.reject_count, model.theta.tolist()))
    if bad:
        print('\nFAIL: LM accepted a trial with a NaN loss instead of rejecting and restoring it, '
              'and never recovers:')
        print('\n'.join('  ' + b for b in bad))
        sys.exit(1)
    print('\nOK')


if __name__ == '__main__':
    main()
