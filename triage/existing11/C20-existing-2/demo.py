# ReduceToBason.step keeps a reference to the caller's loss tensor as its baseline
# (self.last = loss).  If the caller re-uses one tensor for the loss and updates it in place,
# the baseline changes with it, every step sees a decrease of exactly 0, and the stepper
# quits on "patience" although the loss halves at every step.
import sys, torch
from pypose.utils import ReduceToBason

def run(inplace):
    stepper = ReduceToBason(steps=20, patience=3, decreasing=1e-3, tol=1e-9)
    loss, n = torch.tensor(1.0), 0
    while stepper.continual():
        if inplace:
            loss.mul_(0.5)             # loss buffer updated in place
        else:
            loss = loss * 0.5          # fresh tensor every step
        stepper.step(loss)
        n += 1
    return n, stepper.patience_count

fresh = run(False)
same = run(True)
print('loss halves each step, steps=20, patience=3, tol=1e-9')
print('  fresh tensor per step : stopped after', fresh[0], 'steps, patience_count', fresh[1])
print('  same tensor, in place : stopped after', same[0], 'steps, patience_count', same[1])
if same != fresh:
    print('FAIL: same loss history, different stop; the patience rule fired although every '
          'step decreased the loss by 50%')
    sys.exit(1)
print('PASS')
