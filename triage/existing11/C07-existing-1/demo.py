"""C07 existing finding: for a Sim3 group parameter (and a sim3 algebra parameter) the Jacobian used
by GN / LM is not the true Jacobian of the residual in tangent coordinates.  sim3_Jl / sim3_Jl_inv
(pypose/lietensor/operation.py), used by the backward of sim3 Exp and Sim3 Log, are power series in
the adjoint truncated after the 6th / 4th power, which is only valid for tiny tangent vectors.
For ordinary inputs (rotation ~1 rad, translation of a few units, scale ~1.5) the GaussNewton step
therefore is not the least-squares solution of J delta = -R with the true J.
The forward Exp / Log are exact; SO3, SE3 and RxSO3 parameters pass the same check to ~1e-9.
"""
import sys, torch, pypose as pp
from torch import nn
from pypose.optim.functional import modjac

torch.set_default_dtype(torch.float64)
torch.manual_seed(0)


class PoseInv(nn.Module):
    def __init__(self, X):
        super().__init__()
        self.pose = pp.Parameter(X)

    def forward(self, inputs):
        return (self.pose @ inputs).Log().tensor()          # residual shape (4, 7)


def run(make_alg, name):
    X0 = make_alg(torch.tensor([3.0, -2.0, 4.0, 0.4, -0.7, 0.5, 0.4][:make_alg.d])).Exp()
    inputs = make_alg(torch.randn(4, make_alg.d) * torch.tensor([2., 2., 2., .5, .5, .5, .3][:make_alg.d])).Exp()

    def resid(X):
        return (X @ inputs).Log().tensor().reshape(-1)

    h, cols = 1e-6, []
    for k in range(make_alg.d):
        e = torch.zeros(make_alg.d); e[k] = h
        cols.append((resid(make_alg(e).Exp() @ X0) - resid(make_alg(-e).Exp() @ X0)) / (2 * h))
    J, R = torch.stack(cols, 1), resid(X0)
    delta = torch.linalg.pinv(J) @ (-R)
    expect = make_alg(delta).Exp() @ X0

    model = PoseInv(X0.clone())
    Jlib = modjac(model, input=inputs, flatten=True)[:, :make_alg.d]
    pp.optim.GN(model).step(inputs)
    dev = (model.pose.detach().tensor() - expect.tensor()).abs().max().item()
    jerr = (Jlib - J).abs().max().item()
    print('%-5s |J_lib - J_true|_max = %.3e (|J|_max %.2f);  GN step: |delta| = %.3f, '
          'deviation of updated parameter from true-Jacobian step = %.3e' % (name, jerr, J.abs().max(), delta.norm(), dev))
    return dev, jerr


se3 = lambda v: pp.se3(v); se3.d = 6
sim3 = lambda v: pp.sim3(v); sim3.d = 7
dev6, jerr6 = run(se3, 'SE3')
dev7, jerr7 = run(sim3, 'Sim3')
assert dev6 < 1e-6 and jerr6 < 1e-6, 'SE3 reference check failed (demo itself is broken)'
if not (dev7 < 1e-6 and jerr7 < 1e-6):
    print('C07 VIOLATED on unchanged code: the GN step of a Sim3 parameter is not the solve with the true '
          'tangent-space Jacobian (truncated series in sim3_Jl / sim3_Jl_inv)')
    sys.exit(1)
print('ok')
