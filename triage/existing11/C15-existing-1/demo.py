"""
Existing behaviour (unchanged code): NLS.set_refpoint(state, input, t) hands the user's
state_transition / observation a time of shape (1,) (torch.atleast_1d(t)), whereas forward()
and set_refpoint() with t=None hand them the 0-d clock. A time-dependent f that is written
component-wise (torch.stack of scalar components) therefore works in forward and in
set_refpoint(), but raises in set_refpoint(x, u, t) with an explicit scalar time stamp, so
A, B, C, D, c1, c2 at (x*, u*, t*) cannot be obtained.
Run from the root of the checkout:  /venv/bin/python demo.py
"""
import sys
import torch
import pypose as pp

torch.set_default_dtype(torch.float64)


class Sys(pp.module.NLS):
    def state_transition(self, state, input, t=None):
        x0, x1 = state[0], state[1]
        return torch.stack((x0 + 0.1 * x1 * torch.cos(0.1 * t), x1 + input[0] * torch.sin(x0)))

    def observation(self, state, input, t=None):
        return torch.stack((state[0] * state[1], state[1] + 0.01 * t))


s = Sys()
x, u = torch.tensor([0.3, 1.2]), torch.tensor([0.5])
print("forward at t=0:", s(x, u))
s.set_refpoint()
print("set_refpoint() (clock, t=1) works, A =", s.A.tolist())
try:
    s.set_refpoint(state=x, input=u, t=torch.tensor(1))
    A = s.A
except Exception as e:
    print("WRONG: set_refpoint(state, input, t=torch.tensor(1)) raised %s: %s" % (type(e).__name__, e))
    print("       (f received t of shape (1,) instead of the 0-d time it gets in forward)")
    sys.exit(1)
expect = torch.tensor([[1.0, 0.1 * torch.cos(torch.tensor(0.1))], [0.5 * torch.cos(torch.tensor(0.3)), 1.0]])
assert torch.allclose(A, expect, atol=1e-12), A
print("PASS")
