# StopOnPlateau documents `decreasing` as the RELATIVE loss decrease used to count patience
# steps (and its verbose output prints reduction/loss), but step() compares the ABSOLUTE
# difference optimizer.last - optimizer.loss with it.
import sys, torch, pypose as pp
from pypose.optim.optimizer import _Optimizer
from pypose.optim.scheduler import StopOnPlateau


class Replay(_Optimizer):
    """optimizer stand-in that replays a given loss history"""
    def __init__(self, losses):
        self.losses, self.k = [torch.tensor(l) for l in losses], 0
        self.loss = self.losses[0]

    def step(self):
        self.k += 1
        self.last, self.loss = self.loss, self.losses[self.k]
        return self.loss


def stop_step(losses, **kw):
    opt = Replay(losses)
    sched = StopOnPlateau(opt, **kw)
    while sched.continual():
        sched.step(opt.step())
    return sched.steps

ok = True
# large loss, each step improves by 0.05% (< 0.1% relative) -> documented: plateau after 3 steps
big = [100.0 * (1 - 5e-4) ** k for k in range(12)]
n = stop_step(big, steps=10, patience=3, decreasing=1e-3)
print('loss ~100 shrinking 0.05%/step, decreasing=1e-3, patience=3: stopped after', n, '(documented: 3)')
ok &= n == 3
# small loss, each step halves it (50% relative) -> documented: no plateau, runs to the budget
tiny = [1e-4 * 0.5 ** k for k in range(12)]
n = stop_step(tiny, steps=10, patience=3, decreasing=1e-3)
print('loss 1e-4 halving each step,  decreasing=1e-3, patience=3: stopped after', n, '(documented: 10)')
ok &= n == 10
if not ok:
    print('FAIL: patience is counted on the absolute, not the documented relative, decrease')
    sys.exit(1)
print('PASS')
