"""IMUPreintegrator.integrate documents: 'init_rot (optional): the initial orientation of the IMU
state. If not given, the initial state in constructor will be used.'  The code falls back to the
identity rotation instead, so the gravity compensation of integrate(dt, gyro, acc) ignores the
constructor's rotation."""
import sys
import torch
import pypose as pp

torch.manual_seed(0)
dtype = torch.float64
F = 10
dt = torch.full((1, F, 1), 0.01, dtype=dtype)
gyro = torch.randn(1, F, 3, dtype=dtype)
acc = torch.randn(1, F, 3, dtype=dtype)
r0 = pp.randn_SO3(dtype=dtype)

imu = pp.module.IMUPreintegrator(rot=r0, reset=True).to(dtype)
default = imu.integrate(dt, gyro, acc)                       # init_rot not given
documented = imu.integrate(dt, gyro, acc, init_rot=imu.rot)  # what the docstring promises
identity = imu.integrate(dt, gyro, acc, init_rot=pp.identity_SO3(1, 1, dtype=dtype))

e_doc = (default['Dv'] - documented['Dv']).abs().max().item()
e_id = (default['Dv'] - identity['Dv']).abs().max().item()
print('max |Dv(default) - Dv(init_rot = constructor rot)| = %.6f' % e_doc)
print('max |Dv(default) - Dv(init_rot = identity)|        = %.6f' % e_id)
if not e_doc < 1e-9:
    print('FAIL: integrate() without init_rot compensates gravity with the identity rotation, '
          'not with the constructor rotation as its docstring says')
    sys.exit(1)
print('PASS')
