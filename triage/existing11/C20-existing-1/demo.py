# _Scheduler.state_dict() contains the `continual` wrapper object, which is bound to the
# scheduler it was taken from.  load_state_dict() on another scheduler installs that wrapper,
# so the restored scheduler's continual() reports the SOURCE scheduler's flag, not its own:
# it keeps saying True after its own step budget is exhausted and optimize() never returns.
import sys, torch, pypose as pp
from torch import nn


class PoseInv(nn.Module):
    def __init__(self, *dim):
        super().__init__()
        self.pose = pp.Parameter(pp.randn_SE3(*dim))

    def forward(self, inputs):
        return (self.pose @ inputs).Log().tensor()


torch.manual_seed(0)
inputs = pp.randn_SE3(2, 2)

def make():
    net = PoseInv(2, 2)
    opt = pp.optim.GN(net)
    return opt, pp.optim.scheduler.StopOnPlateau(opt, steps=3, patience=10, decreasing=-1.)

opt1, sched1 = make()
state = sched1.state_dict()            # checkpoint of a fresh / running scheduler (no pickling)

opt2, sched2 = make()
sched2.load_state_dict(state)          # resume in a second scheduler

n = 0
while sched2.continual() and n < 20:   # bounded here; scheduler.optimize() would spin forever
    loss = opt2.step(inputs)
    sched2.step(loss)
    n += 1

print('budget steps=3; restored scheduler: steps =', sched2.steps, ', own flag _continual =',
      sched2._continual, ', continual() =', sched2.continual(), ', loop iterations =', n)
if n > 3 or sched2.continual():
    print('FAIL: continual() of the restored scheduler is still True after the budget was '
          'reached (it reads the flag of the scheduler the state_dict came from)')
    sys.exit(1)
print('PASS')
