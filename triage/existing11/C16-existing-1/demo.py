"""The state carried between calls (reset=False) shares memory with the tensors RETURNED to the
caller: self.pos / self.vel / self.rot are views of the last frame of the returned 'pos' / 'vel' /
'rot', and self.cov is the returned 'cov' object itself.  A caller that post-processes the returned
trajectory in place (re-centring, unit conversion, zeroing) silently rewrites the integrator's
state, so the next chunk no longer continues the stream."""
import sys
import torch
import pypose as pp

torch.manual_seed(0)
dtype = torch.float64
F = 10
dt = torch.full((1, F, 1), 0.01, dtype=dtype)
gyro = torch.randn(1, F, 3, dtype=dtype)
acc = torch.randn(1, F, 3, dtype=dtype)


def new():
    return pp.module.IMUPreintegrator(reset=False).to(dtype)


whole = new()(dt, gyro, acc)

imu = new()
first = imu(dt[:, :5], gyro[:, :5], acc[:, :5])
first['pos'] -= 100.0            # the caller re-centres ITS copy of the first chunk's trajectory
second = imu(dt[:, 5:], gyro[:, 5:], acc[:, 5:])

err = (second['pos'] - whole['pos'][:, 5:]).abs().max().item()
print('second chunk vs one call: max |pos difference| = %.6f' % err)
print('integrator.pos shares storage with the returned tensor:',
      imu.pos.untyped_storage().data_ptr() == second['pos'].untyped_storage().data_ptr())
if not err < 1e-9:
    print('FAIL: editing the tensor returned by call 1 in place changed the state used by call 2 '
          '(the carried state is a view of the returned tensors, not a copy)')
    sys.exit(1)
print('PASS')
