"""retain_ltype leaves traces in PyTorch internals after it has exited.

(a) the first use rewrites torch._functorch.vmap._add_batch_dim.__module__ (an attribute of a
    PyTorch function object) and never puts the old value back;
(b) a nested use (e.g. pp.func.jacrev called inside `with pp.retain_ltype():`) looks the already
    wrapped functions up by wrapper.__module__ / wrapper.__name__, so it installs and 'restores'
    an attribute called `wrapper` in torch._functorch.vmap (and in pypose.lietensor.lietensor)
    which stays there after both contexts have exited.
The three patched functions themselves are restored correctly.
"""
import sys, warnings
warnings.simplefilter('ignore')
import torch
import torch._functorch.vmap as V
import pypose as pp

problems = []
fn = V._add_batch_dim
mod_before = fn.__module__
attrs_before = set(vars(V))

with pp.retain_ltype():
    pass
if fn.__module__ != mod_before:
    problems.append('_add_batch_dim.__module__ was %r before and is %r after `with pp.retain_ltype(): pass`'
                    % (mod_before, fn.__module__))

with pp.retain_ltype():
    with pp.retain_ltype():
        pass
extra = sorted(set(vars(V)) - attrs_before)
if extra:
    problems.append('torch._functorch.vmap gained attribute(s) %s after a nested retain_ltype' % extra)
if V._add_batch_dim is not fn:
    problems.append('_add_batch_dim itself was not restored')

if problems:
    print('retain_ltype did not undo everything it changed in PyTorch internals:')
    for p in problems:
        print('  -', p)
    sys.exit(1)
print('OK')
