"""knn(ref, nbr, k, dim=...) documents `dim` as the dimension holding the point coordinates
(default -1).  For 2-D inputs dim=1 names the same dimension as dim=-1, but the function
applies `dim` to the (N1, N2, D) difference tensor and then again to the (N1, N2) distance
matrix, so dim=1 reduces over the neighbours instead of the coordinates and silently
returns wrong distances / indices (same output shape, no error)."""
import sys
import torch
import pypose as pp

torch.manual_seed(0)
ref, nbr = torch.randn(5, 3, dtype=torch.float64), torch.randn(7, 3, dtype=torch.float64)
a = pp.knn(ref, nbr, k=2, dim=-1)
brute = torch.cdist(ref, nbr).topk(2, dim=-1, largest=False)
assert torch.allclose(a.values, brute.values) and torch.equal(a.indices, brute.indices)
try:
    b = pp.knn(ref, nbr, k=2, dim=1)
except Exception as e:
    print("knn(..., dim=1) raised", type(e).__name__, e)
    sys.exit(1)
print("dim=-1 values:\n", a.values, "\ndim=1 values:\n", b.values)
print("dim=-1 indices:\n", a.indices, "\ndim=1 indices:\n", b.indices)
if not (torch.allclose(a.values, b.values) and torch.equal(a.indices, b.indices)):
    print("FAIL: knn with dim=1 (the same axis as dim=-1 for (N, D) clouds) returns "
          "different distances/indices than dim=-1 and than brute force")
    sys.exit(1)
print("OK")
