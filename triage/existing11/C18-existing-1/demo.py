"""knn_filter(points, k, radius=r) promises, for every retained point (the points with at
least k others within the radius), the mean of itself and its k nearest neighbours.  The
neighbours are searched only among the RETAINED points, so whenever fewer than k+1 points
are retained (a retained point whose in-radius neighbours are themselves rejected, or no
point retained at all) topk(k+1) raises instead of returning a result / an empty cloud."""
import sys
import torch
import pypose as pp

bad = 0
# centre point has 2 others within 1.5, its two neighbours only have 1 -> 1 retained point
pts = torch.tensor([[0., 0.], [1., 0.], [-1., 0.], [50., 50.]])
_, mask = pp.nbr_filter(pts, nbr=2, radius=1.5, return_mask=True)
print("points with >= 2 others within 1.5:", mask.tolist())
try:
    out = pp.knn_filter(pts, k=2, radius=1.5)
    print("knn_filter ->", out)
except Exception as e:
    print("knn_filter(pts, k=2, radius=1.5) raised %s: %s" % (type(e).__name__, e))
    bad += 1

# every point is an outlier -> an empty (0, D) cloud is the only sensible result
pts = torch.tensor([[0., 0.], [10., 0.], [-10., 0.], [50., 50.]])
print("nbr_filter on an all-outlier cloud returns shape",
      tuple(pp.nbr_filter(pts, nbr=1, radius=1.5).shape))
try:
    out = pp.knn_filter(pts, k=1, radius=1.5)
    print("knn_filter ->", out)
except Exception as e:
    print("knn_filter(pts, k=1, radius=1.5) raised %s: %s" % (type(e).__name__, e))
    bad += 1

if bad:
    print("FAIL: knn_filter with a radius raises when fewer than k+1 points are retained")
    sys.exit(1)
print("OK")
