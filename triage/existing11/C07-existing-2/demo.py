"""C07 existing finding (history): LevenbergMarquardt.step(input, target) judges its trials against
`self.loss` cached from the PREVIOUS call instead of the loss of the current (input, target) at the
current parameters (`self.last = self.loss = self.loss if hasattr(self, 'loss') else model.loss(...)`).
If the second call gets another input / target (new batch, new measurement) whose loss is larger than
the cached one, every trial - although it reduces the loss of the current problem - is "rejected" and
undone, damping is inflated `reject` (16) times, and only the 17th, hugely over-damped trial is kept.
A fresh optimizer on the same parameters / same input accepts the first trial, i.e. the documented
damped step with the configured damping.
"""
import sys, torch, pypose as pp
from torch import nn

torch.set_default_dtype(torch.float64)
torch.manual_seed(0)


class Fit(nn.Module):
    def __init__(self, t):
        super().__init__()
        self.t = nn.Parameter(t)

    def forward(self, M):
        return M @ self.t                                    # residual (5,) after target


class Counter(nn.Module):
    def __init__(self):
        super().__init__()
        self.inner, self.n = pp.optim.solver.Cholesky(), 0

    def forward(self, A, b):
        self.n += 1
        return self.inner(A, b)


M1, y1 = torch.randn(5, 3), torch.randn(5)
M2, y2 = torch.randn(5, 3), 10 * torch.randn(5)             # second measurement batch, larger residuals
lam = 1e-3

model, sol = Fit(torch.randn(3)), Counter()
opt = pp.optim.LM(model, solver=sol, strategy=pp.optim.strategy.Constant(damping=lam))
opt.step(M1, y1)
t1 = model.t.detach().clone()
sol.n = 0
loss_before = ((M2 @ t1 - y2) ** 2).sum().item()
opt.step(M2, y2)
t2 = model.t.detach().clone()

A = M2.T @ M2
A.diagonal().clamp_(1e-6, 1e32)
A = A + lam * torch.diag(A.diagonal())
expect = t1 + torch.linalg.solve(A, -(M2.T @ (M2 @ t1 - y2)))
loss_first_trial = ((M2 @ expect - y2) ** 2).sum().item()

fresh = Fit(t1.clone())
pp.optim.LM(fresh, strategy=pp.optim.strategy.Constant(damping=lam)).step(M2, y2)

print('loss of 2nd problem before step %.4f, after the first (documented) trial %.4f -> the trial descends'
      % (loss_before, loss_first_trial))
print('fresh optimizer   : deviation from first-trial step %.2e' % (fresh.t.detach() - expect).abs().max())
print('reused optimizer  : deviation from first-trial step %.2e, solver called %d times in one step()'
      % ((t2 - expect).abs().max(), sol.n))
if sol.n != 1 or (t2 - expect).abs().max() > 1e-8:
    print('VIOLATED on unchanged code: the descending first trial was rejected because it was compared with the '
          'loss cached from the previous call (other input); %d trials were run' % sol.n)
    sys.exit(1)
print('ok')
