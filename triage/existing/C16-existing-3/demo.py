"""Existing issue 3: zero gravity written as the integer 0 (gravity=0) makes every call raise: the gravity buffer
torch.tensor([0, 0, gravity]) becomes an int64 tensor."""
import sys, warnings
warnings.filterwarnings('ignore')
import torch, pypose as pp
torch.manual_seed(0)
dt = torch.rand(1, 3, 1) * 0.05 + 0.01; gyro = torch.randn(1, 3, 3); acc = torch.randn(1, 3, 3)
ref = pp.module.IMUPreintegrator(gravity=0.0, reset=True)(dt, gyro, acc)
try:
    out = pp.module.IMUPreintegrator(gravity=0, reset=True)(dt, gyro, acc)
except Exception as e:
    print('FAIL: gravity=0 (int) raised %s: %s   (gravity=0.0 works)' % (type(e).__name__, e))
    sys.exit(1)
assert torch.allclose(out['pos'], ref['pos'])
print('PASS')
