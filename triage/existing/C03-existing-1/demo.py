"""Existing violation (unchanged code): identity_() is only implemented for SO3.

LieTensor.identity_() is documented as "Inplace set the LieTensor to identity. ... The
translation part, if there is, is set to zeros, while the rotation part is set to identity
quaternion", i.e. it is meant for every group type, but SE3 / Sim3 / RxSO3 (and all Lie
algebra types) raise NotImplementedError.

Run:  cd <checkout> && /venv/bin/python demo.py
"""
import sys, warnings
import torch, pypose as pp
warnings.filterwarnings("ignore")
torch.manual_seed(0)
bad = []
for name in ("SO3", "SE3", "Sim3", "RxSO3"):
    X = getattr(pp, "randn_" + name)(2, 3)
    Y = getattr(pp, "randn_" + name)(2, 3)
    try:
        out = X.identity_()
        I = getattr(pp, "identity_" + name)(2, 3)
        ok = out is X and torch.equal(X.tensor(), I.tensor()) and torch.allclose((X @ Y).tensor(), Y.tensor())
        print(f"{name}: identity_() ->", "ok" if ok else "WRONG VALUE")
        if not ok:
            bad.append(name)
    except Exception as e:
        print(f"{name}: identity_() raised {type(e).__name__}: {e}")
        bad.append(name)
if bad:
    print("identity_() does not produce the neutral element for:", bad)
    sys.exit(1)
print("OK")
