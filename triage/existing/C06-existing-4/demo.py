"""The patching done by retain_ltype is not fully undone on (normal) exit:
 (a) every entry permanently rewrites the __module__ attribute of the PyTorch function
     torch._functorch.vmap._add_batch_dim (defined in torch._functorch.predispatch);
 (b) a nested entry (e.g. pp.func.jacrev called inside `with pp.retain_ltype()`) leaves a
     new attribute `wrapper` behind on the module torch._functorch.vmap (and on
     pypose.lietensor.lietensor)."""
import sys, warnings, torch, pypose as pp
import torch._functorch.vmap as V
warnings.simplefilter('ignore')
bad = []
f = V._add_batch_dim
mod_before, attrs_before = f.__module__, set(vars(V))
with pp.retain_ltype():
    pass
if f.__module__ != mod_before:
    bad.append(f"_add_batch_dim.__module__ changed from {mod_before!r} to {f.__module__!r} after a plain with-block")
X, p = pp.randn_SE3(2), torch.randn(2, 3)
with pp.retain_ltype():
    pp.func.jacrev(lambda X, p: X.Act(p))(X, p)
new = set(vars(V)) - attrs_before
if new:
    bad.append(f"torch._functorch.vmap gained attributes {sorted(new)} after a nested retain_ltype block")
if V._add_batch_dim is not f:
    bad.append("_add_batch_dim itself not restored")
for b in bad: print("WRONG:", b)
sys.exit(1 if bad else 0)
