"""LM accepts a trial whose loss is NaN (unchanged code).

r(x) = log(w * x) is a smooth residual model whose Gauss-Newton step from x = 5 overshoots to a
negative x, where the loss is NaN.  LevenbergMarquardt.step tests `self.last < self.loss`, which is
False for NaN, so the trial is accepted on the first attempt although 16 rejections are available:
the parameters are left at a point with NaN loss and every later step stays NaN.
"""
import sys, math, torch, pypose as pp
from torch import nn

torch.set_default_dtype(torch.float64)


class Log(nn.Module):
    def __init__(self):
        super().__init__()
        self.x = nn.Parameter(torch.tensor([5.0]))

    def forward(self, w):
        return torch.log(w * self.x)


w = torch.tensor([[1.0], [2.0]])
model = Log()
opt = pp.optim.LM(model, strategy=pp.optim.strategy.Adaptive(damping=1e-6), reject=16)
before = model(w).square().sum().item()
loss = opt.step(w).item()
print("loss before %.6f, step() returned %s with %d of %d rejections used, x = %s"
      % (before, loss, opt.reject_count, opt.reject, model.x.tolist()))
if not loss <= before:
    print("VIOLATED: the step was accepted although its loss is not <= the previous loss "
          "and the rejections were not exhausted")
    sys.exit(1)
print("OK")
