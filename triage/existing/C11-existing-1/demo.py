"""mat2Sim3 / mat2RxSO3 / from_matrix fail for valid inputs with more than one batch dimension."""
import sys, warnings, torch, pypose as pp
warnings.simplefilter("ignore")
torch.manual_seed(0)
bad = []
for name, gen, conv in [("Sim3", pp.randn_Sim3, lambda m: pp.mat2Sim3(m)),
                        ("RxSO3", pp.randn_RxSO3, lambda m: pp.mat2RxSO3(m)),
                        ("Sim3 via from_matrix", pp.randn_Sim3, lambda m: pp.from_matrix(m, pp.Sim3_type)),
                        ("SE3", pp.randn_SE3, lambda m: pp.mat2SE3(m)),
                        ("SO3", pp.randn_SO3, lambda m: pp.mat2SO3(m))]:
    X = gen(2, 3, dtype=torch.float64)
    try:
        Y = conv(X.matrix())
        err = (Y.matrix() - X.matrix()).abs().max().item()
        print("%-22s lshape (2, 3): ok, matrix err %.1e" % (name, err))
    except Exception as e:
        print("%-22s lshape (2, 3): %s: %s" % (name, type(e).__name__, e))
        bad.append(name)
if bad:
    print("FAIL: valid batched (2, 3) inputs raise for:", bad)
    sys.exit(1)
print("PASS")
