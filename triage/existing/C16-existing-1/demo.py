"""Existing issue 1: init_state in the DOCUMENTED shape (B, H_in) does not work for B > 1.
forward()/predict() document init_state 'pos','rot','vel' with shape (B, H_in); predict composes them with
(B, F, H) increments by plain broadcasting, so (B,3)/(B,4) line up with the FRAME axis instead of the batch axis."""
import sys, warnings
warnings.filterwarnings('ignore')
import torch, pypose as pp
torch.manual_seed(0)
B, F = 2, 5
dt = torch.rand(B, F, 1) * 0.05 + 0.01; gyro = torch.randn(B, F, 3); acc = torch.randn(B, F, 3)
r0 = pp.randn_SO3(B); p0 = torch.randn(B, 3); v0 = torch.randn(B, 3)
m = pp.module.IMUPreintegrator(reset=True)
good = m(dt, gyro, acc, init_state={'pos': p0[:, None], 'rot': r0[:, None], 'vel': v0[:, None]})   # (B,1,H): works
try:
    out = m(dt, gyro, acc, init_state={'pos': p0, 'rot': r0, 'vel': v0})                           # documented (B,H)
except Exception as e:
    print('FAIL: init_state with the documented shape (B,H_in), B=2, F=5 raised %s: %s' % (type(e).__name__, e))
    sys.exit(1)
d = (out['pos'] - good['pos']).abs().max().item()
if out['pos'].shape != good['pos'].shape or d > 1e-5:
    print('FAIL: documented (B,H_in) init_state gives a different result than (B,1,H_in): shape', tuple(out['pos'].shape), 'diff', d)
    sys.exit(1)
print('PASS')
