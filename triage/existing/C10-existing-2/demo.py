"""Existing behaviour (unchanged code): pypose.sparse.ops._sparse_csr_mm does not return the dense
product for most layout pairs that involve a block layout; it raises TypeError/RuntimeError:
  - csr/csc x bsr/bsc (and dense x anything sparse): the fall-through branch builds `zero` with a
    trailing comma (a 1-tuple) and passes it to torch.addmm -> TypeError;
  - bsc x bsr: `raise NotImplemented` -> TypeError (NotImplemented is not an exception);
  - bsr x bsr / bsr x csr / bsr x csc / bsc x *: torch.zeros(layout=bsr/bsc) / addmm unsupported.
Only bsr x bsc, csr/csc x csr/csc and (bsr|csr|csc) x dense work.
Also bsr_bsc_matmul asserts that it accepts CSR x CSC input and any index dtype, but fails for
CSR x CSC (values are 1-D) and for int32 indices (scatter_add_ needs int64).
"""
import sys, warnings
import torch
from pypose.sparse.ops import _sparse_csr_mm, bsr_bsc_matmul
warnings.filterwarnings('ignore')
torch.manual_seed(0)
D1 = torch.randn(4, 4) * (torch.rand(4, 4) > 0.5)
D2 = torch.randn(4, 4) * (torch.rand(4, 4) > 0.5)
conv = {'bsr': lambda D: D.to_sparse_bsr((2, 2)), 'bsc': lambda D: D.to_sparse_bsc((2, 2)),
        'csr': lambda D: D.to_sparse_csr(), 'csc': lambda D: D.to_sparse_csc()}
bad = []
for l1 in conv:
    for l2 in conv:
        try:
            y = _sparse_csr_mm(conv[l1](D1), conv[l2](D2))
            err = (y.to_dense() - D1 @ D2).abs().max().item()
            print('%s x %s: ok, max err %.1e' % (l1, l2, err))
            if err > 1e-5: bad.append((l1, l2, 'wrong result'))
        except Exception as e:
            print('%s x %s: %s: %s' % (l1, l2, type(e).__name__, str(e).splitlines()[0][:90]))
            bad.append((l1, l2, type(e).__name__))

def direct(name, a, c):
    try:
        err = (bsr_bsc_matmul(a, c).to_dense() - D1 @ D2).abs().max().item()
        print('bsr_bsc_matmul %s: ok, max err %.1e' % (name, err))
    except Exception as e:
        msg = [l for l in str(e).splitlines() if 'Error' in l or 'xpected' in l or 'ndex' in l]
        print('bsr_bsc_matmul %s: %s: %s' % (name, type(e).__name__, (msg or [''])[-1][:100]))
        bad.append(('bsr_bsc_matmul', name, type(e).__name__))
direct('csr x csc', D1.to_sparse_csr(), D2.to_sparse_csc())
a, c = conv['bsr'](D1), conv['bsc'](D2)
a32 = torch.sparse_bsr_tensor(a.crow_indices().int(), a.col_indices().int(), a.values(), size=a.shape)
c32 = torch.sparse_bsc_tensor(c.ccol_indices().int(), c.row_indices().int(), c.values(), size=c.shape)
direct('bsr x bsc with int32 indices', a32, c32)
if bad:
    print('\n%d layout pairs / inputs do not yield the dense product:' % len(bad), bad)
    sys.exit(1)
