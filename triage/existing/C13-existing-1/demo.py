"""EKF / UKF in the library's default dtype (float32): with a vague prior (P ~ 1e3) and
accurate sensors / small process noise (Q, R ~ 1e-3) - six orders of magnitude apart,
inside the stated range - one step on a LINEAR system returns a covariance that is
indefinite and asymmetric far beyond rounding of the returned values: the most negative
eigenvalue is larger in magnitude than the whole true posterior covariance.
Cause: posterior computed as (I - K C) P^-  (EKF) resp.  P^- - K Py K^T  (UKF) in float32,
a difference of O(1e4) terms whose result is O(1e-3); no symmetrisation / Joseph form.
"""
import sys, torch, pypose as pp

class Lin(pp.module.NLS):
    def __init__(s, A, B, C, D):
        super().__init__(); s.m = (A, B, C, D)
    def state_transition(s, x, u, t=None): return x @ s.m[0].mT + u @ s.m[1].mT
    def observation(s, x, u, t=None): return x @ s.m[2].mT + u @ s.m[3].mT

def spd(n, scale):
    M = torch.randn(n, n); return (M @ M.mT / n + 0.1 * torch.eye(n)) * scale

bad = []
for name in ('EKF', 'UKF'):
    for seed in range(50):
        torch.manual_seed(seed)
        n, p, m = 3, 2, 3
        A, B, C, D = torch.randn(n, n), torch.randn(n, p), torch.randn(m, n), torch.randn(m, p)
        x, y, u = torch.randn(n), torch.randn(m), torch.randn(p)
        P, Q, R = spd(n, 1e3), spd(n, 1e-3), spd(m, 1e-3)
        xe, Pe = getattr(pp.module, name)(Lin(A, B, C, D))(x, y, u, P, Q, R)
        # exact posterior covariance in float64
        Ad, Cd, Pd, Qd, Rd = (t.double() for t in (A, C, P, Q, R))
        Pm = Ad @ Pd @ Ad.mT + Qd; S = Cd @ Pm @ Cd.mT + Rd
        Pr = Pm - Pm @ Cd.mT @ torch.linalg.inv(S) @ Cd @ Pm
        true_scale = torch.linalg.eigvalsh(Pr).max().item()
        lmin = torch.linalg.eigvalsh((Pe + Pe.mT).double() / 2).min().item()
        asym = (Pe - Pe.mT).abs().max().item()
        if lmin < -0.5 * true_scale or asym > 0.5 * true_scale:
            bad.append((name, seed, lmin, asym, true_scale))
for b in bad[:10]:
    print('%s case %d: min eigenvalue %.3e, asymmetry %.3e, but largest eigenvalue of the '
          'true posterior covariance is only %.3e' % b)
if bad:
    print('FAIL: %d of 100 float32 steps return a covariance that is not symmetric PSD '
          '(violation larger than half the true posterior scale)' % len(bad))
    sys.exit(1)
print('OK')
