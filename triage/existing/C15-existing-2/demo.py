"""NLS.set_refpoint() with t=None stores the live clock buffer as reference time.

After set_refpoint() at clock t*, a further call of the system advances the clock and with
it the stored reference time, so A, B, C, D silently become the Jacobians at t*+1 (while the
cached f(x*,u*,t*), g(x*,u*,t*) used by c1/c2 stay at t*), although set_refpoint was not
called again.
"""
import sys, torch, pypose as pp
from torch.autograd.functional import jacobian
torch.set_default_dtype(torch.float64)

def f(x, u, t):
    return torch.stack([x[0] * torch.cos(0.3 * t) + x[1] * u[0],
                        x[1] * torch.sin(0.3 * t + 0.2) + 0.1 * t])
def g(x, u, t):
    return x * (1 + t) + u[0]

class S(pp.module.NLS):
    def state_transition(self, s, i, t=None): return f(s, i, t.squeeze())
    def observation(self, s, i, t=None): return g(s, i, t.squeeze())

s = S()
x, u = torch.tensor([0.4, -0.7]), torch.tensor([0.9])
x1, _ = s(x, u)
s.set_refpoint()                      # reference point (x, u, t* = 1)
tstar = torch.tensor(float(int(s.systime)))
A_ref = jacobian(lambda v: f(v, u, tstar), x)
C_ref = jacobian(lambda v: g(v, u, tstar), x)
e0 = max((s.A - A_ref).abs().max().item(), (s.C - C_ref).abs().max().item())
s(x1, u)                              # keep simulating; no new set_refpoint
e1 = max((s.A - A_ref).abs().max().item(), (s.C - C_ref).abs().max().item())
# first-order model around (x*, u*, t*) evaluated a small step away
d = 1e-3 * torch.tensor([1.0, -1.0])
model_err = (s.A @ (x + d) + s.B @ u + s.c1 - f(x + d, u, tstar)).abs().max().item()
print("t* = %d; error of A, C right after set_refpoint(): %.3g; after one more call: %.3g" % (int(tstar), e0, e1))
print("affine model error at |dx| = 1e-3 (should be ~1e-6, second order): %.3g" % model_err)
print("stored reference time is the clock buffer itself:", s._ref_t is s._t, "-> now", int(s._ref_t))
if e1 > 1e-9 or model_err > 1e-5:
    print("FAIL: A/C no longer equal the Jacobians at the reference point set by set_refpoint(); "
          "the affine model error is first order")
    sys.exit(1)
print("OK")
