"""randn_like / identity_like are documented to return a LieTensor with the dtype (and
device) of the input ("pp.randn_like(x) is equivalent to pp.randn_SO3(x.lshape,
dtype=x.dtype, layout=x.layout, device=x.device)"), but the result is always float32."""
import sys, warnings, torch, pypose as pp
warnings.simplefilter('ignore')
bad = []
for make in (pp.randn_SO3, pp.randn_se3, pp.randn_Sim3):
    x = make(2, 3, dtype=torch.float64)
    for fn in (pp.randn_like, pp.identity_like):
        y = fn(x)
        if y.dtype != x.dtype or y.lshape != x.lshape or y.ltype is not x.ltype:
            bad.append(f"{fn.__name__}({type(x.ltype).__name__} float64) -> dtype {y.dtype}, lshape {tuple(y.lshape)}")
for b in bad: print("WRONG:", b)
sys.exit(1 if bad else 0)
