"""Existing violation of C04 on the unchanged code: SE3 Exp / Log gradients at a tiny rotation.

calcQ (the translation/rotation coupling block of se3_Jl and se3_Jl_inv) switches from
its closed form to the Taylor series only when theta <= eps.  For theta just above eps the
closed-form coefficient (theta^2 + 2 cos(theta) - 2) / (2 theta^4) is pure cancellation
noise of size ~eps/theta^4, and the block it multiplies is only O(theta^2 |tau|), so the
Q block gets an absolute error of about eps |tau| / theta^2 -- O(1e-2 |tau|) for theta a few
eps.  The forward pass is unaffected, so autograd no longer returns the Jacobian of the program.

Reference: the Jacobian at theta = 0 exactly (Taylor branch); the true Jacobian at theta ~ 1e-15
differs from it by O(theta).  Tolerance 1e-9 (float64), 3.5e-4 = sqrt(eps) (float32).
"""
import sys, warnings
import torch
import pypose as pp
from torch.autograd.functional import jacobian

warnings.filterwarnings('ignore')
p = [0.3, -0.2, 0.5]


def jac_exp(x, dt):
    q = torch.tensor(p, dtype=dt)
    return jacobian(lambda a: pp.se3(a).Exp().Act(q), x.to(dt)).double()


def jac_log(x, dt):
    X = pp.se3(x.to(dt)).Exp().detach()
    J = jacobian(lambda Y: pp.SE3(Y).Log().tensor(), X.tensor())
    return J[..., :6].double()


bad = []
for dt, th, tol in [(torch.float64, 5e-16, 1e-9), (torch.float64, 5e-15, 1e-9),
                    (torch.float32, 2e-7, 3.5e-4), (torch.float32, 3e-6, 3.5e-4)]:
    x0 = torch.tensor([1., 2., 3., 0., 0., 0.], dtype=torch.float64)
    x = torch.tensor([1., 2., 3., th, 0.3 * th, -0.5 * th], dtype=torch.float64)
    for name, jac in [('Exp', jac_exp), ('Log', jac_log)]:
        err = (jac(x, dt) - jac(x0, torch.float64)).abs().max().item()
        flag = err > tol
        print(f'{str(dt):14s} theta={th:.0e}  SE3 {name}: |J(theta) - J(0)| = {err:.3e}  (tol {tol:.1e}) {"WRONG" if flag else "ok"}')
        if flag:
            bad.append((dt, th, name, err))

if bad:
    print('\nFAIL: autograd Jacobian of SE3 Exp/Log is wrong for rotation angles just above machine eps')
    sys.exit(1)
print('PASS')
