"""NLS linearisation with a batched reference state: c1/c2 have the wrong shape or raise."""
import sys, torch, pypose as pp
torch.set_default_dtype(torch.float64)

class S(pp.module.NLS):
    def state_transition(self, s, i, t=None): return torch.sin(s) * i.sum(-1, keepdim=True) + s ** 2
    def observation(self, s, i, t=None): return s * 2

bad = []
for nb in (1, 4):
    torch.manual_seed(nb)
    m = S()
    x, u = torch.randn(nb, 3), torch.randn(nb, 2)
    m.set_refpoint(state=x, input=u, t=torch.tensor(0))
    fx = m.state_transition(x, u, torch.tensor(0))
    try:
        c1 = m.c1
        print("batch %d: A %s, B %s, f %s, c1 %s" % (nb, tuple(m.A.shape), tuple(m.B.shape), tuple(fx.shape), tuple(c1.shape)))
        if c1.shape != fx.shape:
            bad.append("batch %d: c1 has shape %s but f(x*,u*,t*) has shape %s" % (nb, tuple(c1.shape), tuple(fx.shape)))
    except Exception as e:
        bad.append("batch %d: reading c1 raised %s: %s" % (nb, type(e).__name__, e))
if bad:
    print("FAIL: the affine model cannot reproduce f(x*,u*,t*) for a batched reference point:")
    for b in bad: print("  - " + b)
    sys.exit(1)
print("OK")
