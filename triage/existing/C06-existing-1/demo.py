"""cumprod / cummul / cumops along a batch dimension of extent 0 (empty batch) raise
ValueError('math domain error') instead of returning an empty LieTensor."""
import sys, warnings, torch, pypose as pp
warnings.simplefilter('ignore')
bad = []
for name, call in [
    ("randn_SO3(0).cumprod(0)",        lambda: pp.randn_SO3(0).cumprod(0)),
    ("randn_SE3(2,0).cummul(1)",       lambda: pp.randn_SE3(2, 0).cummul(1)),
    ("pp.cumops(randn_SE3(0),0,a@b)",  lambda: pp.cumops(pp.randn_SE3(0), 0, lambda a, b: a @ b)),
    ("randn_SE3(0,2).cumprod(0)",      lambda: pp.randn_SE3(0, 2).cumprod(0)),
]:
    try:
        out = call()
        print(name, "->", tuple(out.shape))
    except Exception as e:
        bad.append(f"{name} raised {type(e).__name__}: {e}")
for b in bad: print("WRONG:", b)
sys.exit(1 if bad else 0)
