"""Existing violation (unchanged code): identity constructors reject a tuple / list size.

The docstrings of pp.identity_SO3 / identity_SE3 / identity_Sim3 / identity_RxSO3 (and the
Lie-algebra versions) say about lsize: "Can be a variable number of arguments or a collection
like a list or tuple."  The randn_* constructors accept both forms, the identity_*
constructors raise TypeError for the collection form.

Run:  cd <checkout> && /venv/bin/python demo.py
"""
import sys, warnings
import torch, pypose as pp
warnings.filterwarnings("ignore")
bad = []
for name in ("SO3", "SE3", "Sim3", "RxSO3", "so3", "se3", "sim3", "rxso3"):
    ref = getattr(pp, "identity_" + name)(2, 3)
    assert getattr(pp, "randn_" + name)((2, 3)).shape == ref.shape     # randn accepts the tuple form
    for size in ((2, 3), [2, 3], torch.Size([2, 3])):
        try:
            I = getattr(pp, "identity_" + name)(size)
            if I.shape != ref.shape or not torch.equal(I.tensor(), ref.tensor()):
                bad.append((name, size, "wrong result %s" % (tuple(I.shape),)))
        except Exception as e:
            bad.append((name, size, "%s: %s" % (type(e).__name__, str(e)[:60])))
for b in bad:
    print("identity_%s(%r) -> %s" % b)
if bad:
    print("%d failures: the documented collection form of lsize is not accepted" % len(bad))
    sys.exit(1)
print("OK")
