"""
Existing behaviour (unchanged code): ReduceToBason.step keeps a reference to the
caller's loss tensor (self.last = loss).  If the caller re-uses one buffer for the loss
and updates it in place, `last` changes with it, every step looks like 'no decrease'
and the stepper stops after `patience` steps although the loss halves at each step.
"""
import sys, torch
import pypose as pp

stepper = pp.utils.ReduceToBason(steps=10, patience=2, decreasing=1e-3, tol=1e-12)
loss = torch.tensor(1.0)
values = []
while stepper.continual():
    loss.mul_(0.5)                         # in-place update of the same loss buffer
    values.append(loss.item())
    stepper.step(loss)
print('losses', values)
print('stopped after', stepper.steps, 'steps, patience_count', stepper.patience_count)
if stepper.steps != 10:
    print('VIOLATION: every step halved the loss (relative decrease 1.0 >> 1e-3), none is '
          'below tol, yet the stepper stopped on patience after %d steps' % stepper.steps)
    sys.exit(1)
print('OK')
