"""Triggs raises for every kernel whose first derivative is constant (rho'' == 0 identically).

The property promises that, where rho'' is not positive, Triggs coincides with FastTriggs.
For the built-in Scale kernel and for any user-defined linear kernel the unchanged library
raises RuntimeError inside Triggs.compute_grads instead of returning a result.
"""
import sys, torch
from pypose.optim import kernel as ppok, corrector as ppoc

class Linear(torch.nn.Module):          # user kernel with rho'' == 0
    def forward(self, x):
        return 0.7 * x

torch.manual_seed(0)
R, J = torch.randn(5, 3), torch.randn(15, 4)
bad = []
for kernel in (ppok.Scale(0.5), Linear()):
    name = type(kernel).__name__
    Rf, Jf = ppoc.FastTriggs(kernel)(R=R, J=J)
    try:
        Rt, Jt = ppoc.Triggs(kernel)(R=R, J=J)
    except Exception as e:
        print('%s: Triggs raised %s: %s' % (name, type(e).__name__, e))
        bad.append(name)
        continue
    if not (torch.allclose(Rt, Rf) and torch.allclose(Jt, Jf)):
        print('%s: Triggs differs from FastTriggs although rho\'\' == 0' % name)
        bad.append(name)
    else:
        print('%s: ok' % name)
if bad:
    print('FAILED: Triggs gives no result for kernels with zero curvature:', bad)
    sys.exit(1)
print('PASSED')
