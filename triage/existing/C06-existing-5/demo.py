"""euler2SO3 on a non-contiguous (permuted) batch of Euler angles raises RuntimeError from
.view(-1, 3) although the last dimension is intact; torch.cat(tensors=[...]) with the
LieTensors passed by keyword raises IndexError inside LieTensor.__torch_function__."""
import sys, warnings, torch, pypose as pp
warnings.simplefilter('ignore')
bad = []
e = torch.randn(2, 3, 3, dtype=torch.float64)
try:
    got = pp.euler2SO3(e.transpose(0, 1))
    ref = pp.euler2SO3(e.transpose(0, 1).contiguous())
    if not torch.allclose(got.tensor(), ref.tensor()): bad.append("euler2SO3 wrong on a permuted view")
except Exception as ex:
    bad.append(f"euler2SO3(permuted view of shape (3,2,3)) raised {type(ex).__name__}: {str(ex)[:80]}")
a, b = pp.randn_SO3(2), pp.randn_SO3(2)
try:
    out = torch.cat(tensors=[a, b])
    if not (isinstance(out, pp.LieTensor) and out.ltype is pp.SO3_type): bad.append("cat(tensors=...) lost ltype")
except Exception as ex:
    bad.append(f"torch.cat(tensors=[SO3, SO3]) raised {type(ex).__name__}: {ex}")
for b_ in bad: print("WRONG:", b_)
sys.exit(1 if bad else 0)
