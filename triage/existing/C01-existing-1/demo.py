"""Existing violation of C01 on the unchanged tree: sim3 Exp, translation block.
For eps < |log-scale| << sqrt(eps) the coefficient C = (exp(sigma) - 1) / sigma of
W = A*K + B*K^2 + C*I (rxso3_Ws) is computed by subtracting 1 from exp(sigma), which has
only ~eps/|sigma| relative accuracy.  The translation of Exp(x) is then wrong by 0.1 % .. 30 %,
for ANY rotation magnitude (0, 1e-3, 1 rad, 4 rad), in float32 and float64."""
import sys, warnings
import torch
warnings.filterwarnings("ignore")
import pypose as pp


def hat_sim3(x):
    tau, phi, sigma = x[..., :3], x[..., 3:6], x[..., 6]
    M = torch.zeros(x.shape[:-1] + (4, 4), dtype=torch.float64)
    M[..., 0, 1], M[..., 0, 2] = -phi[..., 2], phi[..., 1]
    M[..., 1, 0], M[..., 1, 2] = phi[..., 2], -phi[..., 0]
    M[..., 2, 0], M[..., 2, 1] = -phi[..., 1], phi[..., 0]
    for i in range(3):
        M[..., i, i] = sigma
    M[..., :3, 3] = tau
    return M


def main():
    torch.manual_seed(0)
    worst_ratio = 0.0
    for dt in (torch.float32, torch.float64):
        eps = torch.finfo(dt).eps
        tol = 10 * eps ** 0.5           # generous "small multiple of sqrt(eps)" for the translation block
        for rot in (0.0, 1e-3, 1.0, 4.0):
            for k in (1.5, 3.3, 10.7, 101.3):
                d = torch.randn(3, dtype=torch.float64)
                d = d / d.norm() * rot
                x = torch.cat([torch.tensor([1., 2., 3.], dtype=torch.float64), d,
                               torch.tensor([k * eps], dtype=torch.float64)]).to(dt)
                M = pp.sim3(x).Exp().matrix().double()
                ref = torch.linalg.matrix_exp(hat_sim3(x.double()))
                terr = ((M[:3, 3] - ref[:3, 3]).norm() / ref[:3, 3].norm()).item()
                flag = 'BAD' if terr > tol else 'ok '
                worst_ratio = max(worst_ratio, terr / tol)
                print(f"{flag} {str(dt):14s} |rotation|={rot:<6g} log-scale={k:>6.1f}*eps  "
                      f"rel. translation error {terr:.2e} (tolerance {tol:.1e})")
    if worst_ratio > 1:
        print(f"FAIL: translation of Exp(sim3) is off by up to {worst_ratio:.0f}x the tolerance "
              "when eps < |log-scale| << sqrt(eps), for every rotation magnitude")
        sys.exit(1)
    print("PASS")


if __name__ == '__main__':
    main()
