"""Existing behaviour: a weight that is broadcastable to the residual but has an interior batch dimension
of size 1 (shape M*1*R*R for a residual B*M*N*R) is silently paired with the wrong residual items."""
import sys, torch, pypose as pp
from torch import nn
import pypose.optim.solver as ppos
torch.set_default_dtype(torch.float64)
torch.manual_seed(0)
B, M, N, R = 2, 2, 3, 2

class Lin(nn.Module):
    def __init__(self):
        super().__init__(); self.x = nn.Parameter(torch.randn(M, N, R))
    def forward(self, a):
        return self.x * a - 1.0           # (B, M, N, R)

class Rec(nn.Module):
    def __init__(self):
        super().__init__(); self.inner = ppos.PINV()
    def forward(self, A, b):
        self.A, self.b = A.clone(), b.clone(); return self.inner(A, b)

a = torch.randn(B, M, N, R)
w = torch.randn(M, 1, R, R); w = w @ w.mT + torch.eye(R)        # one SPD matrix per m, shared by all n
model, rec = Lin(), Rec()
r = (model.x.detach() * a - 1.0)
pp.optim.GN(model, solver=rec).step(a, weight=w)
expected_b = -(w.expand(B, M, N, R, R) @ r.unsqueeze(-1)).reshape(-1, 1)   # broadcasting semantics
err = (rec.b - expected_b).abs().max().item()
print('right-hand side -W R seen by the solver vs broadcasting semantics: max abs diff %.3e' % err)
if err > 1e-9:
    print('FAIL: weight[m, 0] is not applied to residual items (b, m, n); the M blocks are tiled cyclically')
    sys.exit(1)
print('PASS')
