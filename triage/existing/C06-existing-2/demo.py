"""LieTensor.add / pp.add / `x + delta` (a binary LieTensor op) does not follow PyTorch
broadcasting of the lshape dimensions: whenever the LieTensor operand itself has to be
broadcast the call raises RuntimeError, although Exp(delta) * x broadcasts fine."""
import sys, warnings, torch, pypose as pp
warnings.simplefilter('ignore')
torch.manual_seed(0)
bad = []
cases = [(pp.randn_SE3(2, 1, dtype=torch.float64), torch.randn(3, 6, dtype=torch.float64), pp.se3),
         (pp.randn_SE3(3, dtype=torch.float64),    torch.randn(2, 3, 6, dtype=torch.float64), pp.se3),
         (pp.randn_SO3(dtype=torch.float64),       torch.randn(2, 3, dtype=torch.float64), pp.so3),
         (pp.randn_se3(3, dtype=torch.float64),    torch.randn(2, 3, 6, dtype=torch.float64), None)]
for x, d, alg in cases:
    ref = (alg(d).Exp() * x) if alg is not None else pp.se3(x.tensor() + d)
    try:
        got = x + d
        ok = got.shape == ref.shape and torch.allclose(got.tensor(), ref.tensor(), atol=1e-12)
        if not ok: bad.append(f"lshape {tuple(x.lshape)} + {tuple(d.shape)}: wrong result")
    except Exception as e:
        bad.append(f"{type(x.ltype).__name__} lshape {tuple(x.lshape)} + tensor {tuple(d.shape)} "
                   f"(expected lshape {tuple(ref.lshape)}) raised {type(e).__name__}: {str(e)[:90]}")
for b in bad: print("WRONG:", b)
sys.exit(1 if bad else 0)
