"""Existing behaviour: a weight given in a documented shape (N*R*R / M*N*R*R) but as a strided view
(every second matrix of a bigger covariance stack, or a transposed batch) makes GN/LM.step raise."""
import sys, torch, pypose as pp
from torch import nn
torch.set_default_dtype(torch.float64)
torch.manual_seed(0)

class Fit(nn.Module):
    def __init__(self):
        super().__init__(); self.T = pp.Parameter(pp.randn_SE3(3))
    def forward(self, pts):
        return self.T.Act(pts)            # (2, 3, 3)

a = torch.randn(4, 3, 3, 3)
stack = a @ a.mT + torch.eye(3)           # SPD, (4, 3, 3, 3)
views = {'every second block  stack[::2]            (2,3,3,3)': stack[::2],
         'transposed batch    stack[:3,:2].mT-batch (2,3,3,3)': stack[:3, :2].transpose(0, 1)}
bad = False
for name, w in views.items():
    for Opt in (pp.optim.GN, pp.optim.LM):
        ref, model = Fit(), Fit()
        model.load_state_dict(ref.state_dict())
        pts = torch.randn(2, 3, 3)
        Opt(ref).step(pts, weight=w.contiguous())
        try:
            Opt(model).step(pts, weight=w)
            same = torch.allclose(model.T.detach().tensor(), ref.T.detach().tensor())
            print(Opt.__name__, name, 'ok, same result as contiguous copy:', same); bad |= not same
        except Exception as e:
            print(Opt.__name__, name, '->', type(e).__name__, str(e)[:90]); bad = True
if bad:
    print('FAIL: SPD weight of a documented shape is rejected only because it is a non-contiguous view')
    sys.exit(1)
print('PASS')
