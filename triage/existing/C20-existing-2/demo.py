"""
Existing behaviour (unchanged code): StopOnPlateau.state_dict() contains the
`continual` callable (a _Scheduler.Continual object bound to the scheduler it was taken
from).  load_state_dict() into another scheduler overwrites that scheduler's
`continual`, so B.continual() afterwards reports the state of scheduler A; B never
stops (here: far beyond its step budget) because A is not being stepped any more.
"""
import sys, torch
from torch import nn
import pypose as pp
from pypose.optim.scheduler import StopOnPlateau


class Residual(nn.Module):
    def __init__(self):
        super().__init__()
        self.x = nn.Parameter(torch.ones(3))
    def forward(self, input):
        return self.x * input

def make():
    model = Residual()
    opt = pp.optim.GN(model)
    return opt, StopOnPlateau(opt, steps=4, patience=100, decreasing=-1.0)

inputs = torch.ones(3)
optA, A = make()
A.step(optA.step(inputs))                 # one step, then checkpoint
checkpoint = A.state_dict()

optB, B = make()                          # resume in a new scheduler
B.load_state_dict(checkpoint)
count = 0
while B.continual() and count < 20:
    B.step(optB.step(inputs)); count += 1
print('B resumed at step 1 with budget 4; it ran', count, 'more steps; B.steps =', B.steps,
      '; B._continual =', B._continual, '; B.continual() =', B.continual())
if B.steps > 4 or B.continual() != B._continual:
    print('VIOLATION: continual() of the resumed scheduler is still true after the step '
          'budget (it answers for the scheduler the state_dict came from)')
    sys.exit(1)
print('OK')
