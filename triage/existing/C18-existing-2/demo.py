"""knn_filter with a radius promises, for every retained point (at least k others
within the radius), the mean of itself and its k nearest neighbours.  The k-NN search
is restricted to the retained points, so when fewer than k+1 points are retained
(the neighbours that qualified a point were themselves removed) topk raises."""
import sys
import torch
import pypose as pp

# the middle point has 2 others within 1.5; each end point has only 1
p = torch.tensor([[0., 0., 0.], [1., 0., 0.], [-1., 0., 0.], [50., 50., 50.]])
kept = pp.nbr_filter(p, nbr=2, radius=1.5)
print("points with >= 2 others within 1.5:", kept.tolist())
try:
    out = pp.knn_filter(p, k=2, radius=1.5)
except Exception as e:
    print("knn_filter(p, k=2, radius=1.5) raised %s: %s" % (type(e).__name__, e))
    print("expected one row: the mean of [0,0,0] and its 2 nearest neighbours = [0,0,0]")
    sys.exit(1)
assert out.shape == (1, 3) and torch.allclose(out, torch.zeros(1, 3)), out
print("ok", out)
