"""Existing behaviour (unchanged code): CG accepts a right-hand side with one dimension less than A
(documented: 'A.ndim == b.ndim + 1'), but then an initial guess of the same (n,) shape as b makes
it raise instead of returning a solution: b is unsqueezed to (n, 1), the guess x is not.
"""
import sys, warnings
import torch
from pypose.optim.solver import CG
warnings.filterwarnings('ignore')
torch.manual_seed(0)
n = 6
G = torch.randn(n, n, dtype=torch.float64)
A = G @ G.T + n * torch.eye(n, dtype=torch.float64)
b = torch.randn(n, dtype=torch.float64)          # vector right-hand side
x0 = torch.ones(n, dtype=torch.float64)          # initial guess, same shape as b

x = CG()(A, b)                                   # works without a guess
print('no guess : rel residual %.2e' % (torch.linalg.norm(b - A @ x.view(n)) / torch.linalg.norm(b)))
try:
    x = CG()(A, b, x=x0)
except Exception as e:
    print('with (n,) guess for (n,) b: CG raised %s: %s' % (type(e).__name__, e))
    sys.exit(1)
rel = (torch.linalg.norm(b - A @ x.reshape(n)) / torch.linalg.norm(b)).item()
print('with guess: rel residual %.2e' % rel)
sys.exit(0 if rel <= 2e-5 else 1)
