"""Existing issue 2: float64 stream with a float64 initial state raises, because the gravity buffer (and the
covariance buffers) are always created in float32; only calling .double() on the module afterwards helps, and then
gravity is 9.81007 rounded to float32 (states deviate ~5e-7 from the recursion with g=9.81007 at F=200)."""
import sys, warnings
warnings.filterwarnings('ignore')
import torch, pypose as pp
torch.manual_seed(0)
d = torch.float64
B, F = 1, 4
dt = torch.rand(B, F, 1, dtype=d) * 0.05 + 0.01; gyro = torch.randn(B, F, 3, dtype=d); acc = torch.randn(B, F, 3, dtype=d)
rot = pp.randn_SO3(B, F, dtype=d)
m = pp.module.IMUPreintegrator(torch.zeros(3, dtype=d), pp.identity_SO3(dtype=d), torch.zeros(3, dtype=d), reset=True)
bad = 0
for name, r in (('known rotation', rot), ('integrated rotation', None)):
    try:
        out = m(dt, gyro, acc, r)
        print(name, '-> ok', out['pos'].dtype)
    except Exception as e:
        bad += 1
        print('FAIL (%s): float64 inputs + float64 initial state raised %s: %s' % (name, type(e).__name__, e))
sys.exit(1 if bad else 0)
