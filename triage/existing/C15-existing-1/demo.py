"""LTV.set_refpoint() with t=None (documented: 'If None, the most recent timestamp is taken') raises."""
import sys, torch, pypose as pp

T = 5
class MyLTV(pp.module.LTV):
    @property
    def A(self): return self._A[..., self._t % T, :, :]
    @property
    def B(self): return self._B[..., self._t % T, :, :]
    @property
    def C(self): return self._C[..., self._t % T, :, :]
    @property
    def D(self): return self._D[..., self._t % T, :, :]

torch.manual_seed(0)
ltv = MyLTV(torch.randn(T, 3, 3), torch.randn(T, 3, 2), torch.randn(T, 2, 3), torch.randn(T, 2, 2))
x, u = torch.randn(3), torch.randn(2)
ltv(x, u); ltv(x, u)
assert int(ltv.systime) == 2
bad = []
for kwargs in ({}, {'state': x, 'input': u}):
    try:
        ltv.set_refpoint(**kwargs)
        if int(ltv.systime) != 2:
            bad.append("set_refpoint(%s) moved the clock to %d" % (sorted(kwargs), int(ltv.systime)))
    except Exception as e:
        bad.append("set_refpoint(%s) raised %s: %s" % (sorted(kwargs), type(e).__name__, e))
if bad:
    print("FAIL: LTV.set_refpoint without an explicit t should keep the current time step:")
    for b in bad: print("  - " + b)
    sys.exit(1)
print("OK")
