"""
Existing behaviour (unchanged code): ReduceToBason never counts a 'no decrease' step
when one item of a batched loss is exactly zero.

(last - loss) / loss is 0/0 = nan for an item that stays at 0, nan < decreasing is
False, so torch.all(...) is False and patience_count is reset on every step although
NO item of the batch decreased.  The loop then only ends at the step budget.
"""
import sys, torch
import pypose as pp

stepper = pp.utils.ReduceToBason(steps=12, patience=2, decreasing=1e-3, tol=1e-5)
loss = torch.tensor([0.0, 1.0])      # item 0 perfectly converged, item 1 stuck at 1.0
trace = []
while stepper.continual():
    stepper.step(loss.clone())
    trace.append(stepper.patience_count)
print('constant batched loss', loss.tolist(), 'patience=2, steps=12')
print('patience_count after each step:', trace)
print('stopped after', stepper.steps, 'steps')
# steps 2 and 3 both fail to decrease any item -> documented stop at step 3 at the latest
if stepper.steps > 3:
    print('VIOLATION: %d consecutive steps without any decrease, patience=2, but the '
          'controller only stopped at the step budget' % (stepper.steps - 1))
    sys.exit(1)
print('OK')
