"""Existing behaviour (unchanged code): in the library's default dtype (float32) LQR on an
unstable LTI system over a horizon of 20 steps returns a grossly non-optimal solution when no
nominal input trajectory is given, while the same LQR object warm-started with its own output
(another admissible nominal trajectory) returns the optimum.  The result therefore depends on
the nominal trajectory and is not the minimiser.  Cause: the deviation formulation rolls the
system out open loop with zero inputs (|x_nom| ~ rho^T) and recovers u = K (x - x_nom) + k
by cancellation."""
import sys, torch, pypose as pp

g = torch.Generator().manual_seed(0)
rn = lambda *s: torch.randn(*s, generator=g, dtype=torch.float64)
B, T, ns, nc, rho = 1, 20, 4, 2, 3.0
n = ns + nc
Q = torch.eye(n, dtype=torch.float64).repeat(B, T, 1, 1)          # condition number 1
p = rn(B, T, n)
A = rn(B, ns, ns); A = rho * A / torch.linalg.eigvals(A).abs().max(-1)[0][:, None, None]
Bm = rn(B, ns, nc); x0 = rn(B, ns)

def solve(dtype):
    c = lambda t: t.to(dtype)
    lti = pp.module.LTI(c(A), c(Bm), torch.eye(ns, dtype=dtype).repeat(B, 1, 1), torch.zeros(B, ns, nc, dtype=dtype))
    lqr = pp.module.LQR(lti, c(Q), c(p), T)
    x, u, cost = lqr(c(x0))
    x2, u2, cost2 = lqr(c(x0), u_traj=u)
    return cost.item(), cost2.item(), (u - u2).abs().max().item()

c64, c64w, _ = solve(torch.float64)
c32, c32w, du = solve(torch.float32)
print('float64: cost %.6f (zero nominal), %.6f (warm-started nominal)' % (c64, c64w))
print('float32: cost %.6f (zero nominal), %.6f (warm-started nominal), max|u-u_warm| %.3g' % (c32, c32w, du))
if abs(c32 - c64) > 1e-3 * abs(c64):
    print('VIOLATED: with the default nominal trajectory the float32 solution costs %.4g, the optimum is %.4g;'
          ' the result depends on the nominal trajectory supplied' % (c32, c64))
    sys.exit(1)
print('OK')
