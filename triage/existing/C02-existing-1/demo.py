"""Existing violation of C02 on the UNCHANGED code (float32 Sim3, tiny rotation, scale a hair from 1).

C02: for every valid Sim3 element X, Log(Inv(X)) = -Log(X) (away from rotation angle pi), and Log is the
inverse of Exp with the float32 accuracy of C01.  For a float32 Sim3 whose rotation angle is non-zero but
<= eps (so rxso3_Ws takes its 'theta ~ 0' branch) and whose sigma = log(scale) is just above eps
(the 'sigma large' branch, condition3), the coefficient
    A = (1 + (sigma - 1) * exp(sigma)) / sigma**2
is evaluated with catastrophic cancellation: the numerator is ~sigma**2/2 ~ 1e-14 but carries a float32
rounding error of ~1e-7, so A is off by up to ~1e6-1e7 and A*K (K ~ 1e-7) perturbs W by O(0.01 - 1).
"""
import math, sys, torch, pypose as pp

axis = torch.tensor([1., 2., -3.], dtype=torch.float64); axis /= axis.norm()
t = torch.tensor([0.3, -1.2, 2.5], dtype=torch.float64)
bad = False
for ang, sigma in ((1e-7, 1e-7), (1e-7, 3e-7), (1e-7, 1e-6), (1e-7, -1e-6)):
    q = torch.cat([axis * math.sin(ang / 2), torch.tensor([math.cos(ang / 2)], dtype=torch.float64)])
    data = torch.cat([t, q, torch.tensor([math.exp(sigma)], dtype=torch.float64)]).float()
    X32 = pp.Sim3(data)                   # float32 element (unit quaternion to float32 precision)
    X64 = pp.Sim3(data.double())          # the very same element, evaluated in float64
    x32, x64 = X32.Log().tensor(), X64.Log().tensor()
    inv = X32.Inv().Log().tensor()
    e1 = (x32.double() - x64).abs().max().item()
    e2 = (inv + x32).abs().max().item()
    flag = e1 > 1e-3 or e2 > 1e-3
    bad |= flag
    print(f"angle={ang:.0e} sigma={sigma:+.0e} scale={data[7].item():.9f}: |Log_f32 - Log_f64| = {e1:.3e}   "
          f"|Log(Inv(X)) + Log(X)| = {e2:.3e}   {'VIOLATION' if flag else 'ok'}")
    print("    Log_f32     =", [round(v, 5) for v in x32.tolist()])
    print("    Log_f64     =", [round(v, 5) for v in x64.tolist()])
    print("    Log(Inv X)  =", [round(v, 5) for v in inv.tolist()])
if bad:
    print("FAIL: float32 Sim3 Log is off by far more than float32 accuracy (tol 1e-3 on |t| ~ 2.8)")
    sys.exit(1)
print("PASS")
