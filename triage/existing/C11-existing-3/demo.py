"""euler2SO3 on non-contiguous angle tensors."""
import sys, warnings, torch, pypose as pp
warnings.simplefilter("ignore")
torch.manual_seed(0)
base = torch.randn(3, 2, 4, dtype=torch.float64)
cases = {"permuted (2,4,3) view": base.permute(1, 2, 0),
         "transposed batch dims": torch.randn(4, 2, 3, dtype=torch.float64).transpose(0, 1),
         "strided slice [::2]": torch.randn(2, 8, 3, dtype=torch.float64)[:, ::2],
         "expanded": torch.randn(1, 4, 3, dtype=torch.float64).expand(2, 4, 3)}
bad = []
for name, e in cases.items():
    ref = pp.euler2SO3(e.contiguous())
    try:
        X = pp.euler2SO3(e)
        err = (X.tensor() - ref.tensor()).abs().max().item()
        print("%-24s ok, err %.1e" % (name, err))
        if err > 1e-14: bad.append(name)
    except Exception as ex:
        print("%-24s %s: %s" % (name, type(ex).__name__, str(ex)[:120]))
        bad.append(name)
if bad:
    print("FAIL: euler2SO3 fails on valid (*, 3) angle tensors that are not contiguous:", bad)
    sys.exit(1)
print("PASS")
