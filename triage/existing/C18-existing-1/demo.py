"""pixel2point documents intrinsics of shape (..., 3, 3) and pixels (..., N, 2), and
point2pixel accepts one intrinsic matrix per batch element.  pixel2point must invert
point2pixel given the depth, but with per-batch intrinsics it broadcasts fx, fy, cx, cy
(shape (B,)) against pixels[..., 0] (shape (B, N)) without a trailing axis: it raises
when B != N and silently pairs camera j with point j when B == N."""
import sys
import torch
import pypose as pp

torch.manual_seed(0)
K = torch.tensor([[2., 0., 4.5], [0., 2., 4.5], [0., 0., 1.]])
bad = 0
for B, N in ((2, 5), (4, 4)):
    Ks = K.repeat(B, 1, 1)
    Ks[:, 0, 0] += torch.arange(B)            # different focal length per camera
    Ks[:, 0, 2] += 0.5 * torch.arange(B)
    pts = torch.rand(B, N, 3) + torch.tensor([0., 0., 1.])
    px = pp.point2pixel(pts, Ks)              # works: (B, N, 2)
    try:
        back = pp.pixel2point(px, pts[..., 2], Ks)
        err = (back - pts).abs().max().item()
        print("B=%d N=%d: max |pixel2point(point2pixel(p)) - p| = %.3e" % (B, N, err))
        bad += err > 1e-4
    except Exception as e:
        print("B=%d N=%d: pixel2point raised %s: %s" % (B, N, type(e).__name__, e))
        bad += 1
sys.exit(1 if bad else 0)
