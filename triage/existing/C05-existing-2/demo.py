"""Existing (numerical) violation of C05 on the unchanged code: in float32, Jr(x) of a small but
non-zero so3 element (|x| between ~1e-7 and ~1e-3) is computed with the closed form
(1 - cos(theta)) / theta**2, which cancels catastrophically: for theta < 2.4e-4 cos(theta) rounds
to 1 and the coefficient becomes 0 instead of 0.5, so Jr(x) is returned as exactly the identity
(error theta/2, up to ~1.2e-4, i.e. ~1000 float32 eps); for theta ~ 1e-3 the coefficient is off
by ~10 percent.  The Taylor branch is only used for theta <= eps (1.2e-7).

Run as:  cd <checkout> && /venv/bin/python demo.py     (exits non-zero on the unchanged code)
"""
import sys
import torch
import pypose as pp

TOL = 1e-5   # generous for float32 entries of magnitude <= 1
worst = 0.0
for theta in [1e-6, 1e-5, 1e-4, 2e-4, 5e-4, 1e-3, 1e-2, 1e-1, 1.0]:
    v = torch.tensor([[0.6, -0.48, 0.64]], dtype=torch.float64) * theta
    J64 = pp.so3(v).Jr()
    J32 = pp.so3(v.float()).Jr()
    G32 = pp.so3(v.float()).Exp().Jr()      # SO3Type.Jr goes through Log().Jr()
    e1 = (J32.double() - J64).abs().max().item()
    e2 = (G32.double() - J64).abs().max().item()
    is_eye = torch.equal(J32, torch.eye(3).expand_as(J32))
    print('theta = %-7g  max|Jr_f32 - Jr_f64| = %.2e (so3)  %.2e (SO3)   Jr_f32 == I exactly: %s'
          % (theta, e1, e2, is_eye))
    worst = max(worst, e1, e2)
if worst > TOL:
    print('\nC05 violated on the unchanged code: float32 Jr is off by %.1e (> %.0e) for small non-zero x' % (worst, TOL))
    sys.exit(1)
print('ok')
