"""Existing violation of C05 (unchanged code): X + a = Exp(a) @ X = Retr(X, a) is promised for
broadcastable batch shapes, but X + a / X.add(a) raises a RuntimeError whenever the batch
shape of the increment a is larger than the batch shape of X (X unbatched or batch of one,
a batched; or X (2,1) with a (1,3)).  Retr(X, a) and Exp(a) @ X broadcast fine.

Run as:  cd <checkout> && /venv/bin/python demo.py     (exits non-zero on the unchanged code)
"""
import sys
import torch
import pypose as pp

torch.manual_seed(0)
bad = []
groups = [('SO3', pp.randn_SO3, pp.randn_so3), ('SE3', pp.randn_SE3, pp.randn_se3),
          ('Sim3', pp.randn_Sim3, pp.randn_sim3), ('RxSO3', pp.randn_RxSO3, pp.randn_rxso3)]
for name, randn_G, randn_g in groups:
    for sx, sa in [((), (3,)), ((1,), (3,)), ((2, 1), (1, 3)), ((3,), (2, 3))]:
        X = randn_G(*sx, dtype=torch.float64)
        a = randn_g(*sa, sigma=0.3, dtype=torch.float64)
        want = a.Exp() @ X
        retr = X.Retr(a)
        assert torch.allclose(retr.tensor(), want.tensor())
        try:
            got = X + a
            err = (got.tensor() - want.tensor()).abs().max().item() if got.shape == want.shape else float('inf')
            msg = 'shape %s, max|err| %.2e' % (tuple(got.shape), err)
            ok = err < 1e-9
        except Exception as e:
            msg, ok = '%s: %s' % (type(e).__name__, e), False
        print('%-5s X.lshape=%-6s a.lshape=%-6s Retr ok, X + a -> %s' % (name, sx, sa, msg))
        if not ok:
            bad.append((name, sx, sa))
if bad:
    print('\nC05 violated on the unchanged code: X + a != Exp(a) @ X (= Retr(X, a)) for %d input shapes' % len(bad))
    sys.exit(1)
print('ok')
