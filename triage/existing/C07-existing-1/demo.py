"""Existing behaviour: the Jacobian used by GN/LM for a Sim3 GROUP parameter seen through Log() is not
the true Jacobian (left perturbation) of the residual.

Model: residual r(T) = Log(T) - y with a fixed target y.  One GN step is compared with the solution of
J delta = -R where J is a central-difference Jacobian of the residual in the tangent coordinates of T
(left perturbation Exp(d) @ T).  SE3 / RxSO3 agree to ~1e-9, Sim3 does not."""
import sys, torch, pypose as pp
from torch import nn
torch.set_default_dtype(torch.float64)

class LogModel(nn.Module):
    def __init__(self, T):
        super().__init__(); self.T = pp.Parameter(T.clone())
    def forward(self, _):
        return self.T.Log().tensor()

def fd_jacobian(T, alg, eps=1e-6):
    d = T.Log().shape[-1]
    return torch.stack([((alg(e * eps).Exp() @ T).Log().tensor() - (alg(-e * eps).Exp() @ T).Log().tensor()) / (2 * eps)
                        for e in torch.eye(d)], 1)

bad = False
for name, rand, alg in [('SE3', pp.randn_SE3, pp.se3), ('RxSO3', pp.randn_RxSO3, pp.rxso3), ('Sim3', pp.randn_Sim3, pp.sim3)]:
    torch.manual_seed(4)
    T0 = rand(sigma=1.0)
    model = LogModel(T0)
    y = 0.3 * torch.randn(T0.Log().shape[-1])
    pp.optim.GN(model).step(torch.zeros(1), target=y)
    r = T0.Log().tensor() - y
    Jfd = fd_jacobian(T0, alg)
    delta_fd = torch.linalg.pinv(Jfd) @ (-r)
    delta_got = (pp.LieTensor(model.T.detach().tensor(), ltype=T0.ltype) @ T0.Inv()).Log().tensor()
    Jlib = pp.optim.functional.modjac(LogModel(T0), input=torch.zeros(1), flatten=True)[:, :Jfd.shape[1]]
    e1, e2 = (Jlib - Jfd).abs().max().item(), (delta_got - delta_fd).abs().max().item()
    print('%-6s max|J_library - J_central_difference| = %.2e;  |delta_GN - delta_from_true_J| = %.2e' % (name, e1, e2))
    bad |= e1 > 1e-6 or e2 > 1e-6
if bad:
    print('FAIL: for the Sim3 parameter the step is not the solution of J delta = -R with the true Jacobian')
    sys.exit(1)
print('PASS')
