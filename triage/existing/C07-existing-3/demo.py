"""Existing behaviour: the documented example model (residual returned as a Lie-algebra LieTensor from .Log(),
no target) raises as soon as a robust kernel is configured, for GN and LM and every kernel."""
import sys, torch, pypose as pp
from torch import nn
import pypose.optim.kernel as ppok
torch.manual_seed(0)

class PoseInv(nn.Module):                       # the model of the GN / LM docstring examples
    def __init__(self, *dim):
        super().__init__(); self.pose = pp.Parameter(pp.randn_se3(*dim))
    def forward(self, input):
        return (self.pose.Exp() @ input).Log()

bad = False
for Opt in (pp.optim.GN, pp.optim.LM):
    for K in (ppok.Huber(), ppok.Cauchy()):
        try:
            Opt(PoseInv(2, 2), kernel=K).step(pp.randn_SE3(2, 2)); print(Opt.__name__, type(K).__name__, 'ok')
        except Exception as e:
            bad = True; print(Opt.__name__, type(K).__name__, '->', type(e).__name__, str(e)[:80])
if bad:
    print('FAIL: step raises instead of performing the corrected GN/LM step'); sys.exit(1)
print('PASS')
