"""mat2Sim3 / mat2RxSO3 reject an empty batch with 'Rotation matrix not full rank.'"""
import sys, warnings, torch, pypose as pp
warnings.simplefilter("ignore")
bad = []
for name, gen, conv, dim in [("SO3", pp.randn_SO3, pp.mat2SO3, 4), ("SE3", pp.randn_SE3, pp.mat2SE3, 7),
                             ("Sim3", pp.randn_Sim3, pp.mat2Sim3, 8), ("RxSO3", pp.randn_RxSO3, pp.mat2RxSO3, 5)]:
    X = gen(0)
    M = X.matrix()
    try:
        Y = conv(M)
        assert tuple(Y.shape) == (0, dim), Y.shape
        print("%-6s empty batch %s -> %s ok" % (name, tuple(M.shape), tuple(Y.shape)))
    except Exception as e:
        print("%-6s empty batch %s -> %s: %s" % (name, tuple(M.shape), type(e).__name__, e))
        bad.append(name)
if bad:
    print("FAIL: an empty (valid) batch raises for:", bad)
    sys.exit(1)
print("PASS")
