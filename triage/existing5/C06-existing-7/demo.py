"""retain_ltype leaves one PyTorch internal modified after exit: the __module__ attribute of
torch._functorch.vmap._add_batch_dim is overwritten on entry and never put back."""
import sys, torch, pypose as pp
import torch._functorch.vmap as V
f = V._add_batch_dim
before = f.__module__
with pp.retain_ltype():
    pass
after = f.__module__
same_funcs = V._add_batch_dim is f
print("torch._functorch.vmap._add_batch_dim.__module__ before: %r  after: %r" % (before, after))
if before != after or not same_funcs:
    print("EXISTING DEFECT: retain_ltype() does not undo all of its patching of PyTorch internals on exit")
    sys.exit(1)
sys.exit(0)
