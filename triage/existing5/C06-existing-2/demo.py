"""copy.deepcopy of a leaf LieTensor with requires_grad=True raises (or returns an unusable
object): LieTensor.new_empty defaults requires_grad to self.requires_grad, unlike
Tensor.new_empty (default False), which breaks torch's Tensor.__deepcopy__ protocol."""
import sys, copy, torch, pypose as pp
x = pp.randn_SE3(3, requires_grad=True)
assert x.is_leaf and x.requires_grad
try:
    y = copy.deepcopy(x)
    ok = y.requires_grad and y.is_leaf and torch.equal(y.tensor(), x.tensor())
    print("deepcopy ok:", ok); sys.exit(0 if ok else 1)
except RuntimeError as e:
    print("EXISTING DEFECT: copy.deepcopy(pp.randn_SE3(3, requires_grad=True)) raises RuntimeError:")
    print("  ", str(e)[:200])
    y = copy.deepcopy(pp.randn_SE3(3))       # the same call without requires_grad works
    print("   (without requires_grad the deepcopy works: %s)" % type(y).__name__)
    sys.exit(1)
