"""EKF silently returns a wrong posterior under torch.inference_mode()."""
import sys, warnings; warnings.filterwarnings('ignore')
import torch, pypose as pp

class Linear(pp.module.NLS):
    def __init__(self, A, C):
        super().__init__(); self.A_, self.C_ = A, C
    def state_transition(self, state, input, t=None):
        return pp.bmv(self.A_, state) + input
    def observation(self, state, input, t=None):
        return pp.bmv(self.C_, state)

f64 = torch.float64
A = torch.tensor([[1., .1], [0., 1.]], dtype=f64); C = torch.tensor([[1., 0.]], dtype=f64)
Q = torch.eye(2, dtype=f64) * .01; R = torch.eye(1, dtype=f64) * .04
P = torch.tensor([[1., .3], [.3, 2.]], dtype=f64)
x = torch.tensor([1., -1.], dtype=f64); u = torch.tensor([.2, .1], dtype=f64); y = torch.tensor([1.5], dtype=f64)
ekf = pp.module.EKF(Linear(A, C))
x_ref, P_ref = ekf(x, y, u, P, Q, R)                 # equals the Kalman posterior
with torch.no_grad():
    x_ng, P_ng = ekf(x, y, u, P, Q, R)
with torch.inference_mode():
    x_im, P_im = ekf(x, y, u, P, Q, R)
print('eager          :', x_ref.tolist(), P_ref.flatten().tolist())
print('no_grad        :', x_ng.tolist(), P_ng.flatten().tolist())
print('inference_mode :', x_im.tolist(), P_im.flatten().tolist())
ok = torch.allclose(x_im, x_ref) and torch.allclose(P_im, P_ref)
if not ok:
    print('WRONG: under torch.inference_mode() the NLS Jacobians A, C come back as all-zero '
          '(autograd.functional.jacobian, strict=False), so EKF returns x+ = f(x), P+ = Q: the '
          'measurement is ignored and no error is raised.')
    sys.exit(1)
print('OK')
