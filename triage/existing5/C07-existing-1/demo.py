"""Existing defect (unchanged code): a weight that is broadcastable against the residual in the PyTorch
sense (as the GN/LM docstrings require: "The corresponding residual and weight should be broadcastable",
with a link to the PyTorch broadcasting semantics) but has an interior size-1 dimension is expanded to the
wrong block-diagonal W: RobustModel.normalize_RWJ just tiles the flat list of weight blocks, which is only
right when the weight's batch shape is a *suffix* of the residual's batch shape.

Residual shape (M, N, R) = (2, 3, 2); weight shape (M, 1, R, R) = (2, 1, 2, 2)  ->  item (m, n) must be
weighted by weight[m, 0]; the library weights it by weight[(3 m + n) % 2, 0].

Run as:  cd <checkout> && /venv/bin/python demo.py
"""
import sys, warnings
warnings.filterwarnings("ignore")
import torch, pypose as pp
from torch import nn

torch.manual_seed(0)
dt = torch.float64
M, N, R = 2, 3, 2
A = torch.randn(M, N, R, 3, dtype=dt)
y = torch.randn(M, N, R, dtype=dt)


class Lin(nn.Module):
    def __init__(self):
        super().__init__()
        self.p = nn.Parameter(torch.zeros(3, dtype=dt))
    def forward(self, _):
        return A @ self.p - y                            # residual (M, N, R)


w = torch.stack([torch.diag(torch.tensor([1.0, 2.0], dtype=dt)),
                 torch.diag(torch.tensor([30.0, 50.0], dtype=dt))]).view(M, 1, R, R)
assert torch.broadcast_shapes(w.shape[:-2], y.shape[:-1]) == y.shape[:-1]    # broadcastable, as documented

# reference: W J delta = -W R with the weight broadcast the PyTorch way
Wfull = w.expand(M, N, R, R).reshape(-1, R, R)
W = torch.block_diag(*Wfull)
J, Rv = A.reshape(-1, 3), (-y).reshape(-1)
delta = torch.linalg.lstsq(W @ J, -(W @ Rv).unsqueeze(-1)).solution.squeeze(-1)

model = Lin()
pp.optim.GN(model, weight=w).step(None)
got = model.p.detach()

# what the library effectively used
Wlib = torch.block_diag(*(list(w.view(-1, R, R)) * N))
delta_lib = torch.linalg.lstsq(Wlib @ J, -(Wlib @ Rv).unsqueeze(-1)).solution.squeeze(-1)

print("expected GN step (weight[m,0] for item (m,n)) :", delta.numpy().round(5))
print("GN step taken by the library                  :", got.numpy().round(5))
print("step for the mis-paired weights [(3m+n)%2]    :", delta_lib.numpy().round(5))
if not torch.allclose(got, delta, atol=1e-8):
    print("FAIL: broadcastable weight of shape (M,1,R,R) is paired with the wrong residual items "
          "(no error is raised).")
    sys.exit(1)
print("PASS")
