"""
Existing behaviour (unchanged tree): pp.optim.functional.modjac called under torch.inference_mode()
silently returns an all-zero Jacobian (no error, no NaN), although the function is decorated with
@torch.enable_grad() and the test-suite (tests/optim/test_jacobian.py::test_infer_mode_modjac)
treats the call as supported - it only asserts "no NaN", which an all-zero result satisfies.
Under torch.no_grad() the same call returns the correct Jacobian.
"""
import sys, warnings
warnings.filterwarnings('ignore')
import torch
import pypose as pp
from torch import nn

torch.manual_seed(0)


class PoseInv(nn.Module):
    def __init__(self):
        super().__init__()
        self.pose = pp.Parameter(pp.randn_SE3(2, dtype=torch.float64))

    def forward(self, x):
        return (self.pose @ x).Log().tensor()


model, x = PoseInv(), pp.randn_SE3(2, dtype=torch.float64)
J_ref = pp.optim.functional.modjac(model, x, flatten=True)
with torch.no_grad():
    J_nograd = pp.optim.functional.modjac(model, x, flatten=True)
bad = False
for vec in (False, True):
    with torch.inference_mode():
        J_inf = pp.optim.functional.modjac(model, x, flatten=True, vectorize=vec)
    print('vectorize=%-5s  |J| normal mode = %.3f   no_grad diff = %.1e   inference_mode: |J| = %.3f, diff = %.3f'
          % (vec, J_ref.abs().max(), (J_ref - J_nograd).abs().max(), J_inf.abs().max(), (J_ref - J_inf).abs().max()))
    bad |= (J_ref - J_inf).abs().max().item() > 1e-9
if bad:
    print('WRONG: modjac under torch.inference_mode() silently returns a Jacobian that differs from the true one '
          '(all zeros) instead of the Jacobian or an error')
    sys.exit(1)
print('ok')
