"""Unchanged code: NLS.forward hands the LIVE clock buffer self._t to f and g, and the forward
hook then increments that buffer in place.  If an output of f or g is (a view of) the time
argument - e.g. g(x, u, t) = [t, t] written as t.expand(2), or f returning t as a clock state -
the value returned by system(x, u) is already advanced: the call at time k reports k + 1."""
import sys, warnings
warnings.filterwarnings('ignore')
import torch, pypose as pp

class Clocked(pp.module.NLS):
    def state_transition(self, x, u, t=None):
        return x + u
    def observation(self, x, u, t=None):
        return t.expand(2)                   # y_k = (t_k, t_k)

s = Clocked().reset(t=5)
x, u = torch.tensor([1., 2.]), torch.tensor([0.5, 0.5])
direct = s.observation(x, u, torch.tensor(5)).clone()
_, y = s(x, u)
print('g(x, u, t=5) =', direct.tolist(), '  observation returned by the call at t=5 =', y.tolist())
if not torch.equal(y, direct):
    print('FAIL: the observation returned by system(x, u) at time 5 shows time 6: it aliases the '
          'clock buffer that forward_hook increments in place')
    sys.exit(1)
print('PASS')
