"""Existing defect: mat2Sim3 / mat2RxSO3 / from_matrix reject an EMPTY batch of valid matrices.

X.matrix() of a Sim3 / RxSO3 LieTensor with a zero-sized batch dimension (lshape (0,) or (2, 0))
is a valid (vacuous) batch; mat2SO3 and mat2SE3 return the matching empty LieTensor, but
mat2Sim3 and mat2RxSO3 raise ValueError("Rotation matrix not full rank.") because the guard
    if torch.allclose(s, torch.zeros_like(s), ...): raise
is vacuously True on an empty tensor.
"""
import sys, warnings
import torch
import pypose as pp
warnings.filterwarnings("ignore")

bad = []
for gen in [pp.randn_SO3, pp.randn_SE3, pp.randn_Sim3, pp.randn_RxSO3]:
    for lshape in [(0,), (2, 0)]:
        X = gen(*lshape, dtype=torch.float64)
        M = X.matrix()
        try:
            Y = pp.from_matrix(M, X.ltype)
            ok = Y.lshape == X.lshape and Y.ltype == X.ltype
            print("%-11s lshape %-6s matrix %-14s -> %s" % (gen.__name__, lshape, tuple(M.shape), tuple(Y.shape)))
            if not ok:
                bad.append((gen.__name__, lshape, "wrong shape %s" % (tuple(Y.shape),)))
        except Exception as e:
            print("%-11s lshape %-6s matrix %-14s -> %s: %s" % (gen.__name__, lshape, tuple(M.shape), type(e).__name__, e))
            bad.append((gen.__name__, lshape, "%s: %s" % (type(e).__name__, e)))
if bad:
    print("\nDEFECT: valid (empty) batches are rejected:")
    for b in bad:
        print("  -", b)
    sys.exit(1)
print("OK")
