# CG accepts a 1-D right-hand side (it unsqueezes b when A.ndim == b.ndim + 1) and an optional
# initial guess x, but the guess is not unsqueezed along with b: b - A @ x broadcasts
# (n,1) - (n,) -> (n,n) and the solver raises instead of returning the solution.
import sys, torch
from pypose.optim.solver import CG
torch.manual_seed(0)
n = 6
Q, _ = torch.linalg.qr(torch.randn(n, n, dtype=torch.float64))
A = Q @ torch.diag(torch.linspace(1, 10, n, dtype=torch.float64)) @ Q.mT
A = (A + A.mT) / 2
b = torch.randn(n, dtype=torch.float64)           # 1-D rhs, accepted by CG
x0 = torch.ones(n, dtype=torch.float64)           # initial guess of the same shape as b
cg = CG()
x = cg(A, b)                                      # works, returns (n,1)
assert torch.linalg.norm(b - (A @ x).squeeze(-1)) <= 1e-5 * torch.linalg.norm(b)
try:
    x = cg(A, b, x=x0)
except Exception as e:
    print("CG(A, b[n], x=x0[n]) raised", type(e).__name__, ":", e)
    sys.exit(1)
res = torch.linalg.norm(b - (A @ x.reshape(n, 1)).squeeze(-1)) / torch.linalg.norm(b)
assert x.numel() == n and res <= 1e-5, f"wrong result, shape {tuple(x.shape)}, residual {res}"
print("ok")
