"""Existing defect (unchanged code): LevenbergMarquardt.step / GaussNewton.step keep `self.loss` from the
PREVIOUS call and use it as the reference loss (`self.last`) of the current call without re-evaluating it,
although `step(input, target, weight)` takes new data on every call.  When the optimizer is fed a new
input/target (next frame, next mini-batch) whose attainable loss is larger than the loss reached on the
previous data, every LM trial of the call is 'not decreasing' w.r.t. the stale value, all `reject` trials are
undone, damping is blown up and the call ends with a negligible step - although the very first trial would
have reduced the loss on the new data by orders of magnitude.

Run as:  cd <checkout> && /venv/bin/python demo.py
"""
import sys, warnings
warnings.filterwarnings("ignore")
import torch, pypose as pp
from torch import nn

torch.manual_seed(0)


class Lin(nn.Module):
    def __init__(self):
        super().__init__()
        self.p = nn.Parameter(torch.zeros(3))
    def forward(self, A):
        return A @ self.p                                  # residual (8, 1) after subtracting target


def problem(noise):
    A = torch.randn(8, 1, 3)
    return A, A @ torch.randn(3) + noise * torch.randn(8, 1)

A1, y1 = problem(0.0)        # consistent data: loss can reach 0
A2, y2 = problem(0.5)        # new, noisy data: optimum loss > 0

model = Lin()
opt = pp.optim.LM(model)
for _ in range(3):
    l1 = opt.step(A1, y1)
print("loss reached on data set 1:", float(l1))

with torch.no_grad():
    before = float(((A2 @ model.p) - y2).square().sum())
    best = float(((A2.squeeze(1) @ torch.linalg.lstsq(A2.squeeze(1), y2).solution) - y2).square().sum())
l2 = opt.step(A2, y2)
with torch.no_grad():
    after = float(((A2 @ model.p) - y2).square().sum())
print("data set 2: loss before the call %.4f, least-squares optimum %.4f" % (before, best))
print("data set 2: loss after  the call %.4f, value returned by step(): %.4g, rejected trials: %d"
      % (after, float(l2), opt.reject_count))

if not after < 0.5 * (before + best):
    print("FAIL: the call on new data compared every trial with the stale loss of the previous call (%.3g), "
          "rejected %d good trials and left the parameters (almost) where they were; the returned 'loss' "
          "is not the loss of the model on the given input either." % (float(l1), opt.reject_count))
    sys.exit(1)
print("PASS")
