"""Existing defect (docstring contract): both ReduceToBason and StopOnPlateau document
  "if patience = 2, then it ignores the first 2 steps with no improvement, and stop the loop after
   the 3rd step if the loss has no decreasing"
but the implementation stops already after the 2nd step without improvement
(patience_count >= patience)."""
import sys, torch, pypose as pp
stepper = pp.utils.ReduceToBason(steps=50, patience=2, decreasing=1e-3, tol=1e-9)
hist = []
loss = 1.0
stepper.step(loss); hist.append(stepper.continual())   # first step: always an improvement over +inf
bad = 0
while stepper.continual():
    stepper.step(loss); bad += 1                      # steps with no improvement at all
print('patience=2: loop stopped after', bad, 'consecutive steps with no improvement '
      '(docstring: first 2 are ignored, stop after the 3rd)')
if bad != 3:
    print('WRONG: contradicts the class docstring')
    sys.exit(1)
print('ok')
