"""Handled shape-only torch functions raise IndexError when the LieTensor is passed by keyword."""
import sys, torch, pypose as pp
X, Y = pp.randn_SE3(2), pp.randn_SE3(2)
calls = {
    "torch.cat(tensors=[X, Y], dim=0)":                 lambda: torch.cat(tensors=[X, Y], dim=0),
    "torch.stack(tensors=[X, Y])":                      lambda: torch.stack(tensors=[X, Y]),
    "torch.index_select(input=X, dim=0, index=idx)":    lambda: torch.index_select(input=X, dim=0, index=torch.tensor([0])),
    "torch.unsqueeze(input=X, dim=0)":                  lambda: torch.unsqueeze(input=X, dim=0),
    "torch.clone(input=X)":                             lambda: torch.clone(input=X),
}
bad = []
for name, f in calls.items():
    try:
        r = f()
        if not (isinstance(r, pp.LieTensor) and r.ltype is X.ltype):
            bad.append(name + " -> not an SE3 LieTensor")
    except Exception as e:
        bad.append(name + " raises %s: %s" % (type(e).__name__, e))
assert isinstance(torch.cat([X, Y], dim=0), pp.LieTensor)     # positional form works
if bad:
    print("EXISTING DEFECT: handled torch functions fail when the LieTensor operand is a keyword argument:")
    for b in bad: print("  -", b)
    sys.exit(1)
sys.exit(0)
