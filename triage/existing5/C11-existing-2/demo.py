"""Existing defect: euler2SO3 fails on a non-contiguous batch of Euler angles.

euler2SO3 documents input shape (*, 3).  It flattens with euler.view(-1, 3), which raises
RuntimeError when the leading (batch) dimensions cannot be merged without a copy, e.g. a
permuted / transposed batch.  The same values passed as a contiguous tensor work.
"""
import sys, warnings
import torch
import pypose as pp
warnings.filterwarnings("ignore")
torch.manual_seed(0)

base = torch.randn(2, 3, 5, dtype=torch.float64)
euler = base.permute(0, 2, 1)            # shape (2, 5, 3), not contiguous
assert euler.shape == (2, 5, 3) and not euler.is_contiguous()
ref = pp.euler2SO3(euler.contiguous())   # works
try:
    out = pp.euler2SO3(euler)
except Exception as e:
    print("euler2SO3 on a (2, 5, 3) permuted (non-contiguous) tensor raised %s: %s" % (type(e).__name__, e))
    print("DEFECT: a result of shape (2, 5, 4) is promised for any (*, 3) input; "
          "the contiguous copy of the same values converts fine.")
    sys.exit(1)
assert out.shape == ref.shape and torch.equal(out.tensor(), ref.tensor())
print("OK")
