"""Existing defect: the covariance returned by a multi-frame call is not the
documented recursion C_{k+1} = A_k C_k A_k^T + B_k diag(Cg, Ca) B_k^T, and it is
not chunking-invariant (frame-by-frame calls with reset=False DO follow it).
propagate_cov accumulates the transition matrices with cumprod(A.flip([1]), dim=1)
(default left=True), which yields A_k A_{k+1} ... A_{F-1} instead of
A_{F-1} ... A_{k+1} A_k.  float64 is used so that round-off is irrelevant.
Run: cd <checkout> && /venv/bin/python demo.py
"""
import sys, torch, pypose as pp
torch.manual_seed(1)
dtype = torch.float64
B, F = 1, 3
dt = torch.rand(B, F, 1, dtype=dtype) * 0.5 + 0.1
gyro = torch.randn(B, F, 3, dtype=dtype)
acc = torch.randn(B, F, 3, dtype=dtype) * 3

one = pp.module.IMUPreintegrator(gravity=0.).double()
out = one(dt, gyro, acc)

m = pp.module.IMUPreintegrator(gravity=0.).double()
for k in range(F):
    step = m(dt[:, k:k+1], gyro[:, k:k+1], acc[:, k:k+1])

# documented recursion, same A/B blocks as the implementation (Rij = dR_{i,k+1})
Cg = torch.diag_embed(one.gyro_cov[0]); Ca = torch.diag_embed(one.acc_cov[0])
C = torch.zeros(9, 9, dtype=dtype); dR = pp.identity_SO3(dtype=dtype)
for k in range(F):
    h = dt[0, k]; Rk = pp.so3(gyro[0, k] * h).Exp(); dR = dR * Rk
    Rm, Ha = dR.matrix(), pp.vec2skew(acc[0, k])
    A = torch.eye(9, dtype=dtype)
    A[0:3, 0:3] = Rk.matrix().mT
    A[3:6, 0:3] = -Rm @ Ha * h
    A[6:9, 0:3] = -0.5 * Rm @ Ha * h**2
    A[6:9, 3:6] = torch.eye(3, dtype=dtype) * h
    Bg = torch.zeros(9, 3, dtype=dtype); Ba = torch.zeros(9, 3, dtype=dtype)
    Bg[0:3] = Rk.Jr() * h; Ba[3:6] = Rm * h; Ba[6:9] = 0.5 * Rm * h**2
    C = A @ C @ A.mT + (Bg @ Cg @ Bg.mT + Ba @ Ca @ Ba.mT) / h

scale = C.abs().max().item()
d_step = (step['cov'][0] - C).abs().max().item()
d_one = (out['cov'][0] - C).abs().max().item()
d_chunk = (out['cov'] - step['cov']).abs().max().item()
print('cov scale %.3e' % scale)
print('frame-by-frame calls vs documented recursion : %.3e' % d_step)
print('single 3-frame call  vs documented recursion : %.3e' % d_one)
print('single call vs frame-by-frame (chunking)     : %.3e' % d_chunk)
if d_one > 1e-10 * scale or d_chunk > 1e-10 * scale:
    print('FAIL: float64 covariance of a multi-frame call differs from the recursion / from chunked calls '
          '(relative %.1e) - transition matrices are multiplied in the wrong order.' % (d_one / scale))
    sys.exit(1)
print('OK')
