# bsr_bsc_matmul fails for BSR/BSC operands whose index tensors are int32 (a valid and common
# index dtype for torch sparse compressed tensors): idx_dtype is taken from crow_indices and
# used to build the COO helper, which requires int64 indices.
import sys, warnings, torch
warnings.filterwarnings('ignore')
from pypose.sparse.ops import bsr_bsc_matmul
torch.manual_seed(0)
X, Y = torch.randn(4, 6), torch.randn(6, 4)
xb, yb = X.to_sparse_bsr((2, 3)), Y.to_sparse_bsc((3, 2))
ref = bsr_bsc_matmul(xb, yb).to_dense()
assert torch.allclose(ref, X @ Y, atol=1e-5)          # int64 indices: fine
xb32 = torch.sparse_bsr_tensor(xb.crow_indices().int(), xb.col_indices().int(), xb.values(), size=xb.shape)
yb32 = torch.sparse_bsc_tensor(yb.ccol_indices().int(), yb.row_indices().int(), yb.values(), size=yb.shape)
assert torch.equal(xb32.to_dense(), X) and torch.equal(yb32.to_dense(), Y)
try:
    out = bsr_bsc_matmul(xb32, yb32).to_dense()
except Exception as e:
    print("bsr_bsc_matmul with int32 indices raised:", str(e).strip().splitlines()[-1])
    sys.exit(1)
assert torch.allclose(out, X @ Y, atol=1e-5)
print("ok")
