# _sparse_csr_mm layout dispatch: of the 16 BSR/BSC/CSR/CSC operand pairs only 5 return the
# product; the rest raise, among them with TypeErrors caused by plain coding slips:
#  - bsc x bsr: `raise NotImplemented` (not an exception class) -> TypeError
#  - csr|csc x bsr|bsc: `zero = torch.zeros(...),` (trailing comma makes a tuple) -> TypeError in addmm
#  - bsr|bsc x anything but (bsr x bsc): falls through to addmm paths that do not support block layouts
import sys, warnings, torch
warnings.filterwarnings('ignore')
from pypose.sparse.ops import _sparse_csr_mm
torch.manual_seed(0)
X, Y = torch.randn(4, 4), torch.randn(4, 4)
conv = {'bsr': lambda D: D.to_sparse_bsr((2, 2)), 'bsc': lambda D: D.to_sparse_bsc((2, 2)),
        'csr': lambda D: D.to_sparse_csr(), 'csc': lambda D: D.to_sparse_csc()}
bad = []
for lx in conv:
    for ly in conv:
        try:
            out = _sparse_csr_mm(conv[lx](X), conv[ly](Y))
            err = (out.to_dense() - X @ Y).abs().max().item()
            assert err < 1e-5
            print(f"{lx} x {ly}: ok ({out.layout})")
        except BaseException as e:
            print(f"{lx} x {ly}: {type(e).__name__}: {str(e).splitlines()[0][:110]}")
            bad.append((lx, ly))
print(len(bad), "of 16 layout pairs fail:", bad)
sys.exit(1 if bad else 0)
