"""knn_filter with a radius raises instead of returning the retained points when
fewer than k+1 points survive the radius test (including the case where none
survives, where nbr_filter returns an empty (0, D) cloud)."""
import sys, torch, pypose as pp
ok = True
# (a) every point is isolated: nothing has 2 neighbours within radius 1
far = torch.arange(6.).view(6, 1) * 100 * torch.ones(1, 3)
print("nbr_filter(far, 2, 1.) ->", tuple(pp.nbr_filter(far, 2, 1.).shape))
try:
    out = pp.knn_filter(far, k=2, radius=1.)
    print("knn_filter(far, k=2, radius=1.) ->", tuple(out.shape))
    ok &= out.shape == (0, 3)
except Exception as e:
    print("knn_filter(far, k=2, radius=1.) raised %s: %s" % (type(e).__name__, e))
    ok = False
# (b) exactly one point has two others within the radius (its neighbours have only one)
c = torch.tensor([[0., 0, 0], [1, 0, 0], [-1, 0, 0], [100, 0, 0], [200, 0, 0]])
try:
    out = pp.knn_filter(c, k=2, radius=1.)
    print("knn_filter(c, k=2, radius=1.) ->", out.tolist())
except Exception as e:
    print("knn_filter(c, k=2, radius=1.) raised %s: %s" % (type(e).__name__, e))
    ok = False
if not ok:
    print("FAIL: the k nearest neighbours are searched among the retained points only, "
          "and topk(k+1) fails when fewer than k+1 points are retained")
    sys.exit(1)
print("OK")
