"""copy.deepcopy of a frozen pp.Parameter silently turns requires_grad back on."""
import sys, copy, torch, pypose as pp
p = pp.Parameter(pp.randn_SE3(2), requires_grad=False)
q = copy.deepcopy(p)
print("p.requires_grad =", p.requires_grad, " deepcopy(p).requires_grad =", q.requires_grad)
ref = copy.deepcopy(torch.nn.Parameter(torch.randn(2), requires_grad=False))
print("torch.nn.Parameter reference: deepcopy keeps requires_grad =", ref.requires_grad)
if q.requires_grad != p.requires_grad:
    print("EXISTING DEFECT: Parameter.__deepcopy__ drops requires_grad=False (rebuilds with the default True)")
    sys.exit(1)
sys.exit(0)
