"""PF ignores the `t` argument when propagating particles (and rejects the documented int)."""
import sys, warnings; warnings.filterwarnings('ignore')
import torch, pypose as pp

class Drift(pp.module.NLS):                     # time-varying: x' = x + u + 100 t,  y = x'
    def state_transition(self, state, input, t=None):
        return state + input + 100. * t
    def observation(self, state, input, t=None):
        return state

torch.manual_seed(0)
x, u = torch.zeros(2), torch.zeros(2)
P, Q, R = torch.eye(2), torch.eye(2) * .01, torch.eye(2) * 100.
y = torch.tensor([500., 500.])                  # what the system produces at t = 5
t = torch.tensor(5)
bad = []
ekf_x, _ = pp.module.EKF(Drift())(x, y, u, P, Q, R, t=t)
model = Drift()
pf = pp.module.PF(model, particles=5000)
pf_x, _ = pf(x, y, u, P, Q, R, t=t)
print('EKF(t=5) estimate:', ekf_x.tolist(), ' PF(t=5) estimate:', pf_x.tolist(), ' (truth ~ [500, 500])')
if (pf_x - 500.).abs().max() > 50.:
    bad.append('PF.forward propagates the particles with self.model(xp, u), i.e. at the model\'s '
               'internal clock (0 here), not at the t it was given; only the likelihood uses t.')
print('model.systime after one PF step:', int(model.systime), '(was 0; EKF/UKF leave it untouched)')
if int(model.systime) != 0:
    bad.append('PF.forward advances the model clock as a side effect (calls model.forward).')
try:
    pf(x, y, u, P, Q, R, t=5)                   # docstring: "t (int, optional)"
except TypeError as e:
    bad.append('PF.forward documents t as int, but t=5 raises TypeError: %s' % str(e).split('\n')[0][:90])
for b in bad:
    print('WRONG:', b)
sys.exit(1 if bad else 0)
