"""pixel2point documents pixels (..., N, 2), depth (..., N), intrinsics (..., 3, 3)
and broadcasts pixels against batched intrinsics, but it then stacks the
un-broadcast depth with the broadcast x, y and raises; point2pixel accepts the
same combination of batch shapes."""
import sys, torch, pypose as pp
torch.manual_seed(0)
K = torch.tensor([[2., 0., 4.5], [0., 2., 4.5], [0., 0., 1.]])
Ks = torch.stack([K, 2 * K.clone()]); Ks[1, 2, 2] = 1.        # two cameras
pts = torch.rand(5, 3) + torch.tensor([0., 0., 1.])
px = pp.point2pixel(pts, Ks)                                   # (2, 5, 2): works
print("point2pixel((5,3), (2,3,3)) ->", tuple(px.shape))
pixels, depth = torch.rand(5, 2) * 9, torch.rand(5) + 1
try:
    out = pp.pixel2point(pixels, depth, Ks)
    print("pixel2point((5,2), (5,), (2,3,3)) ->", tuple(out.shape))
    ref = torch.stack([pp.pixel2point(pixels, depth, Ks[i]) for i in range(2)])
    assert torch.allclose(out, ref)
except RuntimeError as e:
    print("pixel2point((5,2), (5,), (2,3,3)) raised:", e)
    print("FAIL: one set of pixels / depths cannot be back-projected through a batch of cameras")
    sys.exit(1)
print("OK")
