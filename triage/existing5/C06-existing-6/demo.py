"""pp.Exp / Log / Inv / Act / ... cannot be called with their documented argument names."""
import sys, torch, pypose as pp
x, X = pp.randn_se3(2), pp.randn_SE3(2)
calls = {
    "pp.Exp(input=x)":        lambda: pp.Exp(input=x),
    "pp.Log(input=X)":        lambda: pp.Log(input=X),
    "pp.Inv(x=X)":            lambda: pp.Inv(x=X),
    "pp.Act(X=X, p=points)":  lambda: pp.Act(X=X, p=torch.randn(2, 3)),
    "pp.Retr(X=X, a=x)":      lambda: pp.Retr(X=X, a=x),
}
bad = []
for name, f in calls.items():
    try: f()
    except Exception as e: bad.append("%s raises %s: %s" % (name, type(e).__name__, e))
if bad:
    print("EXISTING DEFECT: the assert_ltype decorator indexes args[0], so keyword calls fail:")
    for b in bad: print("  -", b)
    sys.exit(1)
sys.exit(0)
