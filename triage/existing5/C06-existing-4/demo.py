"""LieTensor.lview documents `shape (torch.Size or int...)` but the torch.Size / tuple form raises."""
import sys, torch, pypose as pp
x = pp.randn_SE3(8)
assert x.lview(2, 4).lshape == (2, 4)           # int... form works
bad = []
for shape in (torch.Size([2, 4]), (2, 4), pp.randn_SE3(2, 4).lshape):
    try:
        y = x.lview(shape)
        assert y.lshape == (2, 4)
    except Exception as e:
        bad.append("x.lview(%r) raises %s: %s" % (shape, type(e).__name__, e))
if bad:
    print("EXISTING DEFECT (x.view(torch.Size([2,4,7])) works, lview's documented torch.Size form does not):")
    for b in bad: print("  -", b)
    sys.exit(1)
sys.exit(0)
