"""Unchanged code: for a batched reference state (shape [B, N]) the NLS matrices are the full
cross-batch Jacobians of shape [B, N, B, N], and c1 / c2 are computed with bmv on them, which
multiplies batch element i of x* with the blocks of ALL batch elements.  c1 then has shape
[B, N, B] (or the subtraction raises when B != N and B != 1), so A x* + B u* + c1 does not
reproduce f(x*, u*, t*).  Only B == 1 or unbatched states work."""
import sys, warnings
warnings.filterwarnings('ignore')
import torch, pypose as pp

class S(pp.module.NLS):           # written for states of shape [..., 2], inputs [..., 1]
    def state_transition(self, x, u, t=None):
        return torch.stack((x[..., 0] * x[..., 1].sin() + u[..., 0], x[..., 1] ** 2 + x[..., 0] * u[..., 0]), -1)
    def observation(self, x, u, t=None):
        return torch.stack((x[..., 0] * u[..., 0], x[..., 1].cos()), -1)

torch.manual_seed(0)
ok = True
for Bn in (2, 3):
    X, U, t = torch.randn(Bn, 2), torch.randn(Bn, 1), torch.tensor(1)
    s = S()
    s.set_refpoint(X, U, t)
    f = s.state_transition(X, U, t)
    try:
        c1 = s.c1
        print('B=%d: f(x*) has shape %s, A %s, c1 %s' % (Bn, tuple(f.shape), tuple(s.A.shape), tuple(c1.shape)))
        if c1.shape != f.shape:
            ok = False
            # per-sample reference
            for i in range(Bn):
                si = S(); si.set_refpoint(X[i], U[i], t)
                print('   sample %d: unbatched c1 = %s' % (i, si.c1.tolist()))
            print('   batched c1 =', c1.tolist())
    except Exception as e:
        ok = False
        print('B=%d: reading c1 raised %s: %s' % (Bn, type(e).__name__, e))
if not ok:
    print('FAIL: c1 of a batched reference point is not f(x*) - A x* - B u* per batch element')
    sys.exit(1)
print('PASS')
