"""randn_se3 / randn_SE3 / randn_sim3 / randn_Sim3 document a `generator` argument but raise with it."""
import sys, torch, pypose as pp
g = torch.Generator().manual_seed(0)
bad = []
for name in ("randn_so3", "randn_SO3", "randn_rxso3", "randn_RxSO3", "randn_se3", "randn_SE3", "randn_sim3", "randn_Sim3"):
    try:
        x = getattr(pp, name)(2, generator=g)
        assert x.lshape == (2,)
    except Exception as e:
        bad.append("pp.%s(2, generator=g) raises %s: %s" % (name, type(e).__name__, e))
if bad:
    print("EXISTING DEFECT (documented `generator` keyword is forwarded to torch.tensor()):")
    for b in bad: print("  -", b)
    sys.exit(1)
sys.exit(0)
