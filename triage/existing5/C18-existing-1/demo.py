"""reprojerr(..., reduction='sum') is documented as the per-pixel L1 norm of the
reprojection error, but it returns the signed sum of the (u, v) components, so it
is zero for pixels that were NOT produced by point2pixel."""
import sys, torch, pypose as pp
K = torch.tensor([[2., 0., 4.5], [0., 2., 4.5], [0., 0., 1.]])
pts = torch.tensor([[1., 0., 2.], [0., 1., 1.]])
px = pp.point2pixel(pts, K)
bad = px + torch.tensor([1., -1.])          # every pixel is off by (+1, -1)
e_sum = pp.reprojerr(pts, bad, K, reduction='sum')
e_norm = pp.reprojerr(pts, bad, K, reduction='norm')
print("reduction='norm':", e_norm.tolist())
print("reduction='sum' :", e_sum.tolist(), "(documented: L1 norm, expected [2.0, 2.0])")
if not torch.allclose(e_sum, torch.full((2,), 2.0)):
    print("FAIL: 'sum' reduction is a signed sum, not the L1 norm; the error is 0 for wrong pixels")
    sys.exit(1)
print("OK")
