"""Existing defect: MPC (and LQR) on a time-varying LINEAR system is not optimal as soon as
the step interval `dt` is not 1 (MPC's first, mandatory argument; 0.01 in the library's own
docstring example).  LQR.lqr_backward linearises at `set_refpoint(t=torch.tensor(t*dt))`,
and LTV.set_refpoint copies that value into the integer step counter `_t` (0.5*t is
truncated, 2*t skips), whereas the roll-outs advance the counter by one per step.  The
backward recursion therefore uses A_{int(t*dt)}, B_{int(t*dt)} while the trajectory obeys
A_t, B_t, so the returned inputs are not a stationary point of the reported cost.
"""
import sys, warnings, torch, pypose as pp
warnings.filterwarnings('ignore')

torch.manual_seed(0)
dt64 = torch.float64
B, T, ns, nc = 1, 5, 3, 2
nsc = ns + nc
Q = torch.randn(B, T, nsc, nsc, dtype=dt64); Q = Q.mT @ Q + torch.eye(nsc, dtype=dt64)
p = torch.randn(B, T, nsc, dtype=dt64)
L = 2 * T
A = torch.eye(ns, dtype=dt64) + 0.3 * torch.randn(B, L, ns, ns, dtype=dt64)
Bm = torch.randn(B, L, ns, nc, dtype=dt64)
C = torch.eye(ns, dtype=dt64).repeat(B, L, 1, 1)
D = torch.zeros(B, L, ns, nc, dtype=dt64)
x_init = torch.randn(B, ns, dtype=dt64)


class MyLTV(pp.module.LTV):
    @property
    def A(self): return self._A[..., self._t, :, :]
    @property
    def B(self): return self._B[..., self._t, :, :]
    @property
    def C(self): return self._C[..., self._t, :, :]
    @property
    def D(self): return self._D[..., self._t, :, :]


def total_cost(u):
    x, cost, xs = x_init, 0., [x_init]
    for t in range(T):
        tau = torch.cat((x, u[:, t]), -1)
        cost = cost + 0.5 * torch.einsum('bi,bij,bj->b', tau, Q[:, t], tau) + (p[:, t] * tau).sum(-1)
        x = torch.einsum('bij,bj->bi', A[:, t], x) + torch.einsum('bij,bj->bi', Bm[:, t], u[:, t])
        xs.append(x)
    return cost, torch.stack(xs, 1)


def report(tag, x, u, cost):
    uu = u.detach().clone().requires_grad_()
    c, xs = total_cost(uu)
    g, = torch.autograd.grad(c.sum(), uu)
    feas = (xs.detach() - x).abs().max().item()
    cerr = (c.detach() - cost).abs().max().item()
    print(f"[{tag}] feasible(A_t,B_t) err {feas:.1e}  cost err {cerr:.1e}  "
          f"max |dcost/du| {g.abs().max().item():.2e}  cost {cost.item():.6f}")
    return feas < 1e-8 and cerr < 1e-8 and g.abs().max().item() < 1e-7


ok = True
x, u, c = pp.module.LQR(MyLTV(A, Bm, C, D), Q, p, T)(x_init)              # dt = 1
ok &= report("LQR dt=1   ", x, u, c)
for dt in (1, 0.5, 0.01, 2):
    mpc = pp.module.MPC(MyLTV(A, Bm, C, D), Q, p, T, stepper=pp.utils.ReduceToBason(steps=5))
    xm, um, cm = mpc(dt, x_init)
    ok &= report(f"MPC dt={dt:<4}", xm, um, cm)
xl, ul, cl = pp.module.LQR(MyLTV(A, Bm, C, D), Q, p, T)(x_init, dt=2)
ok &= report("LQR dt=2   ", xl, ul, cl)

if not ok:
    print("DEFECT: with dt != 1 the trajectory still follows A_t, B_t and the cost is consistent, "
          "but it is not the minimiser (non-zero gradient, higher cost than the dt=1 solution)")
    sys.exit(1)
print("ok")
