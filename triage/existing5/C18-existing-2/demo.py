"""point2pixel uses the full intrinsic matrix (including the skew entry K[0,1]);
pixel2point only reads fx, fy, cx, cy and ignores the skew, so the two are not
mutually inverse for intrinsics with non-zero skew."""
import sys, torch, pypose as pp
torch.manual_seed(0)
K = torch.tensor([[500., 3., 320.], [0., 480., 240.], [0., 0., 1.]])   # skew = 3
p = torch.rand(5, 3) + torch.tensor([0., 0., 1.])
pix = pp.point2pixel(p, K)
back = pp.pixel2point(pix, p[:, 2], K)
err = (back - p).abs().max().item()
print("max |pixel2point(point2pixel(p), z) - p| = %.3e" % err)
pix2 = pp.point2pixel(back, K)
err2 = (pix2 - pix).abs().max().item()
print("max |point2pixel(pixel2point(px, z)) - px| = %.3e pixel" % err2)
if err > 1e-4 or err2 > 1e-2:
    print("FAIL: pixel2point ignores the skew term K[0,1] that point2pixel applies")
    sys.exit(1)
print("OK")
