"""Existing defect: forward() documents init_state entries with shape (B, H_in)
("pos, rot, vel ... with the shape (B, H_in)"), but for B > 1 that shape raises;
only the undocumented shape (B, 1, H) works.
Run: cd <checkout> && /venv/bin/python demo.py
"""
import sys, torch, pypose as pp
torch.manual_seed(0)
bad = []
for B, F in ((2, 5), (3, 3), (4, 1)):
    dt = torch.rand(B, F, 1) * 0.1 + 1e-3; gyro = torch.randn(B, F, 3); acc = torch.randn(B, F, 3)
    p, r, v = torch.randn(B, 3), pp.randn_SO3(B), torch.randn(B, 3)
    ok = pp.module.IMUPreintegrator(reset=True)(dt, gyro, acc,
            init_state={'pos': p[:, None], 'rot': r[:, None], 'vel': v[:, None]})
    try:
        out = pp.module.IMUPreintegrator(reset=True)(dt, gyro, acc, init_state={'pos': p, 'rot': r, 'vel': v})
        if out['pos'].shape != ok['pos'].shape or not torch.allclose(out['pos'], ok['pos'], atol=1e-5):
            bad.append(f'B={B},F={F}: documented (B,H) init_state gives a different result than (B,1,H)')
    except Exception as e:
        bad.append(f'B={B},F={F}: documented (B,H) init_state raises {type(e).__name__}: {str(e)[:100]}')
if bad:
    print('FAIL:'); [print('  ', b) for b in bad]; sys.exit(1)
print('OK')
