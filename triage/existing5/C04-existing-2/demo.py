"""
Existing behaviour (unchanged tree): the Jacobian of RxSO3.AdjT cannot be computed with the
vectorised routes (pp.func.jacrev, torch.autograd.functional.jacobian(vectorize=True) - the mode
pp.optim.functional.modjac is driven with by the LM/GN optimisers by default), although the plain
row-by-row route works and all other group types (SO3, SE3, Sim3) work in every route.

RxSO3_AdjTXa.backward calls rxso3_adj(a_grad), which writes vec2skew(a_grad[..., :3]) in place into a
freshly allocated (unbatched) zeros buffer; under vmap a_grad is batched, so the in-place write raises
"vmap: inplace arithmetic(self, *extra_args) is not possible ...".
"""
import sys, warnings
warnings.filterwarnings('ignore')
import torch
import pypose as pp
from torch.autograd.functional import jacobian

torch.manual_seed(0)
D = torch.float64
TYPES = {'SO3': (pp.randn_SO3, pp.randn_so3), 'SE3': (pp.randn_SE3, pp.randn_se3),
         'Sim3': (pp.randn_Sim3, pp.randn_sim3), 'RxSO3': (pp.randn_RxSO3, pp.randn_rxso3)}
failed = False
for name, (rg, ra) in TYPES.items():
    X, a = rg(1, dtype=D), ra(1, dtype=D)
    f = lambda X: X.AdjT(a).tensor()
    J_loop = jacobian(f, X, vectorize=False)
    for route, call in (('jacobian(vectorize=True)', lambda: jacobian(f, X, vectorize=True)),
                        ('pp.func.jacrev', lambda: pp.func.jacrev(f)(X))):
        try:
            J = call()
            err = (J - J_loop).abs().max().item()
            print('%-6s AdjT %-26s ok, max diff to row-by-row Jacobian %.1e' % (name, route, err))
            failed |= err > 1e-12
        except Exception as e:
            failed = True
            print('%-6s AdjT %-26s RAISES %s: %s' % (name, route, type(e).__name__, str(e).split(chr(10))[0][:110]))
sys.exit(1 if failed else 0)
