"""The 'Batched' EKF / UKF / PF raise on batched inputs."""
import sys, warnings; warnings.filterwarnings('ignore')
import torch, pypose as pp

class NLS(pp.module.NLS):                       # the model of the class docstrings
    def state_transition(self, state, input, t=None):
        return state.cos() + input
    def observation(self, state, input, t=None):
        return state.sin() + input

torch.manual_seed(0)
B, N = 3, 2
Q, R = torch.eye(N) * .01, torch.eye(N) * .01
P = (torch.eye(N) + .2).repeat(B, 1, 1)
x, y, u = torch.randn(B, N), torch.randn(B, N), torch.randn(B, N)
bad = 0
for F in (pp.module.EKF, pp.module.UKF, pp.module.PF):
    f = F(NLS())
    try:
        xb, Pb = f(x, y, u, P, Q, R)
        assert xb.shape == (B, N) and Pb.shape == (B, N, N), (xb.shape, Pb.shape)
        if F is not pp.module.PF:
            for i in range(B):
                xi, Pi = f(x[i], y[i], u[i], P[i], Q, R)
                assert torch.allclose(xb[i], xi, atol=1e-5) and torch.allclose(Pb[i], Pi, atol=1e-5)
        print(F.__name__, 'batched call ok')
    except Exception as e:
        bad += 1
        print('WRONG: %s ("Performs Batched ...") on x,y,u of shape (3,2), P (3,2,2): %s: %s'
              % (F.__name__, type(e).__name__, str(e).split('\n')[0][:110]))
sys.exit(1 if bad else 0)
