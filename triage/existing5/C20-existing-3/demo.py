"""Existing defect (docstring contract): StopOnPlateau documents `decreasing` as the RELATIVE loss
decrease ("relative loss decreasing used to count the number of patience steps", and verbose mode
prints reduction/loss), but step() compares the ABSOLUTE decrease last - loss with it.
With a loss around 1e4 that improves by only 1e-5 relative (0.1 absolute) per step and
decreasing=1e-3, patience=2, the documented rule stops after 2 steps; the code runs to the budget."""
import sys, torch, pypose as pp
from torch import nn

class Net(nn.Module):
    def __init__(self):
        super().__init__()
        self.x = nn.Parameter(torch.zeros(1))
    def forward(self, inp):
        return self.x * inp

opt = pp.optim.GN(Net())
sch = pp.optim.scheduler.StopOnPlateau(opt, steps=10, patience=2, decreasing=1e-3)
# drive the scheduler with a prescribed loss history through the attributes it reads
losses = [1e4 - 0.1 * k for k in range(12)]
n = 0
while sch.continual():
    opt.last, opt.loss = torch.tensor(losses[n]), torch.tensor(losses[n + 1])
    sch.step(opt.loss); n += 1
rel = (losses[0] - losses[1]) / losses[0]
print('relative decrease per step %.1e < decreasing=1e-3, patience=2 -> documented stop after 2 steps; '
      'scheduler stopped after %d steps' % (rel, n))
if n != 2:
    print('WRONG: `decreasing` is applied to the absolute decrease, contradicting the docstring')
    sys.exit(1)
print('ok')
