# CG with b == 0 returns the input tensor b itself (or a view of it for 1-D b) instead of a fresh
# zero solution: every other path returns a new tensor, so code that updates the returned
# solution in place silently corrupts its right-hand side.
import sys, torch
from pypose.optim.solver import CG
A = torch.tensor([[2., 0.], [0., 3.]])
cg = CG()
b = torch.zeros(2, 1)
x = cg(A, b)
assert (x == 0).all()
x += 1.0                       # e.g. accumulate an update into the returned solution
print("b after in-place update of the returned solution:", b.flatten().tolist())
b1 = torch.zeros(2)
x1 = cg(A, b1); x1 += 1.0
print("1-D b after the same:", b1.tolist())
if (b != 0).any() or (b1 != 0).any():
    print("returned solution aliases the right-hand side (x is b:", x is b, ")")
    sys.exit(1)
print("ok")
