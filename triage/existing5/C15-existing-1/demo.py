"""Unchanged code: inside torch.inference_mode() the NLS linearisation silently returns
all-zero A, B, C, D (and therefore c1 = f(x*), c2 = g(x*)), instead of the Jacobians or an error.
torch.autograd.functional.jacobian(strict=False) yields zeros when the outputs carry no graph,
and its internal enable_grad() cannot override inference mode. Under torch.no_grad() it is fine."""
import sys, warnings
warnings.filterwarnings('ignore')
import torch, pypose as pp

class S(pp.module.NLS):
    def state_transition(self, x, u, t=None):
        return torch.stack((x[0] * x[1].sin() + u[0], x[1] ** 2 + x[0] * u[0]))
    def observation(self, x, u, t=None):
        return torch.stack((x[0] * u[0], x[1].cos()))

x, u, t = torch.tensor([0.3, -0.7]), torch.tensor([0.5]), torch.tensor(3)
s = S()
s.set_refpoint(x, u, t)
ref = [s.A, s.B, s.C, s.D, s.c1, s.c2]
with torch.no_grad():
    s.set_refpoint(x, u, t)
    ng = [s.A, s.B, s.C, s.D, s.c1, s.c2]
with torch.inference_mode():
    s.set_refpoint(x, u, t)
    im = [s.A, s.B, s.C, s.D, s.c1, s.c2]
ok = True
for n, a, b, c in zip('A B C D c1 c2'.split(), ref, ng, im):
    e_ng, e_im = float((a - b).abs().max()), float((a - c).abs().max())
    print('%-2s  eager vs no_grad: %.2e   eager vs inference_mode: %.2e   (inference_mode value %s)'
          % (n, e_ng, e_im, c.flatten().tolist()))
    ok &= e_ng < 1e-6 and e_im < 1e-6
if not ok:
    print('FAIL: linearisation under torch.inference_mode() is silently wrong (zero Jacobians)')
    sys.exit(1)
print('PASS')
