"""pypose.Exp docstring (pypose/lietensor/utils.py) vs. behaviour for sim3 inputs.

The docstring defines the translation coupling  W = A*Phi + B*Phi^2 + C*I  and, for
|sigma| >= eps and theta >= eps,
    B = ( C - ((s cos(theta) - 1) sigma + s sin(theta) sigma) / (theta^2 + sigma^2) ) / theta^2 .
This program evaluates the documented A, B, C literally and compares W*tau with the
translation returned by pp.sim3(x).Exp() and with expm of the generator.
"""
import sys, warnings
import torch
warnings.filterwarnings("ignore")
import pypose as pp

dt = torch.float64
tau = torch.tensor([1., -2., 3.], dtype=dt)
phi = 1.0 * torch.tensor([0.6, 0.0, 0.8], dtype=dt)
sigma = torch.tensor(0.4, dtype=dt)
theta, s = phi.norm(), sigma.exp()
Phi = pp.vec2skew(phi)

# coefficients exactly as written in the docstring of pypose.Exp (case |sigma|>=eps, theta>=eps)
C = (s - 1) / sigma
A = (s * theta.sin() * sigma + (1 - s * theta.cos()) * theta) / (theta * (sigma**2 + theta**2))
B = (C - ((s * theta.cos() - 1) * sigma + s * theta.sin() * sigma) / (theta**2 + sigma**2)) / theta**2
t_doc = (A * Phi + B * Phi @ Phi + C * torch.eye(3, dtype=dt)) @ tau

x = pp.sim3(torch.cat([tau, phi, sigma[None]]))
t_lib = x.Exp().translation()

G = torch.zeros(4, 4, dtype=dt)
G[:3, :3] = Phi + sigma * torch.eye(3, dtype=dt); G[:3, 3] = tau
t_expm = torch.linalg.matrix_exp(G)[:3, 3]

print("translation per docstring formula :", t_doc.tolist())
print("translation returned by Exp       :", t_lib.tolist())
print("translation of expm(generator)    :", t_expm.tolist())
d_doc = (t_doc - t_lib).norm() / t_lib.norm()
d_expm = (t_expm - t_lib).norm() / t_lib.norm()
print("rel. difference docstring vs Exp: %.2e ; expm vs Exp: %.2e" % (d_doc, d_expm))
if d_doc > 1e-9:
    print("MISMATCH: pypose.Exp does not compute what its docstring specifies for B "
          "(docstring has 's sin(theta) sigma' where the implementation, and the true "
          "exponential, need 's sin(theta) theta').")
    sys.exit(1)
print("OK")
