"""copy.deepcopy of a LieTensor does not keep the ltype: the copy carries a *new* SE3Type()
instance instead of the library singleton pp.SE3_type, so identity / membership checks
used by the library itself (`ltype in liegroup`, `ltype == SE3_type`) fail on the copy."""
import sys, copy, warnings, torch, pypose as pp
x = pp.randn_SE3(3)
y = copy.deepcopy(x)
problems = []
if y.ltype is not x.ltype:
    problems.append("deepcopy(x).ltype is not x.ltype (%r vs %r)" % (y.ltype, x.ltype))
if not (y.ltype == pp.SE3_type):
    problems.append("deepcopy(x).ltype == pp.SE3_type is False")
with warnings.catch_warnings(record=True) as w:
    warnings.simplefilter("always")
    z = pp.quat2unit(pp.LieTensor(y.tensor() * 2, ltype=y.ltype))
    if any("not Lie group" in str(i.message) for i in w):
        problems.append("pp.quat2unit(copy) treats the SE3 copy as 'not Lie group' and does not normalise it "
                        "(quaternion norm %.3f)" % z.tensor()[0, 3:7].norm().item())
try:
    pp.from_matrix(torch.eye(4), ltype=y.ltype)
except ValueError as e:
    problems.append("pp.from_matrix(eye(4), ltype=copy.ltype) raises ValueError")
if problems:
    print("EXISTING DEFECT: copy.deepcopy(LieTensor) loses the ltype singleton:")
    for p in problems: print("  -", p)
    sys.exit(1)
print("ok"); sys.exit(0)
