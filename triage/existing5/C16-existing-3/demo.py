"""Existing defect: a Python int for `gravity` (the natural way to write zero
gravity, IMUPreintegrator(gravity=0)) builds an int64 gravity buffer; the
constructor succeeds but every forward() raises a dtype error.  gravity=0.0 works.
Run: cd <checkout> && /venv/bin/python demo.py
"""
import sys, torch, pypose as pp
torch.manual_seed(0)
dt = torch.rand(2, 5, 1) * 0.1 + 1e-3; gyro = torch.randn(2, 5, 3); acc = torch.randn(2, 5, 3)
ref = pp.module.IMUPreintegrator(gravity=0.)(dt, gyro, acc)
bad = []
for g in (0, 10):
    for known in (False, True):
        m = pp.module.IMUPreintegrator(gravity=g)
        try:
            out = m(dt, gyro, acc, pp.identity_SO3(2, 5) if known else None)
            if g == 0 and not torch.allclose(out['pos'], ref['pos']):
                bad.append(f'gravity={g!r}: result differs from gravity=0.0')
        except Exception as e:
            bad.append(f'gravity={g!r} (buffer dtype {m.gravity.dtype}) known_rot={known}: {type(e).__name__}: {str(e)[:80]}')
if bad:
    print('FAIL:'); [print('  ', b) for b in bad]; sys.exit(1)
print('OK')
