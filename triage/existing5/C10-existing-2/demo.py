# CG raises as soon as A or b requires grad (grad mode enabled, the PyTorch default):
# the iteration uses torch.matmul(..., out=q), and out= variants refuse autograd inputs.
# The same call under torch.no_grad() or with plain tensors works.
import sys, torch
from pypose.optim.solver import CG
torch.manual_seed(0)
n = 5
Q, _ = torch.linalg.qr(torch.randn(n, n))
A = Q @ torch.diag(torch.linspace(1, 5, n)) @ Q.mT
A = (A + A.mT) / 2
b = torch.randn(n, 1)
cg = CG()
x = cg(A, b)
assert torch.linalg.norm(b - A @ x) <= 1e-4 * torch.linalg.norm(b)
failed = False
for name, (Ai, bi) in {'A.requires_grad': (A.clone().requires_grad_(), b),
                       'b.requires_grad': (A, b.clone().requires_grad_())}.items():
    try:
        xi = cg(Ai, bi)
        assert torch.linalg.norm(b - A @ xi.detach()) <= 1e-4 * torch.linalg.norm(b)
        print(name, "ok")
    except RuntimeError as e:
        print(name, "-> CG raised RuntimeError:", str(e)[:140])
        failed = True
sys.exit(1 if failed else 0)
