"""Existing defect: _Scheduler.state_dict() contains the `continual` wrapper object, which holds a
reference to the scheduler it was created for.  load_state_dict() installs that wrapper in the
receiving scheduler, so afterwards B.continual() reports the state of scheduler A, not of B.
A restored scheduler therefore never stops on its own budget (loop exceeds `steps`)."""
import sys, torch, pypose as pp
from torch import nn

class Net(nn.Module):
    def __init__(self):
        super().__init__()
        self.x = nn.Parameter(torch.tensor([3.0, -2.0]))
    def forward(self, inp):
        return self.x * inp

def make(steps):
    net = Net()
    opt = pp.optim.GN(net)
    return opt, pp.optim.scheduler.StopOnPlateau(opt, steps=steps, patience=100, decreasing=-1.0)

inp = torch.ones(2)
optA, A = make(steps=3)
state = A.state_dict()          # checkpoint of a fresh scheduler (documented API)
optB, B = make(steps=3)
B.load_state_dict(state)        # restore into another scheduler

n = 0
while B.continual() and n < 20:
    B.step(optB.step(inp)); n += 1
print('budget steps=3; restored scheduler B made', n, 'steps; B.steps =', B.steps,
      ' B._continual =', B._continual, ' B.continual() =', B.continual(),
      ' wrapper bound to A:', B.continual.optimizer is A)
if n != 3:
    print('WRONG: after load_state_dict the continual() of B answers for scheduler A; '
          'B ran past its step budget')
    sys.exit(1)
print('ok')
