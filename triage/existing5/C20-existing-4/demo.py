"""Existing defect: MPC.__init__ permanently decrements the caller's stepper budget
(`self.stepper.max_steps -= 1`).  (a) A stepper that is handed to a second MPC (or re-used to
rebuild the MPC) loses one more step each time, so the loop stops before the configured budget
although no stopping condition holds;  (b) with steps=1 the budget becomes 0 and MPC still
performs 2 LQR solves (1 in the loop + 1 with gradient), i.e. more than `steps`."""
import sys, torch, pypose as pp

torch.manual_seed(0)
n_state, n_ctrl, T, dt = 2, 1, 4, 1
A = torch.tensor([[1.0, 0.5], [0.0, 1.0]]); B = torch.tensor([[0.0], [1.0]])
C = torch.eye(2); D = torch.zeros(2, 1)
Q = torch.tile(torch.eye(n_state + n_ctrl), (1, T, 1, 1))
p = torch.randn(1, T, n_state + n_ctrl)
x0 = torch.tensor([[1.0, -1.0]])

def count_lqr(stepper):
    lti = pp.module.LTI(A, B, C, D)
    mpc = pp.module.MPC(lti, Q, p, T, stepper=stepper)
    calls = [0]
    orig = mpc.lqr.forward
    def fwd(*a, **k):
        calls[0] += 1
        return orig(*a, **k)
    mpc.lqr.forward = fwd
    mpc(dt, x0)
    return calls[0]

ok = True
# never stop on patience / tol: only the budget can end the loop
mk = lambda s: pp.utils.ReduceToBason(steps=s, patience=100, decreasing=-1e9, tol=-1e9)

s = mk(5)
first = count_lqr(s)
second = count_lqr(s)       # same configured stepper, new MPC object
print('steps=5: LQR solves with the 1st MPC =', first, ', with a 2nd MPC built on the same stepper =',
      second, ', stepper.max_steps is now', s.max_steps)
if not (first == 5 and second == 5):
    ok = False
    print('WRONG: the stepper budget shrinks with every MPC constructed on it')

one = count_lqr(mk(1))
print('steps=1: LQR solves =', one)
if one > 1:
    ok = False
    print('WRONG: more LQR solves than the configured step budget')
sys.exit(0 if ok else 1)
