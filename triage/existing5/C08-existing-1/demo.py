"""LM accepts a trial whose loss is NaN although rejections are left.

The accept/reject test is `self.last < self.loss`; with loss = NaN the comparison is False, so the
trial is treated as "not worse", the loop ends and the NaN parameters/loss are kept.  An inf loss
is rejected as expected; NaN is not.
Model: residual log(x), x0 = 5.  The (almost) undamped first trial is x - x*log(x) = -3.05, where
log() is NaN; a damped trial (which the remaining 16 rejections would have reached) stays at x > 0
and lowers the loss.
"""
import sys
import torch
import pypose as pp
from torch import nn


class LogModel(nn.Module):
    def __init__(self):
        super().__init__()
        self.x = nn.Parameter(torch.tensor([5.0]))

    def forward(self, _):
        return torch.log(self.x).view(-1, 1)


for name, strategy in (('TrustRegion', pp.optim.strategy.TrustRegion()),
                       ('Adaptive', pp.optim.strategy.Adaptive()),
                       ('Constant', pp.optim.strategy.Constant())):
    model = LogModel()
    optimizer = pp.optim.LM(model, strategy=strategy, reject=16)
    before = model(None).square().sum().item()
    loss = optimizer.step(None)
    print('%s: loss before %.4f, step() returned %s, x = %s, rejections used %d of %d'
          % (name, before, loss.item(), model.x.item(), optimizer.reject_count, optimizer.reject))
    ok = torch.isfinite(loss) and loss.item() <= before and torch.isfinite(model.x).all()
    if not ok:
        print('VIOLATION: LM accepted a NaN trial with %d rejections left; parameters were left at a point '
              'where the loss is NaN instead of being restored' % (optimizer.reject - optimizer.reject_count))
        sys.exit(1)
print('OK')
