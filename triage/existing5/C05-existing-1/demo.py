"""`X += a` on a Lie-group LieTensor does not perform the Lie-group addition that `X + a` and
`X.add_(a)` perform.  LieTensor defines __add__ and add_ but no __iadd__, so the augmented
assignment falls through to torch.Tensor.__iadd__, i.e. an element-wise addition on the raw
storage: with an increment that has the storage width of X (the shape of X.grad, which the
documentation of pp.add explicitly allows, the extra component being ignored) the result is
silently not a group element; with an increment of the algebra width it raises."""
import sys
import torch
import pypose as pp

torch.manual_seed(0)
X = pp.randn_SE3(2)
a = torch.cat([0.1 * torch.randn(2, 6), torch.zeros(2, 1)], dim=-1)   # like X.grad: 7 wide, last ignored
ref = pp.se3(a[..., :6]).Exp() @ X

Y = X.clone(); Y = Y + a
Z = X.clone(); Z.add_(a)
W = X.clone(); W += a

print('X + a     vs Exp(a)@X :', (Y - ref).abs().max().item())
print('X.add_(a) vs Exp(a)@X :', (Z - ref).abs().max().item())
print('X += a    vs Exp(a)@X :', (W - ref).abs().max().item())
print('quaternion norm after X += a:', W.tensor()[..., 3:].norm(dim=-1).tolist())
ok = torch.allclose(W.tensor(), ref.tensor(), atol=1e-5)
try:
    V = X.clone(); V += a[..., :6]
except RuntimeError as e:
    print('X += a (6-wide a) raises:', str(e)[:90])
    ok = False
if not ok:
    print('FAIL: `X += a` is a raw element-wise addition, not Exp(a) @ X')
    sys.exit(1)
print('PASS')
