"""The docstring example of pypose.optim.kernel.Tolerant shows the output of Arctan, not of Tolerant.
Run from the checkout: exits non-zero while the docstring example contradicts the implementation
(and the closed form given in the same docstring)."""
import re, sys, math, torch
import pypose.optim.kernel as ppok

doc = ppok.Tolerant.__doc__
nums = re.search(r'>>> kernel\(input\)\s+tensor\(\[([^\]]*)\]\)', doc).group(1)
documented = torch.tensor([float(v) for v in nums.split(',')])
x = torch.tensor([0, 0.5, 1, 2, 3])
actual = ppok.Tolerant()(x)
a, b = 1.0, -1.0
closed = torch.tensor([b * math.log(1 + math.exp((v - a) / b)) - b * math.log(1 + math.exp(-a / b)) for v in x.tolist()])
print('documented example :', documented)
print('Tolerant()(input)  :', actual)
print('closed form in doc :', closed)
print('Arctan()(input)    :', ppok.Arctan()(x))
assert torch.allclose(actual, closed, atol=1e-4), 'implementation deviates from the documented closed form'
if not torch.allclose(actual, documented, atol=1e-4):
    print('FAIL: the Tolerant docstring example is the Arctan output; Tolerant() returns different values.')
    sys.exit(1)
print('OK')
