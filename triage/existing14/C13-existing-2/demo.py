"""The library's own linear system classes (pp.module.LTI / LTV: x' = A x + B u + c1, y = C x + D u + c2)
cannot be filtered at all: EKF calls model.state_transition(x, u, t=t) and UKF / PF call
model.state_transition(xs, u, t), but LTI.state_transition / LTI.observation take (state, input) only.
Caveat: the filters' class docstring says `model (System) ... a subclass of pypose.module.NLS`.
Run from the root of the checkout: /venv/bin/python demo.py
"""
import sys, torch, pypose as pp

torch.manual_seed(0)
A, B, C, D = torch.randn(2, 2), torch.randn(2, 1), torch.randn(1, 2), torch.randn(1, 1)
lti = pp.module.LTI(A, B, C, D, c1=torch.randn(2), c2=torch.randn(1))
x, y, u, P = torch.zeros(2), torch.ones(1), torch.ones(1), torch.eye(2)
bad = 0
for F in (pp.module.EKF, pp.module.UKF, pp.module.PF):
    try:
        est, cov = F(lti, 0.1 * torch.eye(2), 0.1 * torch.eye(1))(x, y, u, P)
        print(F.__name__, 'on LTI ->', est)
    except Exception as e:
        bad += 1
        print(F.__name__, 'on LTI raises', type(e).__name__ + ':', e)
sys.exit(1 if bad else 0)
