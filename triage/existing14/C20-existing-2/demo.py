"""ReduceToBason measures the decrease as (last - loss) / loss. For a NEGATIVE loss (e.g. an
MPC / LQR cost with a linear term, a log-likelihood) the division flips the sign: every real
decrease gives a negative ratio and is counted as 'no decrease', the very first step
((inf - loss) / loss = -inf) included, while an INCREASE of a negative loss counts as progress.
The patience rule therefore stops a steadily improving loop after `patience` steps."""
import sys
import torch
from pypose.utils import ReduceToBason

ok = True

# loss improves by 1.0 every step: -1, -2, -3, ...  (tol stop disabled with tol=-inf)
s = ReduceToBason(steps=10, patience=2, decreasing=1e-3, tol=float('-inf'))
flags, counts = [], []
for k in range(1, 11):
    s.step(torch.tensor(-float(k)))
    flags.append(bool(s.continual())); counts.append(s.patience_count)
print('decreasing losses -1,-2,..: continual() =', flags)
print('                            patience_count =', counts)
if flags != [True] * 9 + [False]:
    ok = False
    print('WRONG: stopped on the patience rule after %d steps although every step decreased the '
          'loss by 1.0; expected to run to the budget of 10 steps' % (flags.index(False) + 1))

# loss gets WORSE every step: -10, -9, -8, ... must stop after `patience` = 2 bad steps
s = ReduceToBason(steps=10, patience=2, decreasing=1e-3, tol=float('-inf'))
flags = []
for k in range(10):
    s.step(torch.tensor(-10.0 + k))
    flags.append(bool(s.continual()))
print('increasing losses -10,-9,..: continual() =', flags)
# step 1 has no predecessor (baseline +inf); steps 2 and 3 are increases -> stop at step 3
if flags[:3] != [True, True, False]:
    ok = False
    print('WRONG: an increasing (negative) loss is not counted as a failed step')

sys.exit(0 if ok else 1)
