"""Existing behaviour (unchanged code): the covariance propagation of IMUPreintegrator uses the
preintegrated rotation of the wrong time index.

forward() documents  A = [[dR_{k,k+1}^T, 0, 0], [-dR_{ik} a_k^ dt, I, 0], [-1/2 dR_{ik} a_k^ dt^2, I dt, I]]
and  B_a = [0, dR_{ik} dt, 1/2 dR_{ik} dt^2]^T, i.e. the rotation BEFORE the k-th gyro increment - the same
rotation that integrate() uses to carry a_k into dv and dp (incre_r[:, :F]).  The code hands
inte_state['Dr'] = incre_r[:, 1:] = dR_{i,k+1} to propagate_cov as 'Rij'.

Single frame, fresh integrator: dR_{ii} = I, so dv = a dt with a NOT rotated, and the velocity block of
the covariance must be the accelerometer covariance itself (times a scalar): diagonal, largest on x.
With a 90 degree gyro increment about z the code returns the block rotated by 90 degrees (largest on y).

Run as:  cd <checkout> && /venv/bin/python demo.py   (exits 1 on the unchanged code)
"""
import math, sys
import torch
import pypose as pp

dtype = torch.float64
dt = torch.tensor([[[0.1]]], dtype=dtype)
gyro = torch.tensor([[[0., 0., math.pi / 2 / 0.1]]], dtype=dtype)      # 90 deg about z within the step
acc = torch.tensor([[[1., 2., 3.]]], dtype=dtype)
acc_cov = torch.tensor([1e-2, 1e-4, 1e-6])

imu = pp.module.IMUPreintegrator(acc_cov=acc_cov, gravity=0., reset=True).to(dtype)
out = imu(dt, gyro, acc)
print('vel (= a dt, a is not rotated by the gyro increment of its own step):', out['vel'][0, 0].tolist())
vv = out['cov'][0, 3:6, 3:6]
print('velocity block of the covariance:\n', vv)
expected = torch.diag(acc_cov.to(dtype)) * vv.diagonal().sum() / acc_cov.sum()
print('expected (documented B_a = dR_{ii} dt = I dt):\n', expected)

# general multi-frame check against the documented recursion (noise term scaled by 1/dt as the code does)
torch.manual_seed(0)
F = 6
dts = torch.rand(1, F, 1, dtype=dtype) * 0.05 + 0.01
w = torch.randn(1, F, 3, dtype=dtype); a = torch.randn(1, F, 3, dtype=dtype) * 2
imu2 = pp.module.IMUPreintegrator(gravity=0., reset=True).to(dtype)
cov = imu2(dts, w, a)['cov'][0]
Cg = torch.diag_embed(imu2.gyro_cov[0]); Ca = torch.diag_embed(imu2.acc_cov[0])


def recursion(next_index):
    C = torch.zeros(9, 9, dtype=dtype); dR = pp.identity_SO3(dtype=dtype)
    for k in range(F):
        h = dts[0, k, 0]; Rk = pp.so3(w[0, k] * h).Exp(); R = (dR * Rk if next_index else dR).matrix()
        A = torch.eye(9, dtype=dtype)
        A[0:3, 0:3] = Rk.matrix().mT
        A[3:6, 0:3] = -R @ pp.vec2skew(a[0, k]) * h
        A[6:9, 0:3] = -0.5 * R @ pp.vec2skew(a[0, k]) * h * h
        A[6:9, 3:6] = torch.eye(3, dtype=dtype) * h
        Bg = torch.zeros(9, 3, dtype=dtype); Ba = torch.zeros(9, 3, dtype=dtype)
        Bg[0:3] = pp.so3(w[0, k] * h).Jr() * h
        Ba[3:6] = R * h; Ba[6:9] = 0.5 * R * h * h
        C = A @ C @ A.mT + (Bg @ Cg @ Bg.mT + Ba @ Ca @ Ba.mT) / h
        dR = dR * Rk
    return C


e_doc = ((recursion(False) - cov).abs().max() / cov.abs().max()).item()
e_next = ((recursion(True) - cov).abs().max() / cov.abs().max()).item()
print('6 frames: relative difference to the recursion with dR_{ik} (documented): %.2e, with dR_{i,k+1}: %.2e' % (e_doc, e_next))

if not torch.allclose(vv, expected, rtol=1e-6, atol=1e-12) or e_doc > 1e-8:
    print('FAIL: propagate_cov is fed dR_{i,k+1} where the documented A and B_a (and the state integration) use dR_{ik}')
    sys.exit(1)
print('OK')
