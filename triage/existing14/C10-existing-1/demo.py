"""Existing defect: pypose.sparse.ops._sparse_csr_mm does not return the dense product for
several of the BSR/BSC/CSR/CSC layout pairs; it raises TypeErrors that come from coding slips
(a trailing comma turns the accumulator into a tuple; `raise NotImplemented` raises a
non-exception), not from deliberate 'unsupported layout' errors."""
import sys, itertools, warnings
import torch
warnings.filterwarnings('ignore')
from pypose.sparse.ops import _sparse_csr_mm

torch.manual_seed(0)
A = torch.randn(4, 6, dtype=torch.float64) * (torch.rand(4, 6) < 0.5)
B = torch.randn(6, 8, dtype=torch.float64) * (torch.rand(6, 8) < 0.5)
conv = {'csr': lambda X: X.to_sparse_csr(), 'csc': lambda X: X.to_sparse_csc(),
        'bsr': lambda X: X.to_sparse_bsr((2, 2)), 'bsc': lambda X: X.to_sparse_bsc((2, 2))}
bad = []
for l1, l2 in itertools.product(conv, repeat=2):
    try:
        Y = _sparse_csr_mm(conv[l1](A), conv[l2](B)).to_dense()
        if not torch.allclose(Y, A @ B, atol=1e-12):
            bad.append((l1, l2, 'wrong values'))
    except BaseException as e:
        bad.append((l1, l2, '%s: %s' % (type(e).__name__, str(e).splitlines()[0][:90])))
for item in bad:
    print('%s x %s -> %s' % item)
slips = [i for i in bad if i[2].startswith('TypeError')]
if slips:
    print('%d layout pairs fail with a TypeError caused by a coding slip' % len(slips))
    sys.exit(1)
print('OK')
