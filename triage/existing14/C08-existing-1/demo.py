"""Existing behaviour (unchanged code): LM documents that it minimises sum_i rho(r_i^T W_i r_i), and it
builds its step from the WEIGHTED normal equations, but the loss it uses to accept / reject a trial,
caches in optimizer.loss and returns is the UNWEIGHTED sum_i rho(r_i^T r_i).  On an inconsistent
(over-determined) linear problem started at the unweighted optimum the weighted step lowers the
documented objective (25.25 -> 0.99) but is 'worse' for the unweighted loss (0.5 -> 0.98): LM rejects
it `reject` times, keeps it only because the rejections are exhausted, and returns / caches a loss
that went UP and is not the documented objective at the parameters it left behind.
"""
import sys
import torch
import pypose as pp
from torch import nn

torch.set_default_dtype(torch.float64)


class Scalar(nn.Module):
    def __init__(self, t):
        super().__init__()
        self.t = nn.Parameter(torch.tensor([t]))

    def forward(self, ones):
        return self.t * ones                      # (2, 1): two measurements of the same scalar


ones = torch.ones(2, 1)
target = torch.tensor([[0.0], [1.0]])             # inconsistent measurements 0 and 1
W = torch.tensor([[[1.0]], [[100.0]]])            # the second one is 100x more trusted, shape (2,1,1)


def weighted(model):
    r = (model(ones) - target).detach()
    return (r.unsqueeze(-2) @ W @ r.unsqueeze(-1)).sum()


model = Scalar(0.5)                               # 0.5 = unweighted optimum; weighted optimum = 100/101
opt = pp.optim.LM(model, strategy=pp.optim.strategy.Constant(damping=1e-6), reject=4)
w0 = weighted(model)
trace = []
for i in range(5):
    before = model.t.item()
    ret = opt.step(ones, target, weight=W)
    trace.append((before, model.t.item(), ret.item(), weighted(model).item(), opt.reject_count))
    print('call %d: t %.6f -> %.6f  returned %.6f  documented weighted loss %.6f  rejected %d'
          % ((i,) + trace[-1]))

final_w = weighted(model).item()
best_w = 100.0 / 101.0
print('weighted objective: start %.4f, after 5 calls %.4f, attainable minimum %.4f'
      % (w0, final_w, best_w))
bad = []
if abs(trace[-1][2] - final_w) > 1e-9 * (1 + final_w):
    bad.append('step() returned %.6f but the documented (weighted) loss at the parameters is %.6f'
               % (trace[-1][2], final_w))
first = trace[0]
if first[4] > 0 and first[3] < w0:
    bad.append('call 0 rejected %d trials although the step lowers the documented weighted objective '
               '(%.4f -> %.4f); the loss it reports went up to %.6f from 0.5'
               % (first[4], w0, first[3], first[2]))
if bad:
    print('EXISTING DEFECT:')
    for b in bad:
        print('  ' + b)
    sys.exit(1)
print('ok')
