"""pixel2point does not broadcast the depth against batched pixels / intrinsics,
although its inverse point2pixel broadcasts all leading dimensions."""
import sys
import torch
import pypose as pp

torch.manual_seed(0)
torch.set_default_dtype(torch.float64)
K = torch.tensor([[400., 0., 320.], [0., 380., 240.], [0., 0., 1.]])
B, N = 4, 5
points = torch.cat([torch.randn(N, 2), torch.rand(N, 1) + 2], dim=-1)       # (N, 3)
Kb = K.repeat(B, 1, 1)
Kb[:, 0, 0] += torch.arange(B) * 10.0                                       # (B, 3, 3)
pixels = pp.point2pixel(points, Kb)                                        # (B, N, 2): broadcasts
print("point2pixel((N,3), (B,3,3)) ->", tuple(pixels.shape))
depth = points[..., 2]                                                     # (N,), the same for every camera
fail = False
for name, args in [("pixels (B,N,2), depth (N,), K (B,3,3)", (pixels, depth, Kb)),
                   ("pixels (N,2),   depth (N,), K (B,3,3)", (pixels[0], depth, Kb)),
                   ("pixels (B,N,2), depth (N,), K (3,3)", (pixels, depth, K))]:
    try:
        back = pp.pixel2point(*args)
        print(name, "->", tuple(back.shape))
    except Exception as e:
        fail = True
        print(name, "-> raises", type(e).__name__ + ":", e)
back = pp.pixel2point(pixels, depth.expand(B, N), Kb)
print("with depth expanded by hand: max err", (back - points).abs().max().item())
if fail:
    print("FAILED: depth of shape (N,) satisfies the documented shape (..., N) and the "
          "function's own assert, but is not broadcast against the batched x / y.")
    sys.exit(1)
