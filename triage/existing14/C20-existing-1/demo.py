"""StopOnPlateau.state_dict() contains the `continual` wrapper object, which is bound to the
scheduler it was taken from. load_state_dict() on another scheduler copies that object, so
the second scheduler's continual() reports the FIRST scheduler's flag from then on: its own
budget / patience stops are ignored and optimize() runs past `steps`."""
import sys
import torch
from pypose.optim.optimizer import _Optimizer
from pypose.optim.scheduler import StopOnPlateau


class Halving(_Optimizer):
    def __init__(self):
        self.w = torch.nn.Parameter(torch.zeros(1))
        super().__init__([self.w], defaults={})
        self.loss, self.calls = torch.tensor(1024.), 0

    def step(self, input=None, target=None, weight=None):
        self.calls += 1
        self.last, self.loss = self.loss, self.loss / 2
        return self.loss


# scheduler A: checkpointed after 1 of 4 steps, still running
optA = Halving()
A = StopOnPlateau(optA, steps=4, patience=2, decreasing=1e-3)
A.step(optA.step())
ckpt = A.state_dict()

# scheduler B resumes from the checkpoint (steps == 1, budget 4 -> 3 more steps allowed)
optB = Halving()
B = StopOnPlateau(optB, steps=4, patience=2, decreasing=1e-3)
B.load_state_dict(ckpt)
flags = []
for _ in range(8):
    B.step(optB.step())
    flags.append(bool(B.continual()))
print('B.steps =', B.steps, ' B.max_steps =', B.max_steps, ' B._continual =', B._continual)
print('B.continual() after each step:', flags)
bad = flags != [True, True] + [False] * 6
if bad:
    print('WRONG: B.continual() stays True although B reached its step budget (it answers for the '
          'scheduler the state_dict was taken from: B.continual.optimizer is A ->',
          B.continual.optimizer is A, ')')
sys.exit(1 if bad else 0)
