"""Existing behaviour (unchanged code): the in-place Lie product  Z *= Y  cannot be differentiated.

X *= Y on a LieTensor is the in-place group product (LieTensor.__imul__ = self.copy_(Mul(self, Y))).
The *_Mul autograd Functions save their LEFT factor for the backward pass (to form Adj(X) for the
gradient of the right factor); __imul__ then overwrites exactly that tensor in place, so the very
next backward() raises "one of the variables needed for gradient computation has been modified by
an inplace operation".  The out-of-place product Z = Z * Y and the in-place retraction Z += a
(which also goes through copy_) both differentiate fine and give left-perturbation Jacobians.
Run as:  cd <checkout> && /venv/bin/python demo.py   (exits non-zero on the unchanged code)
"""
import sys
import torch
import pypose as pp

torch.set_default_dtype(torch.float64)
torch.manual_seed(0)
X = pp.randn_SE3(2, requires_grad=True)
Y = pp.randn_SE3(2, requires_grad=True)

ref = torch.autograd.grad((X.clone() * Y).Log().tensor().sum(), (X, Y))

a = pp.randn_se3(2, requires_grad=True)
Z = X.clone(); Z += a
g_retr = torch.autograd.grad(Z.Log().tensor().sum(), (X, a))
g_ref = torch.autograd.grad(X.Retr(a).Log().tensor().sum(), (X, a))
assert all(torch.allclose(u, v) for u, v in zip(g_retr, g_ref))
print("in-place retraction  Z += a : differentiable, equals Retr            -> ok")

Z = X.clone()
Z *= Y                                              # in-place Lie product, value equals X * Y
assert torch.allclose(Z.tensor(), (X * Y).tensor())
try:
    got = torch.autograd.grad(Z.Log().tensor().sum(), (X, Y))
except RuntimeError as exc:
    print("in-place product     Z *= Y : backward raises instead of returning the gradient:")
    print("   RuntimeError:", str(exc)[:160])
    sys.exit(1)
assert all(torch.allclose(u, v) for u, v in zip(got, ref)), "gradient differs from X * Y"
print("in-place product     Z *= Y : differentiable, equals X * Y           -> ok")
