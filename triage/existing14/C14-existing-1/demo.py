"""Existing defect: LQR / MPC on a time-varying linear system (LTV) with a step
interval dt != 1.  lqr_backward linearises at set_refpoint(t = t*dt) while the
roll-outs step the system clock by one per step; LTV.set_refpoint copies t*dt into
the integer clock (0.5 -> 0, 2*t -> out of range), so A_t, B_t are read at the wrong
index (dt < 1: silently non-optimal result; dt > 1: IndexError)."""
import sys, torch, pypose as pp
torch.set_default_dtype(torch.float64)
torch.manual_seed(0)

nb, T, ns, nc = 1, 4, 3, 2
n = ns + nc
A = torch.eye(ns) + 0.3 * torch.randn(nb, T, ns, ns)
B = torch.randn(nb, T, ns, nc)
C, D = torch.eye(ns).repeat(nb, T, 1, 1), torch.zeros(nb, T, ns, nc)
M = torch.randn(nb, T, n, n)
Q, p, x0 = M @ M.mT + torch.eye(n), torch.randn(nb, T, n), torch.randn(nb, ns)

class MyLTV(pp.module.LTV):          # as in the LTV docstring / tests/module/test_lqr.py
    @property
    def A(self): return self._A[..., self._t, :, :]
    @property
    def B(self): return self._B[..., self._t, :, :]
    @property
    def C(self): return self._C[..., self._t, :, :]
    @property
    def D(self): return self._D[..., self._t, :, :]

def J(u):
    x, c = x0, torch.zeros(nb)
    for t in range(T):
        tau = torch.cat([x, u[:, t]], -1)
        c = c + 0.5 * pp.bvmv(tau, Q[:, t], tau) + (tau * p[:, t]).sum(-1)
        x = pp.bmv(A[:, t], x) + pp.bmv(B[:, t], u[:, t])
    return c

bad = False
for dt in (1, 0.5, 2):
    try:
        x, u, cost = pp.module.MPC(MyLTV(A, B, C, D), Q, p, T)(dt, x0)
    except Exception as e:
        print(f'dt={dt}: raised {type(e).__name__}: {e}'); bad = True; continue
    g = torch.autograd.functional.jacobian(lambda v: J(v).sum(), u).abs().max().item()
    print(f'dt={dt}: reported cost {cost.item():.4f}, recomputed {J(u).item():.4f}, |dJ/du| = {g:.2e}')
    if g > 1e-6:
        print('   -> not a stationary point of the LQ problem: NOT the optimum'); bad = True
sys.exit(1 if bad else 0)
