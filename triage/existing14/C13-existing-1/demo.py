"""PF.forward documents `t (int, optional): set system timestamp for estimation`, but a Python int
time stamp makes every filter step on an NLS model raise: NLS.set_refpoint does torch.atleast_1d(t),
which only accepts tensors.  (EKF / UKF forward the same way; their docstring says Tensor.)
Run from the root of the checkout: /venv/bin/python demo.py
"""
import sys, torch, pypose as pp


class Model(pp.module.NLS):
    def state_transition(self, state, input, t=None):
        return 0.9 * state + input

    def observation(self, state, input, t=None):
        return state + input


torch.manual_seed(0)
pf = pp.module.PF(Model(), 0.1 * torch.eye(2), 0.1 * torch.eye(2))
x, y, u, P = torch.zeros(2), torch.ones(2), torch.zeros(2), torch.eye(2)
ref, _ = pf(x, y, u, P, t=torch.tensor(3))
print('t = tensor(3):', ref)
try:
    est, _ = pf(x, y, u, P, t=3)
except Exception as e:
    print('t = 3 (int, the documented type) raises:', type(e).__name__, str(e).splitlines()[0])
    sys.exit(1)
print('t = 3:', est)
assert (est - ref).norm() < 0.5
