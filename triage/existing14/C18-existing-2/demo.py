"""knn_filter with a radius raises when fewer than k+1 points survive the radius test
(including the case where nothing survives), instead of returning the (possibly
empty) filtered cloud."""
import sys
import torch
import pypose as pp

fail = False
# a 'star': only the centre has 4 others within radius 1; its neighbours do not
star = torch.tensor([[0., 0.], [1., 0.], [-1., 0.], [0., 1.], [0., -1.], [50., 50.]])
_, mask = pp.nbr_filter(star, nbr=4, radius=1.0, return_mask=True)
print("points with at least 4 others within radius 1:", mask.tolist())
try:
    print(pp.knn_filter(star, k=4, radius=1.0))
except Exception as e:
    fail = True
    print("knn_filter(star, k=4, radius=1.0) raises", type(e).__name__ + ":", e)
# nothing survives: an empty (0, D) cloud is the natural answer (nbr_filter gives that)
sparse = torch.arange(12.).view(6, 2) * 10
print("nbr_filter keeps", tuple(pp.nbr_filter(sparse, nbr=2, radius=0.1).shape))
try:
    print(tuple(pp.knn_filter(sparse, k=2, radius=0.1).shape))
except Exception as e:
    fail = True
    print("knn_filter(sparse, k=2, radius=0.1) raises", type(e).__name__ + ":", e)
if fail:
    print("FAILED: topk(k+1) is taken over the retained points only, so it raises "
          "whenever 0 <= #retained <= k.")
    sys.exit(1)
