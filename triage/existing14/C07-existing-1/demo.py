"""Existing behaviour (unchanged code): LevenbergMarquardt.step() starts every call from the
loss value cached by the PREVIOUS call (`self.last = self.loss = self.loss if hasattr(self,
'loss') else ...`) instead of the loss of the current input/target at the current parameters.
If the input (or target) of the second call differs from the first, every trial of the second
call is compared with the loss of another problem: trials that reduce the actual loss by
many orders of magnitude are rejected, the strategy is told they were 'unsuccessful' and
inflates the damping, and after `reject` (16) rejections the 17th, by then hugely damped,
trial is kept - the parameters practically do not move.
A fresh optimizer on the same model/input solves the same problem in one step.
"""
import sys
import torch
import pypose as pp
from torch import nn

torch.set_default_dtype(torch.float64)
torch.manual_seed(1)


class Fit(nn.Module):
    def __init__(self, X):
        super().__init__()
        self.X = pp.Parameter(X)

    def forward(self, A):
        return (self.X @ A).Log().tensor()


N = 2
X0 = pp.randn_SE3(N, sigma=0.3)
A1 = X0.Inv()                      # first input: residual is already zero
A2 = pp.randn_SE3(N, sigma=1.0)    # second input: a different problem


def true_loss(model, A):
    with torch.no_grad():
        return model(A).square().sum().item()


# (a) one optimizer, two consecutive calls with different inputs
m = Fit(X0.clone())
opt = pp.optim.LM(m)               # all defaults
opt.step(A1)
before = true_loss(m, A2)
ret = opt.step(A2)
after = true_loss(m, A2)
print("reused optimizer : loss on 2nd input %.3e -> %.3e (returned %.3e), rejected trials: %d, "
      "damping now %.3e" % (before, after, float(ret), opt.reject_count,
                            opt.param_groups[0]['damping']))

# (b) a fresh optimizer, same parameters, same input
m2 = Fit(X0.clone())
opt2 = pp.optim.LM(m2)
ret2 = opt2.step(A2)
print("fresh optimizer  : loss on 2nd input %.3e -> %.3e, rejected trials: %d"
      % (before, true_loss(m2, A2), opt2.reject_count))

if opt.reject_count > 0 and after > 1e-3 * before and true_loss(m2, A2) < 1e-3 * before:
    print("WRONG: the step on the new input rejected %d loss-decreasing trials because it "
          "compared them with the cached loss of the previous call's input; the parameters "
          "barely moved although one LM step solves the problem." % opt.reject_count)
    sys.exit(1)
print("OK")
