"""pp.metric.ape / rpe: `nposes` is documented as "The number of poses to use for alignment", but the code
slices the coordinate axis (translation()[..., :nposes]) instead of the pose axis, so for nposes >= 3 the
argument is ignored (all poses are used) and for nposes < 3 the alignment gets 1- or 2-D 'points'.
"""
import sys, torch, pypose as pp
torch.manual_seed(0)
N, K = 12, 6
ref = pp.randn_SE3(N, dtype=torch.float64)
T = pp.randn_SE3(dtype=torch.float64)
est = (T.Inv() @ ref).clone()                   # est = T^-1 ref  ->  aligning est onto ref gives back T
noise = pp.randn_se3(N - K, sigma=1.0, dtype=torch.float64).Exp()
est[K:] = noise @ est[K:]                       # only the first K poses are consistent
out = pp.metric.ape(None, ref, None, est, align=True, nposes=K)
full = pp.metric.ape(None, ref, None, est, align=True, nposes=-1)
exact = pp.metric.ape(None, ref[:K], None, est[:K], align=True)   # what aligning on the first K poses gives
print("Min error with nposes=%d: %.3e ; with all poses: %.3e ; aligning the first %d poses only: max %.3e"
      % (K, out['Min'], full['Min'], K, exact['Max']))
assert exact['Max'] < 1e-9
if abs(out['Min'] - full['Min']) < 1e-12 and out['Min'] > 1e-6:
    print("nposes=%d gave exactly the all-poses alignment: the argument selects coordinates, not poses" % K)
    sys.exit(1)
print("OK")
