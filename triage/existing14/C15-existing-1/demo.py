"""
Existing behaviour (unchanged code): NLS linearised about a reference point that carries a
batch axis - even a batch of ONE, the form pp.module.LQR / MPC hand to set_refpoint
(x_traj[..., t, :] with n_batch = 1) - returns c1 / c2 of a wrong shape without any error,
so A x* + B u* + c1 does not reproduce f(x*, u*, t*).

jacobian() keeps the batch axis of both the output and the argument, A has shape
[1, n, 1, n]; bmv(A, x*) then yields [1, n, 1] and the subtraction in NLS.c1 broadcasts
_ref_f [1, n] against it into an [1, n, n] tensor.  (lqr.py squeezes A and B by hand,
"batch axis kept by the Jacobian of a single-batch NLS", c1/c2 are left as they are.)
With a batch of 2 reading c1 raises a RuntimeError instead.
"""
import sys, torch
import pypose as pp


class Model(pp.module.NLS):              # the model of tests/module/test_ekf.py
    def state_transition(self, state, input, t=None):
        return state.cos() + input

    def observation(self, state, input, t=None):
        return state.sin() + input


torch.manual_seed(0)
m = Model()
x, u = torch.randn(1, 3), torch.randn(1, 3)          # batch of one reference point
m.set_refpoint(state=x, input=u)
f = m.state_transition(x, u)
A, B, c1, c2 = m.A, m.B, m.c1, m.c2
print("x*", tuple(x.shape), " f(x*,u*)", tuple(f.shape), " A", tuple(A.shape), " B", tuple(B.shape))
print("c1", tuple(c1.shape), " c2", tuple(c2.shape), " (an offset of the state / observation has shape", tuple(f.shape), ")")

bad = []
if c1.shape != f.shape:
    bad.append(f"c1 has shape {tuple(c1.shape)}, expected {tuple(f.shape)}")
if c2.shape != m.observation(x, u).shape:
    bad.append(f"c2 has shape {tuple(c2.shape)}, expected {tuple(m.observation(x, u).shape)}")
# per-item check against the unbatched linearisation of the same point
m1 = Model(); m1.set_refpoint(state=x[0], input=u[0])
if c1.shape != f.shape or not torch.allclose(c1[0], m1.c1, atol=1e-6):
    bad.append("c1 of the batched reference point differs from c1 of the same point given unbatched")

x2, u2 = torch.randn(2, 3), torch.randn(2, 3)
m.set_refpoint(state=x2, input=u2)
try:
    m.c1
except RuntimeError as e:
    bad.append(f"batch of 2: reading c1 raises RuntimeError: {e}")

if bad:
    print("DEFECT:")
    for b in bad:
        print("  -", b)
    sys.exit(1)
print("ok")
