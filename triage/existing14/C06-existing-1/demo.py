"""LieTensor.lview documents `shape (torch.Size or int...)` ("The only difference from view is the last
dimension is hidden"), but a torch.Size (or tuple) argument raises TypeError; only the int... form works.
x.view(torch.Size([...])) accepts the same form.
"""
import sys, torch, pypose as pp
x = pp.randn_SE3(2, 3)
ok = x.lview(3, 2)                      # int... form works
assert ok.lshape == (3, 2) and ok.ltype == x.ltype
assert x.view(torch.Size([3, 2, 7])).lshape == (3, 2)   # torch's view takes a torch.Size
bad = []
for arg in (torch.Size([3, 2]), (3, 2), x.transpose(0, 1).lshape):
    try:
        y = x.lview(arg)
        if not (isinstance(y, pp.LieTensor) and y.lshape == (3, 2) and torch.equal(y.tensor(), ok.tensor())):
            bad.append(f"lview({arg!r}) returned lshape {tuple(y.lshape)}")
    except Exception as e:
        bad.append(f"lview({arg!r}) raised {type(e).__name__}: {e}")
if bad:
    print("lview does not accept the documented torch.Size form of the lshape:")
    for b in bad: print("  -", b)
    sys.exit(1)
print("OK")
