import torch, pypose as pp, sys
torch.manual_seed(1); torch.set_default_dtype(torch.float64)
n,m,p=3,2,2
A=torch.randn(n,n)*0.5; B=torch.randn(n,m); C=torch.randn(p,n); D=torch.randn(p,m); c1=torch.randn(n); c2=torch.randn(p)
class Lin(pp.module.NLS):
    def state_transition(s,x,u,t=None): return pp.bmv(A,x)+pp.bmv(B,u)+c1
    def observation(s,x,u,t=None): return pp.bmv(C,x)+pp.bmv(D,u)+c2
def spd(k):
    M=torch.randn(k,k); return M@M.T+0.1*torch.eye(k)
Q,R,P=spd(n),spd(p),spd(n)
x=torch.randn(n); u=torch.randn(m); y=torch.randn(p)
# exact KF predict-then-update with y = C x' + D u + c2
xm=A@x+B@u+c1; Pm=A@P@A.T+Q; K=Pm@C.T@torch.linalg.inv(C@Pm@C.T+R); xk=xm+K@(y-(C@xm+D@u+c2)); Pk=(torch.eye(n)-K@C)@Pm
for F in [pp.module.EKF, pp.module.UKF]:
    f=F(Lin(),Q,R); xe,Pe=f(x,y,u,P)
    print(F.__name__,'mean err %.2e cov err %.2e'%((xe-xk).abs().max(),(Pe-Pk).abs().max()))
