"""Existing behaviour (unchanged code): LevenbergMarquardt.step() judges the trials of a call against
the loss cached by the PREVIOUS call (self.loss), not against the loss of the current
(input, target) at the current parameters.

step(input, target) takes the data on every call, so feeding a new target / a new batch per call is
ordinary use.  Here the model is linear (residual = x - target), so the very first trial of any call
is an (almost) exact minimiser and has to be accepted: the loss on the call's own data drops from
|x - t2|^2 to ~0.  After a first call on target t1 (cached loss ~0) the second call on target t2
compares the new loss with ~0, rejects that trial and 15 more, and finally keeps a 17th, heavily
damped one: the parameters hardly move.

Run from the root of the checkout:  /venv/bin/python demo.py
"""
import sys, warnings
warnings.filterwarnings("ignore")
import torch
import pypose as pp
from torch import nn

torch.set_default_dtype(torch.float64)


class Model(nn.Module):
    def __init__(self):
        super().__init__()
        self.x = nn.Parameter(torch.zeros(4, 3))

    def forward(self, input):
        return self.x * input


class Recorder(nn.Module):
    def __init__(self):
        super().__init__()
        self.inner, self.calls = pp.optim.solver.Cholesky(), 0

    def forward(self, A, b):
        self.calls += 1
        return self.inner(A, b)


ones = torch.ones(4, 3)
t1 = torch.full((4, 3), 1.0)
t2 = torch.full((4, 3), 5.0)

model, solver = Model(), Recorder()
optimizer = pp.optim.LM(model, solver=solver)          # default TrustRegion strategy, damping 1e-6
optimizer.step(ones, t1)
optimizer.step(ones, t1)
print("after two calls on target t1: |x - t1| = %.2e, cached loss %.2e"
      % ((model.x.detach() - t1).abs().max(), optimizer.loss))

before = (model.x.detach() - t2).square().sum().item()
solver.calls = 0
optimizer.step(ones, t2)
after = (model.x.detach() - t2).square().sum().item()
# documented first trial: (1 + damping) * delta = -(x - t2)  ->  loss shrinks by ~damping^2
print("call on target t2: loss on t2 before %.4f, after %.4f, linear solves in this call: %d"
      % (before, after, solver.calls))
print("expected: the first trial (loss -> ~1e-10) is accepted, 1 solve")
if solver.calls != 1 or after > 1e-6 * before:
    print("WRONG: the trial that minimises the current problem was rejected because it was compared "
          "with the loss cached from the previous call (other target); %d trials were made and the "
          "step finally kept leaves %.1f%% of the loss." % (solver.calls, 100 * after / before))
    sys.exit(1)
print("OK")
