# Existing behaviour: StopOnPlateau documents `decreasing` as the RELATIVE loss decrease
# ("relative loss decreasing used to count the number of patience steps", the verbose line
# prints "reduction/loss"), like ReduceToBason, but step() compares the ABSOLUTE difference
# optimizer.last - optimizer.loss with it.
import sys, torch, pypose as pp
from pypose.optim.optimizer import _Optimizer


class Replay(_Optimizer):
    '''second-order optimizer stub replaying a fixed loss history'''
    def __init__(self, history):
        self.w = torch.nn.Parameter(torch.zeros(1))
        super().__init__([self.w], defaults={})
        self.history, self.k = history, 0
        self.loss = torch.tensor(history[0])

    def step(self, input=None, target=None, weight=None):
        self.k += 1
        self.last, self.loss = self.loss, torch.tensor(self.history[self.k])
        return self.loss


def run(history, **cfg):
    opt = Replay(history)
    sch = pp.optim.scheduler.StopOnPlateau(opt, **cfg)
    while sch.continual():
        sch.step(opt.step())
    return sch.steps

cfg = dict(steps=10, patience=2, decreasing=1e-3, verbose=True)
# every step reduces the loss by 0.5, i.e. by a relative 5e-4 < 1e-3: a plateau in the
# documented (relative) sense, so the patience rule must stop the loop after 2 steps
big = [1000.0 - 0.5 * k for k in range(12)]
# every step reduces the loss by 5e-4, i.e. by a relative 50%: clearly no plateau, only
# the budget of 10 steps may stop the loop
small = [1e-3 * 0.5 ** k for k in range(12)]
n_big, n_small = run(big, **cfg), run(small, **cfg)
print('loss 1000 -> 999.5 -> ... (relative decrease 5e-4): stopped after %d steps, documented 2' % n_big)
print('loss 1e-3 -> 5e-4 -> ...  (relative decrease 0.5) : stopped after %d steps, documented 10' % n_small)
if (n_big, n_small) != (2, 10):
    print('FAIL: StopOnPlateau applies `decreasing` to the absolute loss difference, not to the '
          'documented relative decrease')
    sys.exit(1)
print('OK')
