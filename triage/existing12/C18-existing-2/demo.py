"""Existing defect 2: knn(ref, nbr, dim=...) only works for dim=-1.

The docstring says dim is "the dimension encompassing the point cloud coordinates ...
Default: -1 (the last dimension)".  For 2-D inputs (N, D) the last dimension is also
dim=1, but the same `dim` is applied to the 3-D difference tensor (N1, N2, D) for the
norm and then to the 2-D distance matrix for topk, so dim=1 takes the norm over the
neighbour axis and the top-k over the coordinate axis: silently wrong values, and the
indices are coordinate numbers (0..D-1) instead of neighbour indices.
"""
import sys
import torch
import pypose as pp

torch.manual_seed(0)
ref, nbr = torch.randn(5, 3), torch.randn(7, 3)
a = pp.knn(ref, nbr, k=2, dim=-1)
b = pp.knn(ref, nbr, k=2, dim=1)        # the same axis of ref / nbr, spelled positively
print("dim=-1 indices:", a.indices.tolist())
print("dim= 1 indices:", b.indices.tolist())
same = torch.equal(a.indices, b.indices) and torch.allclose(a.values, b.values)
if not same:
    print("WRONG: dim=1 and dim=-1 name the same axis of (N, 3) clouds but give different "
          "neighbours; max index with dim=1 is %d (< D=3)" % b.indices.max().item())
    sys.exit(1)
print("ok")
