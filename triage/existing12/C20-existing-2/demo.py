# Existing behaviour: ReduceToBason.step keeps a reference to the caller's loss tensor as its
# comparison baseline (self.last = loss, no copy).  If the driver loop writes the loss of the
# next iteration into the same tensor (accumulator `cost.zero_(); cost += ...`, `out=`,
# `loss.copy_(...)`), the baseline changes with it, every step looks like "no decrease",
# and the stepper stops by patience although the loss halves at every step.
import sys, torch
from pypose.utils import ReduceToBason

values = [8.0 * 0.5 ** k for k in range(12)]        # strictly decreasing by 50% per step
cfg = dict(steps=12, patience=3, decreasing=1e-3, tol=1e-5)

def run(reuse_buffer):
    stepper, k = ReduceToBason(**cfg), 0
    loss = torch.zeros(2)
    while stepper.continual():
        if reuse_buffer:
            loss.copy_(torch.tensor([values[k], 2 * values[k]]))
        else:
            loss = torch.tensor([values[k], 2 * values[k]])
        stepper.step(loss)
        k += 1
    return k

fresh, reused = run(False), run(True)
print('same loss values, fresh tensor per step : loop ran %d steps' % fresh)
print('same loss values, loss buffer re-used   : loop ran %d steps' % reused)
if fresh != reused:
    print('FAIL: the stop step depends on whether the loss tensor object is re-used; with a '
          're-used buffer the patience rule fires after patience+1 = 4 steps although every '
          'step decreased the loss by 50%')
    sys.exit(1)
print('OK')
