"""PF with 1e6 particles (inside the stated 1e3..1e6 range) in the default dtype float32:
PF.resample_particles indexes the particles with torch.searchsorted(cumsum(q), r).
searchsorted returns N (one past the end) whenever r exceeds the last cumulative weight,
and nothing bounds the index, so the step raises IndexError instead of returning (x, P)."""
import sys
import torch
import pypose as pp

torch.manual_seed(0)


class Lin(pp.module.NLS):
    def state_transition(self, state, input, t=None):
        return state + input

    def observation(self, state, input, t=None):
        return state


n, N = 2, 10 ** 6
model = Lin()
Q = 0.01 * torch.eye(n)
P = torch.eye(n)
u = torch.zeros(n)
for i in range(40):
    R = torch.eye(n) * 10.0 ** torch.randint(-3, 3, ()).item()
    x, y = torch.randn(n), torch.randn(n)
    pf = pp.module.PF(model, Q, R, particles=N)
    try:
        xe, Pe = pf(x, y, u, P)
    except IndexError as e:
        xp = pf.generate_particles(x, n * P)
        q = pf.relative_likelihood(y, model.observation(model.state_transition(xp, u), u), R)
        print('run %d: PF step raised IndexError: %s' % (i, e))
        print('last cumulative weight of a fresh draw: %.8f (uniform draws above it map to index N)'
              % torch.cumsum(q, dim=-1)[-1].item())
        sys.exit(1)
print('OK: 40 PF steps with 1e6 particles returned a result')
