"""Existing defect: a time-dependent NLS whose f / g use the time tensor directly in a
product cannot be differentiated through system(x, u).

NLS.forward hands the live clock buffer self._t to state_transition / observation; autograd
saves it (e.g. for d(x*t)/dx = t); the forward hook then advances the clock IN PLACE
(self._t.add_(1)), so backward() raises "one of the variables needed for gradient
computation has been modified by an inplace operation" - or, if the version check were
bypassed, would use t+1 instead of t.
"""
import sys
import torch
import pypose as pp

torch.set_default_dtype(torch.float64)


class Growth(pp.module.NLS):
    def state_transition(self, x, u, t=None):
        return x * t + u            # d x'/d x = t * I

    def observation(self, x, u, t=None):
        return x + u


s = Growth().reset(3)
x = torch.tensor([0.5, -1.0], requires_grad=True)
u = torch.tensor([0.1, 0.2])
x1, _ = s(x, u)
print("x' =", x1.detach(), " (expected", (x.detach() * 3 + u), ")")
try:
    (g,) = torch.autograd.grad(x1.sum(), x)
except RuntimeError as e:
    print("FAIL: backward through system(x, u) raised:\n  ", str(e).split('\n')[0][:230])
    sys.exit(1)
want = torch.full_like(x, 3.0)
if not torch.allclose(g, want):
    print("FAIL: d sum(x')/d x =", g, "expected", want)
    sys.exit(1)
print("PASS: d sum(x')/d x =", g)
