"""Existing behaviour (unchanged code): GaussNewton applies the weight twice.

The GaussNewton docstring states the objective  sum_i rho(r_i^T W_i r_i)  (the same formula as the
LevenbergMarquardt docstring), with W_i "the square positive definite matrix defining the weight of
model residual".  GaussNewton.step solves  (W J) delta = -(W R)  in the least-squares sense, i.e. it
minimises |W (J delta + R)|^2 = (J delta + R)^T W^T W (J delta + R): the effective weight is W^2.
LevenbergMarquardt uses J^T W J delta = -J^T W R, i.e. the weight W, so the two optimizers converge
to different parameters for the same model, data and weight.

For a LINEAR model  r = M p - y  a Gauss-Newton step is exact, so one GN step has to land on
argmin_p r^T W r.  It lands on argmin_p r^T W^2 r instead.

Run from the root of the checkout:  /venv/bin/python demo.py
"""
import sys, warnings
warnings.filterwarnings("ignore")
import torch
import pypose as pp
from torch import nn

torch.set_default_dtype(torch.float64)

M = torch.tensor([[1., 0.], [0., 1.], [1., 1.]])
y = torch.tensor([1., 2., 0.])
W = torch.tensor([[2., 1., 0.], [1., 3., 0.], [0., 0., 50.]])      # SPD, not the identity


class Model(nn.Module):
    def __init__(self):
        super().__init__()
        self.p = nn.Parameter(torch.tensor([0.3, -0.4]))

    def forward(self, M):
        return M @ self.p            # shape (3,): one residual item of dimension 3


def argmin(weight):                  # minimiser of (M p - y)^T weight (M p - y)
    return torch.linalg.solve(M.T @ weight @ M, M.T @ weight @ y)


p_W, p_WW = argmin(W), argmin(W @ W)
print("argmin r^T W   r = %s   (documented objective)" % p_W.tolist())
print("argmin r^T W^2 r = %s" % p_WW.tolist())

gn_model = Model()
pp.optim.GN(gn_model).step(M, y, weight=W)
p_gn = gn_model.p.detach()
print("GN, one step     = %s" % p_gn.tolist())

lm_model = Model()
lm = pp.optim.LM(lm_model, weight=W)
for _ in range(4):
    lm.step(M, y)
p_lm = lm_model.p.detach()
print("LM, four steps   = %s" % p_lm.tolist())

d_doc, d_sq = (p_gn - p_W).abs().max().item(), (p_gn - p_WW).abs().max().item()
print("|GN - argmin r^T W r| = %.2e,  |GN - argmin r^T W^2 r| = %.2e,  |LM - argmin r^T W r| = %.2e"
      % (d_doc, d_sq, (p_lm - p_W).abs().max().item()))
if d_doc > 1e-6:
    print("WRONG: with weight W the (exact, linear) Gauss-Newton step minimises r^T W^2 r, not the "
          "documented r^T W r; GN and LM disagree on the solution for the same weight.")
    sys.exit(1)
print("OK")
