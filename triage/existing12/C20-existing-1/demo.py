# Existing behaviour: MPC.__init__ permanently shortens the budget of the stepper object
# it is given (stepper.max_steps -= 1).  A ReduceToBason(steps=n) that is handed to two MPC
# objects (e.g. expert and agent controller sharing one stopping rule), or that is used to
# build a new MPC every training iteration, therefore stops earlier and earlier, although
# MPC.forward calls stepper.reset() and reset() is documented to make a stepper re-usable.
import sys, torch, pypose as pp

n_state, n_ctrl, T, dt = 3, 2, 5, 1
A = torch.tensor([[ 1.1267, -0.0441, -0.0279],
                  [-0.1533,  1.1775,  0.1631],
                  [ 0.1618,  0.1238,  0.9489]])
B = torch.tensor([[ 0.4567,  0.7805],
                  [-0.5938, -0.5724],
                  [-0.1804, -0.2535]])
C, D = torch.eye(n_state), torch.zeros(n_state, n_ctrl)
c1, c2 = torch.zeros(n_state), torch.zeros(n_state)
Q = torch.eye(n_state + n_ctrl).tile(1, T, 1, 1)
p = torch.zeros(1, T, n_state + n_ctrl)
x_init = torch.tensor([[1.0, -2.0, 0.5]])

stepper = pp.utils.ReduceToBason(steps=5)      # patience 5: only the budget can stop it
records = []
for i in range(4):
    mpc = pp.module.MPC(pp.module.LTI(A, B, C, D, c1, c2), Q, p, T, stepper=stepper)
    calls = []
    mpc.lqr.register_forward_hook(lambda *a: calls.append(1))
    mpc(dt, x_init)
    records.append((stepper.max_steps, stepper.steps, len(calls)))
    print('MPC #%d built on the same ReduceToBason(steps=5): budget now %d, controller '
          'steps %d, LQR solves %d' % ((i,) + records[-1]))

# documented: steps=5 -> 4 loops without gradient + 1 with gradient, for every MPC
if any(r != (4, 4, 5) for r in records):
    print('FAIL: the step budget of a re-used stepper shrinks by one per MPC construction; '
          'the loops stop before the configured budget / patience / tol is reached '
          '(and with steps=1 the loop still runs once, i.e. 2 LQR solves)')
    sys.exit(1)
print('OK')
