"""EKF / UKF / PF are documented as 'Batched' filters (class docstrings: 'Performs Batched
Extended Kalman Filter', set_uncertainty: 'batched square covariance matrices').  A batch of
B independent priors (x: (B, n), P: (B, n, n)) on a linear model must give, per item, the
same posterior as B separate calls.  On the unchanged tree every filter raises instead."""
import sys
import torch
import pypose as pp

torch.manual_seed(0)
torch.set_default_dtype(torch.float64)
n, m, p, B = 2, 2, 2, 4
A, Bm, C, D = torch.randn(n, n), torch.randn(n, m), torch.randn(p, n), torch.randn(p, m)


class Lin(pp.module.NLS):
    def state_transition(self, state, input, t=None):
        return pp.bmv(A, state) + pp.bmv(Bm, input)

    def observation(self, state, input, t=None):
        return pp.bmv(C, state) + pp.bmv(D, input)


def spd(k, s=1.0):
    M = torch.randn(k, k)
    return s * (M @ M.mT + k * torch.eye(k)) / k


model, Q, R = Lin(), spd(n, 0.1), spd(p, 0.1)
x, u, y = torch.randn(B, n), torch.randn(B, m), torch.randn(B, p)
P = torch.stack([spd(n) for _ in range(B)])

bad = 0
for F in (pp.module.EKF, pp.module.UKF, pp.module.PF):
    f = F(model, Q, R)
    single = [f(x[i], y[i], u[i], P[i]) for i in range(B)]          # works
    try:
        xb, Pb = f(x, y, u, P)
    except Exception as e:
        print('%s: batched call raised %s: %s' % (F.__name__, type(e).__name__, str(e).splitlines()[0][:110]))
        bad += 1
        continue
    if F is not pp.module.PF:
        err = max((xb[i] - single[i][0]).abs().max().item() for i in range(B))
        print('%s: batched vs single max abs diff %.2e' % (F.__name__, err))
        bad += err > 1e-9
sys.exit(1 if bad else 0)
