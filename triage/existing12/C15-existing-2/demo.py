"""Existing defect: NLS linearisation with a reference state that carries a batch axis of
size one (shape (1, n), the layout pp.module.LQR / MPC feed to set_refpoint).

jacobian() keeps the batch axis on both sides, A has shape (1, n, 1, n), bmv(A, x*) has shape
(1, n, 1), and c1 = f* - A x* - B u* silently broadcasts to shape (1, n, n) instead of (1, n);
the affine model A x + B u + c1 no longer reproduces f(x*, u*, t*).
"""
import sys
import torch
import pypose as pp

torch.set_default_dtype(torch.float64)


class S(pp.module.NLS):
    def state_transition(self, x, u, t=None):
        return x.sin() * 2 + u.cos().sum(-1, keepdim=True) + 0.1 * t

    def observation(self, x, u, t=None):
        return x ** 2 + u.sum(-1, keepdim=True)


s = S()
x, u, t = torch.tensor([[0.3, -0.8, 1.1]]), torch.tensor([[0.4, 0.9]]), torch.tensor(2)
s.set_refpoint(x, u, t)
f0 = s.state_transition(x, u, t)
print("x*", tuple(x.shape), "f(x*,u*,t*)", tuple(f0.shape), "A", tuple(s.A.shape), "B", tuple(s.B.shape),
      "c1", tuple(s.c1.shape), "c2", tuple(s.c2.shape))
ok = s.c1.shape == f0.shape and s.c2.shape == f0.shape
if ok:
    A, B = s.A.reshape(3, 3), s.B.reshape(3, 2)
    ok = torch.allclose(A @ x[0] + B @ u[0] + s.c1[0], f0[0], atol=1e-9)
if not ok:
    print("FAIL: c1 / c2 do not have the shape of f(x*,u*,t*) / g(x*,u*,t*) for a (1, n) reference state;"
          " the affine model cannot reproduce f at the reference point")
    sys.exit(1)
print("PASS")
