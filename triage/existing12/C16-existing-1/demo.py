"""Existing behaviour (unchanged code): the state carried between calls (reset=False) is a VIEW of
the dict returned to the caller (self.pos/rot/vel = predict[..][..., -1:, :], self.cov = cov['cov']).
Post-processing a returned trajectory in place (here: expressing the positions relative to a map
origin for plotting) therefore silently rewrites the integrator's state, and the next chunk of the
same stream no longer continues the recursion: one call != consecutive chunks."""
import sys, torch, pypose as pp

torch.manual_seed(16)
B, F, cut = 1, 40, 25
dt = torch.rand(B, F, 1) * 0.01 + 0.005
gyro, acc = torch.randn(B, F, 3) * 0.3, torch.randn(B, F, 3)

whole = pp.module.IMUPreintegrator()(dt, gyro, acc)

imu = pp.module.IMUPreintegrator()
first = imu(dt[:, :cut], gyro[:, :cut], acc[:, :cut])
shared = first['pos'][:, -1:].data_ptr() == imu.pos.data_ptr()
first['pos'] -= torch.tensor([100., 50., 0.])        # caller-side, in-place post-processing of ITS result
second = imu(dt[:, cut:], gyro[:, cut:], acc[:, cut:])

err = (second['pos'] - whole['pos'][:, cut:]).abs().max().item()
print('carried position shares memory with the returned trajectory:', shared)
print('max |chunked - one call| position of the second chunk = %.3e (tolerance 1e-3)' % err)
if err > 1e-3:
    print('FAIL: the second chunk started from the caller-modified output, not from the propagated state')
    sys.exit(1)
print('OK')
