"""Existing defect: retain_ltype / pp.func.jacrev does not leave the PyTorch internals as it
found them.

 (a) Every entry executes `torch._functorch.vmap._add_batch_dim.__module__ = 'torch._functorch.vmap'`
     on the ORIGINAL PyTorch function and never puts the old value back.
 (b) A nested entry (retain_ltype inside retain_ltype, e.g. pp.func.jacrev called from a function
     that is itself run under retain_ltype) sees the outer wrappers, whose __name__ is 'wrapper';
     it therefore does `setattr(torch._functorch.vmap, 'wrapper', ...)` (and the same on
     pypose.lietensor.lietensor) and its exit leaves that new attribute behind on the PyTorch module.

Run as:  cd <checkout> && /venv/bin/python demo.py      (exits 1 on the unchanged code)
"""
import sys
import warnings

warnings.filterwarnings("ignore")
import torch
import torch._functorch.vmap as V
import torch._functorch.eager_transforms as E
import torch.autograd.forward_ad as F
import pypose as pp


def snapshot():
    funcs = (F.make_dual, E._wrap_tensor_for_grad, V._add_batch_dim)
    return {"functions": funcs,
            "__module__": tuple(f.__module__ for f in funcs),
            "vmap attrs": frozenset(vars(V)), "eager attrs": frozenset(vars(E)), "fwd attrs": frozenset(vars(F))}


def diff(a, b):
    out = []
    if any(x is not y for x, y in zip(a["functions"], b["functions"])):
        out.append("patched functions not restored")
    if a["__module__"] != b["__module__"]:
        out.append("__module__ of the original functions changed: %s -> %s" % (a["__module__"], b["__module__"]))
    for k in ("vmap attrs", "eager attrs", "fwd attrs"):
        if a[k] != b[k]:
            out.append("%s: attributes added %s removed %s" % (k, sorted(b[k] - a[k]), sorted(a[k] - b[k])))
    return out


bad = []
pose, points = pp.randn_SE3(2), torch.randn(2, 3)

before = snapshot()
J = pp.func.jacrev(lambda T, p: T @ p)(pose, points)
assert J.shape == (2, 3, 2, 7)
bad += ["after one pp.func.jacrev call: " + d for d in diff(before, snapshot())]

before = snapshot()
with pp.retain_ltype():
    pp.func.jacrev(lambda T, p: T @ p)(pose, points)      # nested entry
bad += ["after a nested retain_ltype: " + d for d in diff(before, snapshot())]

if bad:
    print("PyTorch internals are not left as they were found:")
    for b in bad:
        print("  -", b)
    sys.exit(1)
print("OK")
