"""Existing defect 1: knn_filter with a radius raises when fewer than k+1 points are retained.

A point is retained when it has at least k other points within the radius, but those
neighbours need not be retained themselves.  The k+1 nearest neighbours are then searched
among the retained points only (dist[rmask][:, rmask].topk(k+1)), so a chain  B - A - C
with |AB|, |AC| <= radius < |BC| retains only A and topk(3) on one element raises
"selected index k out of range" instead of returning a result for the retained point.
"""
import sys
import torch
import pypose as pp

points = torch.tensor([[ 0., 0., 0.],      # A: B and C within 1.5 -> retained for k=2
                       [ 1., 0., 0.],      # B: only A within 1.5 -> removed
                       [-1., 0., 0.],      # C: only A within 1.5 -> removed
                       [50., 50., 50.]])   # far outlier
_, mask = pp.nbr_filter(points, nbr=2, radius=1.5, return_mask=True)
print("points with at least 2 others within radius 1.5:", mask.tolist())
try:
    out = pp.knn_filter(points, k=2, radius=1.5)
except Exception as e:
    print("knn_filter(points, k=2, radius=1.5) raised %s: %s" % (type(e).__name__, e))
    print("WRONG: one point is retained, a result of shape (1, 3) is promised")
    sys.exit(1)
print("knn_filter returned", out)
assert out.shape == (1, 3)
