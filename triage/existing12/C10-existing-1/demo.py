"""_sparse_csr_mm: the final fall-through branch builds its accumulator with a trailing
comma (`zero = torch.zeros(...),`), so `zero` is a 1-tuple and torch.addmm is called with
(tuple, Tensor, Tensor).  Every operand pair that reaches this branch dies with a TypeError
about addmm's signature - including dense @ CSR and dense @ CSC, which the very same addmm
call computes correctly once the accumulator is a tensor."""
import sys, warnings
import torch
from pypose.sparse.ops import _sparse_csr_mm

warnings.filterwarnings('ignore')
torch.manual_seed(0)
D1 = torch.randn(4, 6) * (torch.rand(4, 6) > 0.5)
D2 = torch.randn(6, 4) * (torch.rand(6, 4) > 0.5)
want = D1 @ D2
bad = 0
for name, m2 in (('dense @ CSR', D2.to_sparse_csr()), ('dense @ CSC', D2.to_sparse_csc())):
    ref = torch.addmm(torch.zeros(4, 4), D1, m2, beta=0.0, alpha=1.0)   # what the branch spells out
    assert torch.allclose(ref, want, atol=1e-6)
    try:
        got = _sparse_csr_mm(D1, m2)
        got = got if got.layout == torch.strided else got.to_dense()
        ok = torch.allclose(got, want, atol=1e-6)
        print('%s: result %s' % (name, 'correct' if ok else 'WRONG'))
        bad += not ok
    except TypeError as e:
        bad += 1
        print('%s: torch.addmm supports it, _sparse_csr_mm raises TypeError: %s' % (name, str(e).splitlines()[0][:110]))
sys.exit(1 if bad else 0)
