"""Existing defect: the documented `generator` argument of the SE3 / se3 / Sim3 / sim3 random
constructors (and of pp.randn_like on such inputs) raises TypeError, while the so3 / SO3 /
rxso3 / RxSO3 ones accept it.  se3Type.randn / sim3Type.randn forward **kwargs (which carry
`generator`) to torch.tensor(...) when they build the per-axis sigma vector.

Run as:  cd <checkout> && /venv/bin/python demo.py      (exits 1 on the unchanged code)
"""
import sys
import warnings

warnings.filterwarnings("ignore")
import torch
import pypose as pp

bad = []
for name, dim in (("so3", 3), ("SO3", 4), ("rxso3", 4), ("RxSO3", 5),
                  ("se3", 6), ("SE3", 7), ("sim3", 7), ("Sim3", 8)):
    f = getattr(pp, "randn_" + name)
    try:
        a = f(2, 3, generator=torch.Generator().manual_seed(7))
        b = f(2, 3, generator=torch.Generator().manual_seed(7))
        assert isinstance(a, pp.LieTensor) and tuple(a.shape) == (2, 3, dim)
        assert torch.equal(a, b), "same generator state must give the same sample"
    except Exception as e:  # noqa
        bad.append("pp.randn_%s(2, 3, generator=g): %s: %s" % (name, type(e).__name__, e))
    try:
        pp.randn_like(f(2), generator=torch.Generator().manual_seed(7))
    except Exception as e:  # noqa
        bad.append("pp.randn_like(<%s>, generator=g): %s: %s" % (name, type(e).__name__, e))

if bad:
    print("documented `generator` argument is rejected:")
    for b in bad:
        print("  -", b)
    sys.exit(1)
print("OK")
