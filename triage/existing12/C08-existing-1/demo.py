"""Existing behaviour (unchanged code): a trial whose loss is NaN is ACCEPTED by
LevenbergMarquardt.step although rejections are left.

Residual r(x) = log(x) + 3 (defined for x > 0), started at x = 1.  The first, almost
undamped, trial steps to x = -2 where the residual is NaN.  The accept/reject test is
`self.last < self.loss`, which is False for NaN, so the trial is kept: step() returns
NaN with reject_count == 0 of 16, the parameter is left at -2 (not restored), and the
next step() call fails.  A slightly more damped trial (which a rejection would have led
to) decreases the loss, as the second part shows.
"""
import sys, math
import torch, pypose as pp
from torch import nn
torch.set_default_dtype(torch.float64)


class LogRes(nn.Module):
    def __init__(self):
        super().__init__()
        self.x = nn.Parameter(torch.tensor([1.0]))

    def forward(self, input):
        return (self.x.log() + 3).view(1, 1)


input = torch.zeros(1)
model = LogRes()
opt = pp.optim.LM(model, strategy=pp.optim.strategy.Adaptive(damping=1e-6), reject=16)
given = float((model(input) ** 2).sum().detach())
loss = float(opt.step(input))
print('loss given %.4f, step() returned %r, reject_count %d of %d, x = %r, damping %g'
      % (given, loss, opt.reject_count, opt.reject, model.x.data.tolist(),
         opt.param_groups[0]['damping']))

# what the rejection path would have found: damping 10 -> step -3/11, loss goes down
ref = LogRes()
ropt = pp.optim.LM(ref, strategy=pp.optim.strategy.Constant(damping=10.))
rloss = float(ropt.step(input))
print('with damping 10 the same call gives loss %.4f at x = %r' % (rloss, ref.x.data.tolist()))
assert rloss < given

bad = []
if not (loss <= given):
    bad.append('step() returned %r for a call that was given loss %.4f and used %d of %d '
               'rejections' % (loss, given, opt.reject_count, opt.reject))
if not math.isfinite(float(model.x)) or float(model.x) <= 0:
    bad.append('the parameter was left at %r where the residual is undefined (trial not '
               'restored)' % model.x.data.tolist())
try:
    opt.step(input)
except Exception as e:
    bad.append('the following step() call raises %s: %s' % (type(e).__name__, e))
if bad:
    print('\nVIOLATION:')
    for b in bad:
        print('  -', b)
    sys.exit(1)
print('OK')
