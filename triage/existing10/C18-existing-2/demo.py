"""pixel2point documents pixels (..., N, 2), depth (..., N), intrinsics (..., 3, 3) and its
inverse point2pixel broadcasts the batch dimensions of points and intrinsics.  pixel2point
does not: with a batch of cameras and one shared set of pixels/depths the z component
(depth, used as is) is not broadcast to the x / y components and torch.stack raises."""
import sys
import torch
import pypose as pp

torch.manual_seed(0)
K = torch.tensor([[2., 0., 4.5], [0., 3., 4.5], [0., 0., 1.]]).repeat(4, 1, 1)
K[:, 0, 0] += torch.arange(4.)                      # 4 cameras with different fx
points = torch.randn(6, 3)
points[:, 2] = points[:, 2].abs() + 1               # one cloud, in front of the cameras

pixels = pp.point2pixel(points, K)                  # broadcasts: (4, 6, 2)
assert pixels.shape == (4, 6, 2)
back = pp.pixel2point(pixels, points[:, 2].expand(4, 6), K)
assert torch.allclose(back, points.expand(4, 6, 3), atol=1e-5)   # fully batched call is fine

ok = True
for name, px, depth in (("pixels (4,6,2), depth (6,), intrinsics (4,3,3)", pixels, points[:, 2]),
                        ("pixels (6,2), depth (6,), intrinsics (4,3,3)", pixels[0], points[:, 2])):
    try:
        out = pp.pixel2point(px, depth, K)
        assert out.shape == (4, 6, 3), out.shape
        print("OK  ", name, "->", tuple(out.shape))
    except Exception as e:
        ok = False
        print("FAIL", name, "raised %s: %s" % (type(e).__name__, e))
if not ok:
    print("pixel2point does not broadcast depth / pixels against batched intrinsics, "
          "while point2pixel (its inverse) does broadcast points against intrinsics")
    sys.exit(1)
