# Existing behaviour (unchanged code): for every sequence length that is a power of two
# (1, 2, 4, 8, ...) cumops/cumops_ run one extra doubling step whose index range is EMPTY
# and still call the user operation on two zero-length operands. A perfectly associative
# user operation that is written item-wise (and therefore cannot build a result from zero
# items) makes pp.cumops raise for L = 1, 2, 4, 8, ... while it works for L = 3, 5, 6, 7, ...
import sys, warnings
warnings.filterwarnings("ignore")
import torch, pypose as pp

torch.manual_seed(0)
calls = []
def itemwise(a, b):                       # associative: per-item group product
    calls.append(len(a))
    return torch.stack([x @ y for x, y in zip(a, b)])

bad = []
for L in range(1, 18):
    x = pp.randn_SO3(L, dtype=torch.float64)
    ref = [x[0]]
    for t in x[1:]: ref.append(ref[-1] @ t)
    ref = torch.stack(ref)
    calls.clear()
    try:
        out = pp.cumops(x, 0, itemwise)
        assert torch.allclose(out.tensor(), ref.tensor(), atol=1e-10)
    except Exception as e:
        bad.append(L)
        print("L=%2d: pp.cumops raised %s: %s   (operand lengths passed to ops: %s)"
              % (L, type(e).__name__, str(e).splitlines()[0], calls))
if bad:
    print("cumops fails for lengths", bad, "- ops is called with empty operands on the last step")
    sys.exit(1)
print("OK")
