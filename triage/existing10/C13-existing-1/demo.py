"""PF.forward documents `t (int, optional): set system timestamp for estimation`, but a Python int
timestep raises TypeError inside NLS.set_refpoint (torch.atleast_1d(int)); the same happens for
EKF and UKF. Only a Tensor t works."""
import sys, warnings
warnings.filterwarnings('ignore')
import torch, pypose as pp

class Sys(pp.module.NLS):
    def state_transition(self, state, input, t=None):
        return 0.9 * state + input
    def observation(self, state, input, t=None):
        return state

n = 2
x, y, u = torch.zeros(n), torch.ones(n), torch.zeros(n)
P, Q, R = torch.eye(n), 0.1 * torch.eye(n), 0.1 * torch.eye(n)
bad = []
for F in (pp.module.PF, pp.module.UKF, pp.module.EKF):
    f = F(Sys(), Q, R)
    f(x, y, u, P, t=torch.tensor(3))           # tensor time works
    try:
        f(x, y, u, P, t=3)                     # int time, as documented for PF
        print(F.__name__, 't=3 ok')
    except Exception as e:
        print(F.__name__, 't=3 raised', type(e).__name__, str(e).splitlines()[0][:90])
        bad.append(F.__name__)
if bad:
    print('FAIL: integer timestep rejected by', bad)
    sys.exit(1)
print('PASS')
