"""knn_filter(points, k, radius=r) promises, for every point that has at least k other
points within r, the mean of that point and its k nearest neighbours.  A retained point's
neighbours are not necessarily retained themselves; when fewer than k+1 points survive the
radius test the function raises instead of returning a row for the surviving point(s)."""
import sys
import torch
import pypose as pp

# A=(0,0) has B and C within 1.5 -> kept (k=2).  B and C only have A within 1.5 -> removed.
points = torch.tensor([[0., 0.], [1., 0.], [-1., 0.], [10., 10.]])
_, mask = pp.nbr_filter(points, nbr=2, radius=1.5, return_mask=True)
print("points with >= 2 others within 1.5 (nbr_filter mask):", mask.tolist())
try:
    out = pp.knn_filter(points, k=2, radius=1.5)
except Exception as e:
    print("knn_filter(points, k=2, radius=1.5) raised %s: %s" % (type(e).__name__, e))
    print("expected one output row for the retained point (0, 0): the mean of itself and "
          "its two nearest neighbours (1,0), (-1,0) = (0, 0)")
    sys.exit(1)
assert out.shape == (1, 2), out.shape
print("OK:", out)
