"""Existing defect: ReduceToBason divides the decrease by the *signed* current loss,
(last - loss) / loss.  For negative losses (e.g. an MPC / LQR cost with a linear term, a
log-likelihood) the sign of the relative decrease flips: every genuine decrease is counted
as a failed step and every increase as progress."""
import sys
import pypose as pp

bad = 0

# loss decreases by a large amount at every step: -1, -2, -4, -8, ...; budget 8, patience 2
stepper = pp.utils.ReduceToBason(steps=8, patience=2, decreasing=1e-3, tol=-float('inf'))
x, n = -0.5, 0
while stepper.continual():
    x, n = 2 * x, n + 1
    stepper.step(x)
print('loss -1, -2, -4, ... (halving downwards): loop ran %d steps, expected 8 (budget)' % n)
bad += n != 8

# loss increases at every step: -256, -128, -64, ...; patience 2 -> must stop after 3 steps
# (the first step has no predecessor, steps 2 and 3 fail to decrease)
stepper = pp.utils.ReduceToBason(steps=8, patience=2, decreasing=1e-3, tol=-float('inf'))
x, n = -512.0, 0
while stepper.continual():
    x, n = x / 2, n + 1
    stepper.step(x)
print('loss -256, -128, -64, ... (getting worse): loop ran %d steps, expected 3 (patience)' % n)
bad += n != 3

if bad:
    print('FAIL: with negative losses the patience rule of ReduceToBason is inverted')
    sys.exit(1)
print('PASS')
