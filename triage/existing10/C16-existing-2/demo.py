"""Existing behaviour: with reset=False the integrator keeps VIEWS of the tensors it returns
(self.pos = predict['pos'][..., -1:, :] etc.) as its carried state.  A caller that post-processes
the returned trajectory in place (here: expresses the positions relative to a map origin)
silently moves the integrator's own state, and the next chunk continues from the shifted state:
feeding the stream in two chunks no longer gives the states of the single call.
"""
import sys
import torch
import pypose as pp

torch.set_default_dtype(torch.float64)
torch.manual_seed(0)
F = 20
dt = torch.rand(1, F, 1) * 0.02 + 0.005
gyro = torch.randn(1, F, 3) * 0.3
acc = torch.randn(1, F, 3) + torch.tensor([0., 0., 9.81007])
new = lambda: pp.module.IMUPreintegrator(torch.zeros(3), pp.identity_SO3(), torch.zeros(3), reset=False)

whole = new()(dt, gyro, acc)

imu = new()
origin = torch.tensor([100., 200., 0.])
first = imu(dt[:, :8], gyro[:, :8], acc[:, :8])
first['pos'] -= origin                     # caller converts ITS copy of the result to map coordinates
second = imu(dt[:, 8:], gyro[:, 8:], acc[:, 8:])

err = (second['pos'] - whole['pos'][:, 8:]).abs().max().item()
print("second chunk vs the same frames of the single call, max abs position difference:", err)
if err > 1e-9:
    print("MISMATCH: editing the returned 'pos' tensor in place changed the integrator's carried state "
          "(the state buffers alias the returned tensors)")
    sys.exit(1)
print("OK")
