"""Existing behaviour: IMUPreintegrator.integrate() documents the input shapes (B, F, H), (F, H)
and (H) ("This layer supports the input shape with ..."), but only forward() normalises the rank;
integrate() itself raises for (F, H) and (H) inputs.
"""
import sys
import torch
import pypose as pp

imu = pp.module.IMUPreintegrator(torch.zeros(3), pp.identity_SO3(), torch.zeros(3))
bad = []
for name, (dt, gyro, acc) in {
        "(F, H)": (torch.rand(5, 1) * 0.01, torch.randn(5, 3), torch.randn(5, 3)),
        "(H)":    (torch.rand(1) * 0.01, torch.randn(3), torch.randn(3))}.items():
    try:
        out = imu.integrate(dt, gyro, acc)
        print(name, "->", {k: tuple(v.shape) for k, v in out.items()})
    except Exception as e:
        print(name, "-> raised", type(e).__name__ + ":", e)
        bad.append(name)
if bad:
    print("MISMATCH: integrate() raises for the documented input ranks", bad)
    sys.exit(1)
print("OK")
