# Existing behaviour (unchanged code): LQR on a time-varying (LTV) system with a step
# interval dt != 1 is not optimal.  lqr_backward linearises the system at clock t*dt
# (set_refpoint(t=t*dt)), but the nominal roll-out and the forward roll-out advance the
# system clock by 1 per step, so the gains are computed for A_{t*dt}, B_{t*dt} while the
# returned trajectory is generated with A_t, B_t.  The result is a minimiser under
# neither reading of dt.
import sys, warnings
warnings.filterwarnings("ignore")
import torch, pypose as pp

torch.set_default_dtype(torch.float64)
torch.manual_seed(0)
nb, T, ns, nc, dt = 2, 4, 3, 2, 2
n = ns + nc
M = torch.randn(nb, T, n, n); Q = M.mT @ M + 0.5 * torch.eye(n); p = torch.randn(nb, T, n)
L = dt * T                                     # enough matrices for either reading
A = torch.eye(ns) + 0.3 * torch.randn(nb, L, ns, ns); B = torch.randn(nb, L, ns, nc)
C = torch.eye(ns).repeat(nb, L, 1, 1); D = torch.zeros(nb, L, ns, nc)
x_init = torch.randn(nb, ns)

class MyLTV(pp.module.LTV):
    @property
    def A(self): return self._A[..., self._t, :, :]
    @property
    def B(self): return self._B[..., self._t, :, :]
    @property
    def C(self): return self._C[..., self._t, :, :]
    @property
    def D(self): return self._D[..., self._t, :, :]

def rollout(u, step):
    x, xs, cost = x_init, [x_init], 0
    for t in range(T):
        tau = torch.cat((x, u[:, t]), -1)
        cost = cost + 0.5 * torch.einsum('bi,bij,bj->b', tau, Q[:, t], tau) + (p[:, t] * tau).sum(-1)
        x = torch.einsum('bij,bj->bi', A[:, t*step], x) + torch.einsum('bij,bj->bi', B[:, t*step], u[:, t])
        xs.append(x)
    return torch.stack(xs, 1), cost

bad = False
for d in (1, dt):
    x, u, cost = pp.module.LQR(MyLTV(A, B, C, D), Q, p, T)(x_init, d)
    for step, name in ((1, "x_{t+1} = A_t x_t + B_t u_t"), (d, "x_{t+1} = A_{t*dt} x_t + B_{t*dt} u_t")):
        u_ = u.clone().requires_grad_(True)
        xs, c = rollout(u_, step)
        g, = torch.autograd.grad(c.sum(), u_)
        feas, gmax = (xs - x).abs().max().item(), g.abs().max().item()
        print(f"dt={d}  reading '{name}': |x - rollout| = {feas:.2e}, |dcost/du| = {gmax:.2e}")
    # the returned trajectory follows the step-1 clock; is it optimal for those dynamics?
    u_ = u.clone().requires_grad_(True)
    g, = torch.autograd.grad(rollout(u_, 1)[1].sum(), u_)
    if g.abs().max() > 1e-7:
        bad = True
if bad:
    print("FAIL: with dt=2 the returned trajectory follows A_t, B_t (clock +1 per step) but the "
          "inputs are not a minimiser for these dynamics (gains were computed from A_{t*dt}, B_{t*dt}).")
    sys.exit(1)
print("OK")
