"""The library's own linear system class pp.module.LTI cannot be filtered: EKF/UKF/PF call
model.state_transition(x, u, t) / observation(x, u, t), but LTI overrides these methods of
System (whose signature is (state, input, t=None)) WITHOUT the t parameter -> TypeError."""
import sys, warnings
warnings.filterwarnings('ignore')
import torch, pypose as pp

n = 2
lti = pp.module.LTI(0.9 * torch.eye(n), torch.eye(n), torch.eye(n), torch.zeros(n, n))
x, y, u = torch.zeros(n), torch.ones(n), torch.zeros(n)
P, Q, R = torch.eye(n), 0.1 * torch.eye(n), 0.1 * torch.eye(n)
bad = []
for F in (pp.module.EKF, pp.module.UKF, pp.module.PF):
    try:
        F(lti, Q, R)(x, y, u, P)
        print(F.__name__, 'on LTI ok')
    except Exception as e:
        print(F.__name__, 'on LTI raised', type(e).__name__, str(e)[:90])
        bad.append(F.__name__)
if bad:
    print('FAIL: LTI model cannot be used with', bad)
    sys.exit(1)
print('PASS')
