"""Existing behaviour: the covariance propagation of IMUPreintegrator uses the preintegrated
rotation AFTER step k (Delta R_{i,k+1}) where the docstring of forward() (and Forster et al.,
eq. A.9) uses the rotation BEFORE the step (Delta R_{ik}) in the A and B_a blocks.

One frame from a zero covariance: Delta R_{ii} = I, so the docstring gives
    cov[vel, vel] = B_a C_a B_a^T / dt = (I dt) diag(C_a) (I dt)^T / dt = diag(C_a) dt .
With a 90 degree yaw during the frame and different accelerometer variances per axis the
module returns R diag(C_a) R^T dt instead (x and y variances exchanged).
"""
import sys, math
import torch
import pypose as pp

torch.set_default_dtype(torch.float64)
h = 0.1
dt = torch.tensor([[[h]]])
gyro = torch.tensor([[[0., 0., math.pi / 2 / h]]])          # 90 deg about z within the frame
acc = torch.tensor([[[0.3, -0.2, 9.81007]]])
acc_cov = torch.tensor([1e-2, 4e-2, 9e-2])                  # documented: three-element tensor
gyro_cov = torch.tensor([1e-4, 1e-4, 1e-4])

imu = pp.module.IMUPreintegrator(torch.zeros(3), pp.identity_SO3(), torch.zeros(3),
                                 gyro_cov=gyro_cov, acc_cov=acc_cov)
cov = imu(dt, gyro, acc)['cov'][0]
got = cov[3:6, 3:6] / h
want = torch.diag(acc_cov)
print("velocity block of the covariance / dt, returned:\n", got)
print("docstring (B_a = [0; Delta R_ik dt; 1/2 Delta R_ik dt^2] with Delta R_ii = I):\n", want)
err = (got - want).abs().max().item()
print("max abs difference:", err)
if err > 1e-9:
    print("MISMATCH: the covariance blocks are built with Delta R_{i,k+1} (rotation after the step), "
          "not Delta R_{ik} as documented")
    sys.exit(1)
print("OK")
