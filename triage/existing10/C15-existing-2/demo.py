"""The observation returned by NLS.__call__ can be changed by the clock advance of the same call.

NLS.forward hands the live clock buffer (self.systime, not a copy) to state_transition and
observation. If an output is a view of t (e.g. a clock/time-stamp channel returned as
torch.atleast_1d(t) or t.expand(k)), the forward hook's in-place self._t.add_(1) modifies the
already computed output before the caller receives it: y_k reports t_k + 1 instead of g(x_k,u_k,t_k).
"""
import sys
import torch
import pypose as pp


class Stamped(pp.module.NLS):
    def state_transition(self, x, u, t):
        return x.cos() + u

    def observation(self, x, u, t):
        return torch.atleast_1d(t)          # time stamp of the observation


s = Stamped().reset(5)
x, u = torch.tensor([1., 2.]), torch.tensor([0.3, 0.1])
expected = s.observation(x, u, s.systime.clone())
_, y = s(x, u)
print('g(x,u,t=5) =', expected.tolist(), ' observation returned by the call at t=5:', y.tolist())
_, y2 = s(x, u)
print('after one more call the first observation reads', y.tolist())
if not torch.equal(y, expected):
    print('FAIL: the returned observation aliases the clock and was advanced by the forward hook')
    sys.exit(1)
print('PASS')
