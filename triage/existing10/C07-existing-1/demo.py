"""Existing behaviour (unchanged code): LevenbergMarquardt.step() decides "loss not decreasing"
against the loss remembered from the PREVIOUS call (self.loss), not against the loss of the
current (input, target) at the current parameters.  When the second call uses another target
(mini-batches, a new measurement, re-initialised parameters ...) every trial is rejected although
each of them lowers the loss of the problem actually being solved; the step that is finally kept is
the (reject+1)-th trial with the diagonal inflated (1+damping)^(reject+1) times.

The docstring's algorithm says a trial is rejected only `if loss not decreasing`.
"""
import sys, torch, pypose as pp
from torch import nn

torch.set_default_dtype(torch.float64)
torch.manual_seed(0)


class Lin(nn.Module):
    def __init__(self):
        super().__init__()
        self.v = nn.Parameter(torch.zeros(3))

    def forward(self, x):
        return x @ self.v                                     # (N,) -> one residual of dim N


class Recorder(nn.Module):
    def __init__(self):
        super().__init__()
        self.inner, self.calls = pp.optim.solver.Cholesky(), 0

    def forward(self, A, b):
        self.calls += 1
        return self.inner(A, b)


x = torch.randn(6, 3)
t1 = x @ torch.tensor([0.1, -0.2, 0.3])
t2 = x @ torch.tensor([5.0, 4.0, -6.0])

model, rec = Lin(), Recorder()
optim = pp.optim.LM(model, solver=rec, strategy=pp.optim.strategy.Constant(damping=0.5))
for _ in range(3):
    optim.step(x, t1)                                         # nearly converged on target t1

v0 = model.v.detach().clone()
loss_before = (x @ v0 - t2).square().sum().item()             # loss of the NEW problem before the step
J, R = x, x @ v0 - t2
A = J.T @ J
A = A - torch.diag(A.diagonal()) + torch.diag(A.diagonal().clamp(1e-6, 1e32) * 1.5)
first_trial = v0 + torch.linalg.solve(A, -J.T @ R)
loss_first = (x @ first_trial - t2).square().sum().item()

rec.calls = 0
optim.step(x, t2)
err = (model.v.detach() - first_trial).abs().max().item()
print('loss of the new problem before the step : %.4f' % loss_before)
print('loss after the first LM trial           : %.4f  (decreasing -> must be accepted)' % loss_first)
print('stale loss the trials were compared with: remembered from the previous call')
print('linear solves in this step              : %d (expected 1)' % rec.calls)
print('|v - first trial|                       : %.3e' % err)
if rec.calls != 1 or err > 1e-9:
    print('FAIL: a loss-decreasing first trial was rejected; the step kept is trial #%d' % rec.calls)
    sys.exit(1)
print('OK')
