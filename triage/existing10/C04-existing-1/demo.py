"""pp.optim.functional.modjacrev on a model whose parameter is a LieTensor pp.Parameter.

modjac (same module) returns the model Jacobian for such a model, and
pp.func.jacrev exists so that torch.func.jacrev keeps the LieTensor type.
modjacrev calls torch.func.jacrev directly, without pp.retain_ltype(), so the
parameter reaches forward() as a plain Tensor and the first LieTensor method
raises AttributeError.  Wrapped in pp.retain_ltype() by hand the same call works
and agrees with modjac.
"""
import sys, warnings
import torch
from torch import nn
import pypose as pp

warnings.filterwarnings("ignore")
torch.set_default_dtype(torch.float64)
torch.manual_seed(0)


class Model(nn.Module):
    def __init__(self):
        super().__init__()
        self.pose = pp.Parameter(pp.randn_SE3(2))

    def forward(self, points):
        return self.pose.Act(points)


model, points = Model(), torch.randn(2, 3)
J_ref = pp.optim.functional.modjac(model, points)[0]
print("modjac                       :", tuple(J_ref.shape))

with pp.retain_ltype():
    J_ctx = pp.optim.functional.modjacrev(model, points)["pose"]
print("modjacrev in retain_ltype()  : max diff to modjac %.1e" % (J_ctx - J_ref).abs().max().item())

try:
    J = pp.optim.functional.modjacrev(model, points)["pose"]
except Exception as e:
    print("modjacrev                    : raised %r" % (e,))
    sys.exit(1)
err = (J - J_ref).abs().max().item()
print("modjacrev                    : max diff to modjac %.1e" % err)
sys.exit(0 if err < 1e-9 else 1)
