"""Existing defect (unchanged code): CG with the documented "batch size 1" input.

The class docstring recommends "non-batched or batch size 1 input".  For a batch
of size 1, A has shape (1, n, n) and b has shape (1, n, 1); CG.forward computes
its norms with torch.linalg.norm(., dim=0), i.e. over the BATCH axis instead of
the vector axis, so the stopping rule becomes the element-wise test
|r_i| < tol * |b_i|.  Whenever b has a zero component the test can never pass;
once the residual becomes exactly zero the next step divides 0 by 0 and the
returned solution is NaN.  The same system passed un-batched is solved fine.

Run from the root of the checkout:  /venv/bin/python demo.py
"""
import sys, warnings
import torch
warnings.filterwarnings('ignore')
from pypose.optim.solver import CG

A = torch.diag(torch.tensor([2., 3., 5.], dtype=torch.float64))   # SPD, cond 2.5
b = torch.tensor([[1.], [0.], [2.]], dtype=torch.float64)
x_ref = torch.linalg.solve(A, b)

x_single = CG()(A, b)
x_batch1 = CG()(A[None], b[None])[0]
print('un-batched   :', x_single.flatten().tolist())
print('batch size 1 :', x_batch1.flatten().tolist())
print('reference    :', x_ref.flatten().tolist())
ok_single = torch.allclose(x_single, x_ref, atol=1e-8)
res = torch.linalg.norm(b - A @ x_batch1) / torch.linalg.norm(b)
ok_batch = bool(res <= 1e-5)
if not (ok_single and ok_batch):
    print('FAIL: CG on a batch of size 1 does not satisfy |b - A x| <= tol |b| '
          '(relative residual = %s); the un-batched call is %s'
          % (float(res), 'fine' if ok_single else 'wrong too'))
    sys.exit(1)
print('OK')
