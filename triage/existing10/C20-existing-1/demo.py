"""Existing defect: _Scheduler.state_dict() contains the `continual` wrapper object, which
holds a reference to the scheduler it was created for.  load_state_dict() copies that
wrapper into the receiving scheduler, so afterwards receiver.continual() reports the state
of the DONOR scheduler, not its own: a receiver restored from a still-running donor never
reports continual() == False, however far it runs past its own step budget."""
import sys
import torch
from torch import nn
import pypose as pp


class PoseInv(nn.Module):
    def __init__(self, *dim):
        super().__init__()
        self.pose = pp.Parameter(pp.randn_SE3(*dim))

    def forward(self, input):
        return (self.pose @ input).Log().tensor()


torch.manual_seed(0)
inputs = pp.randn_SE3(2, 2)

def make(steps):
    net = PoseInv(2, 2)
    opt = pp.optim.LM(net, strategy=pp.optim.strategy.Constant(damping=1e-4))
    return opt, pp.optim.scheduler.StopOnPlateau(opt, steps=steps, patience=3, decreasing=1e-3)

# donor: stepped once, still running; its state is saved (checkpoint)
opt_a, sched_a = make(steps=4)
sched_a.step(opt_a.step(inputs))
assert sched_a.continual()
state = sched_a.state_dict()

# receiver: restores the checkpoint and continues for the remaining budget
opt_b, sched_b = make(steps=4)
sched_b.load_state_dict(state)
n = 0
while sched_b.continual() and n < 20:
    sched_b.step(opt_b.step(inputs)); n += 1
print('receiver: steps=%d max_steps=%d own flag _continual=%s continual()=%s, loop ran %d more steps'
      % (sched_b.steps, sched_b.max_steps, sched_b._continual, sched_b.continual(), n))
if sched_b.continual() != sched_b._continual or sched_b.steps > sched_b.max_steps:
    print('FAIL: after load_state_dict the receiver\'s continual() answers for the donor scheduler; '
          'the receiver ran past its step budget (%d > %d) and still reports continual() == True'
          % (sched_b.steps, sched_b.max_steps))
    sys.exit(1)
print('PASS')
