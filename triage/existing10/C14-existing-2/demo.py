# Existing behaviour (unchanged code): LQR.forward / MPC.forward document u_lower, u_upper
# ("The lower/upper bounds on the controls") and du, accept them, and ignore them.
import sys, warnings
warnings.filterwarnings("ignore")
import torch, pypose as pp

torch.set_default_dtype(torch.float64)
torch.manual_seed(0)
nb, T, ns, nc = 2, 5, 3, 2
n = ns + nc
Q = torch.eye(n).repeat(nb, T, 1, 1); p = torch.randn(nb, T, n)
A = torch.eye(ns) + 0.3 * torch.randn(nb, ns, ns); B = torch.randn(nb, ns, nc)
C = torch.eye(ns).repeat(nb, 1, 1); D = torch.zeros(nb, ns, nc)
x_init = torch.randn(nb, ns)
lo, hi = -0.1 * torch.ones(nb, T, nc), 0.1 * torch.ones(nb, T, nc)
lqr = pp.module.LQR(pp.module.LTI(A, B, C, D), Q, p, T)
x, u, cost = lqr(x_init, u_lower=lo, u_upper=hi)
x0, u0, cost0 = lqr(x_init)
print("max |u| with bounds [-0.1, 0.1]:", u.abs().max().item())
print("identical to the unconstrained solution:", torch.equal(u, u0))
if (u < lo - 1e-9).any() or (u > hi + 1e-9).any():
    print("FAIL: returned controls violate the documented bounds u_lower/u_upper (arguments are ignored).")
    sys.exit(1)
print("OK")
