"""An NLS whose f/g work in forward() cannot be linearised at an explicitly given time.

forward() hands state_transition/observation the 0-dim clock, but set_refpoint(t=...)
promotes a 0-dim time stamp to shape (1,) (torch.atleast_1d) before calling the very
same functions, so functions that assemble their output from scalars (torch.stack)
raise, although set_refpoint() with the default time (0-dim clone of the clock) works.
"""
import sys
import torch
import pypose as pp


class Osc(pp.module.NLS):
    def state_transition(self, x, u, t):
        return torch.stack((x[1] + u[0], -x[0] * torch.cos(0.1 * t)))

    def observation(self, x, u, t):
        return torch.stack((x[0] * 1.0, 0.5 * t))


s = Osc()
x, u = torch.tensor([1., 2.]), torch.tensor([0.3])
nxt, obs = s(x, u)                      # fine: t is the 0-dim clock
print('forward ok:', nxt, obs)
s.set_refpoint()                        # fine: default time is a 0-dim clone of the clock
print('default-time linearisation ok, A =', s.A.tolist())
try:
    s.set_refpoint(state=x, input=u, t=torch.tensor(1))   # same point, time given explicitly
    A = s.A
except Exception as e:
    print('set_refpoint(state, input, t=torch.tensor(1)) raised %s: %s' % (type(e).__name__, e))
    print('FAIL: an explicit 0-dim reference time reaches f/g with shape (1,) instead of ()')
    sys.exit(1)
ok = tuple(A.shape) == (2, 2) and tuple(s._ref_f.shape) == (2,)
print('A shape', tuple(A.shape), 'f(x*,u*,t*) shape', tuple(s._ref_f.shape))
sys.exit(0 if ok else 1)
