"""Triage only (NOT a registered check): re-run the failing input of each finding against the real code.
usage: /venv/bin/python triage/repro.py [F1 F2 ...]   prints  Fk DEFECT|ok <observation>"""
import sys, warnings, torch, pypose as pp
warnings.simplefilter('ignore')
torch.set_default_dtype(torch.float64)


def F1():
    try:
        pp.cumprod(pp.randn_SO3(3), 0)
        pp.cumprod(pp.randn_SO3(5), 0)
        return False, 'cumprod works for L=3,5'
    except Exception as e:
        return True, 'pp.cumprod(randn_SO3(3), 0) raises %s' % type(e).__name__


def F2():
    A = torch.tensor([[1., 2.], [2., 1.]]); b = torch.tensor([[1.], [1.]])
    try:
        x = pp.optim.solver.Cholesky()(A, b)
        return True, 'indefinite A solved silently: %s (true [1/3,1/3])' % x.flatten().tolist()
    except Exception as e:
        return False, 'raises %s' % type(e).__name__


def F3():
    x = pp.SO3(torch.tensor([0., 0., 0., 2.]))
    pp.quat2unit(x)
    return bool(x[3] != 2.), 'argument after quat2unit: %s' % x.tensor().tolist()


def F4():
    A = torch.tensor([[4., 1.], [1., 3.]]); b = torch.tensor([[1.], [2.]]); x0 = torch.tensor([[2.], [1.]])
    keep = x0.clone()
    pp.optim.solver.CG()(A, b, x0)
    return bool((x0 != keep).any()), 'initial guess after CG: %s' % x0.flatten().tolist()


def F5():
    n = 6
    st = torch.arange(n, dtype=torch.float64)
    poses = pp.randn_SE3(n)
    est = st.clone()
    pp.metric.ape(st, poses, est, poses, offset=1e-3)
    return bool((est != st).any()), 'estamp shifted by %.1e' % (est - st).abs().max().item()


def F6():
    out = []
    for G, g in ((pp.randn_SE3, pp.randn_se3), (pp.randn_Sim3, pp.randn_sim3)):
        torch.manual_seed(0)
        X = G(); a = g()
        X0 = X.tensor().clone()
        def f(av):
            return pp.LieTensor(X0, ltype=X.ltype).AdjT(pp.LieTensor(av, ltype=a.ltype)).tensor()
        Jn = torch.autograd.functional.jacobian(f, a.tensor())
        # exact: AdjT(X, a) is linear in a: out = Adj(X^-1) a
        n = a.shape[-1]
        Jt = torch.stack([f(torch.eye(n)[i]) for i in range(n)], -1)
        out.append((Jn - Jt).abs().max().item())
    return max(out) > 1e-6, 'jacobian d AdjT/d a error SE3 %.2e Sim3 %.2e' % tuple(out)


def F7():
    try:
        y = pp.optim.kernel.Scale()(torch.tensor(-1.))
        return True, 'Scale(-1) = %s' % y.item()
    except AssertionError:
        return False, 'rejects negative input'


def F8():
    torch.manual_seed(0)
    R = torch.randn(4, 3); J = torch.randn(12, 5)
    k = pp.optim.kernel.SoftLOne()   # rho''<0 ; use a positive-curvature kernel instead
    class K(torch.nn.Module):
        def forward(self, x): return x + 0.1 * x * x
    sR, sJ = pp.optim.corrector.Triggs(K())(R, J)
    x = (R * R).sum(-1, keepdim=True); g1 = 1 + 0.2 * x
    want = (J.view(4, 3, 5) * (g1 * R).unsqueeze(-1)).sum((0, 1))
    got = (sJ.view(4, 3, 5) * sR.unsqueeze(-1)).sum((0, 1))
    err = (want - got).abs().max().item()
    return err > 1e-8, "J'^T R' - sum rho' J^T R = %.2e" % err


def F9():
    pts = torch.tensor([[100., 100., 100.], [0., 0., 0.], [0.1, 0., 0.], [0., 0.1, 0.], [0., 0., 0.1]])
    try:
        out = pp.knn_filter(pts, k=2, radius=1.0)
        ref = pts[1:]
        d = torch.cdist(ref, ref)
        idx = d.topk(3, largest=False).indices
        want = ref[idx].mean(1)
        err = (out - want).abs().max().item()
        return err > 1e-9, 'max deviation from brute force %.2e' % err
    except Exception as e:
        return True, 'raises %s' % type(e).__name__


def F10():
    s = pp.utils.stepper.ReduceToBason(steps=10, patience=5)
    s.step(torch.tensor(1.0)); s.step(torch.tensor(1.0)); s.step(torch.tensor(1.0))
    s.reset()
    return s.patience_count != 0, 'patience_count after reset = %d' % s.patience_count


def _kf(F):
    torch.manual_seed(1)
    n, m, p = 3, 2, 2
    A = torch.randn(n, n) * 0.5; B = torch.randn(n, m); C = torch.randn(p, n); D = torch.randn(p, m); c1 = torch.randn(n); c2 = torch.randn(p)
    class Lin(pp.module.NLS):
        def state_transition(s, x, u, t=None): return pp.bmv(A, x) + pp.bmv(B, u) + c1
        def observation(s, x, u, t=None): return pp.bmv(C, x) + pp.bmv(D, u) + c2
    def spd(k):
        M = torch.randn(k, k); return M @ M.T + 0.1 * torch.eye(k)
    Q, R, P = spd(n), spd(p), spd(n)
    x = torch.randn(n); u = torch.randn(m); y = torch.randn(p)
    xm = A @ x + B @ u + c1; Pm = A @ P @ A.T + Q; K = Pm @ C.T @ torch.linalg.inv(C @ Pm @ C.T + R)
    xk = xm + K @ (y - (C @ xm + D @ u + c2)); Pk = (torch.eye(n) - K @ C) @ Pm
    xe, Pe = F(Lin(), Q, R)(x, y, u, P)
    return (xe - xk).abs().max().item(), (Pe - Pk).abs().max().item()


def F11():
    a, b = _kf(pp.module.EKF)
    return max(a, b) > 1e-8, 'EKF vs exact KF: mean err %.2e cov err %.2e' % (a, b)


def F12():
    a, b = _kf(pp.module.UKF)
    return max(a, b) > 1e-8, 'UKF vs exact KF: mean err %.2e cov err %.2e' % (a, b)


def F13():
    torch.set_default_dtype(torch.float32)
    try:
        torch.manual_seed(0)
        n_batch, T, ns, nc = 1, 5, 2, 1
        Q = torch.tile(torch.eye(ns + nc), (n_batch, 1, 1)); p = torch.randn(n_batch, ns + nc)
        L = 3 * T; rt = torch.arange(1, L + 1).view(L, 1, 1).float()
        A = torch.tile(torch.eye(ns), (n_batch, L, 1, 1)) * 0.3 * rt / L * 3; B = rt * torch.ones(n_batch, L, ns, nc)
        C = torch.tile(torch.eye(ns), (n_batch, L, 1, 1)); D = torch.zeros(n_batch, L, ns, nc)
        class MyLTV(pp.module.LTV):
            @property
            def A(self): return self._A[..., self._t % L, :, :]
            @property
            def B(self): return self._B[..., self._t % L, :, :]
            @property
            def C(self): return self._C[..., self._t % L, :, :]
            @property
            def D(self): return self._D[..., self._t % L, :, :]
        ltv = MyLTV(A, B, C, D); lqr = pp.module.LQR(ltv, Q, p, T); x0 = torch.randn(n_batch, ns)
        x1, u1, c1 = lqr(x0); x2, u2, c2 = lqr(x0)
        d = (u1 - u2).abs().max().item()
        return d > 1e-6, 'two identical LQR solves on one LTV object: cost %.4f vs %.4f, |du| %.2e' % (c1.item(), c2.item(), d)
    finally:
        torch.set_default_dtype(torch.float64)


def F14():
    A = torch.eye(2); B = torch.zeros(2, 1); C = torch.eye(2); D = torch.zeros(2, 1)
    sysm = pp.module.LTI(A * 2, B, C, D)
    x = torch.ones(1, 4, 2); u = torch.zeros(1, 4, 1)
    keep = x.clone()
    from pypose.module.dynamics import runsys
    runsys(sysm, 4, x, u)
    return bool((x != keep).any()), 'x_traj argument after runsys: %s' % x[0, :, 0].tolist()


def F15():
    """PF: with many particles the estimate must approach the exact posterior mean of the documented particle model
    (likelihood at the PROPAGATED particle).  Linear system, closed-form reference, 6-sigma Monte-Carlo band."""
    torch.manual_seed(2024)
    n, m, p, N = 3, 2, 2, 200000
    A = 0.9 * torch.linalg.qr(torch.randn(n, n))[0]
    B, C, D = torch.randn(n, p), torch.randn(m, n), torch.randn(m, p)
    c1, c2 = torch.randn(n), torch.randn(m)
    def spd(k, s):
        M = torch.randn(k, k); return s * (M @ M.T + k * torch.eye(k)) / k
    Q, P = spd(n, 0.01), spd(n, 0.5)
    R = (C @ P @ C.T) * 2.0
    x, u = torch.randn(n), torch.randn(p)
    y = C @ (A @ (x + torch.linalg.cholesky(P) @ torch.randn(n)) + B @ u + c1) + D @ u + c2
    class Lin(pp.module.NLS):
        def state_transition(s, state, input, t=None): return pp.bmv(A, state) + pp.bmv(B, input) + c1
        def observation(s, state, input, t=None): return pp.bmv(C, state) + pp.bmv(D, input) + c2
    xe, Pe = pp.module.PF(Lin(), particles=N)(x, y, u, P, Q, R)
    out = []
    for post in (True, False):
        P0 = n * P
        H, off = (C @ A, C @ (B @ u + c1) + D @ u + c2) if post else (C, D @ u + c2)
        S = H @ P0 @ H.T + R
        K = P0 @ H.T @ torch.linalg.inv(S)
        m0 = x + K @ (y - H @ x - off)
        V0 = P0 - K @ S @ K.T
        mean, V = A @ m0 + B @ u + c1, A @ V0 @ A.T
        sigma = (V.diagonal() * (20.0 / N)).sqrt()      # generous: effective sample size >= 5% of N
        out.append(((xe - mean).abs() / sigma).max().item())
    return out[0] > 6.0, 'PF mean vs exact posterior: %.1f sigma (likelihood at propagated particle, documented), %.1f sigma (at prior particle)' % tuple(out)


def F16():
    torch.manual_seed(0)
    B, ns, nc, T = 2, 1, 1, 3
    A = torch.randn(B, ns, ns); Bm = torch.randn(B, ns, nc); C = torch.eye(ns).repeat(B, 1, 1); D = torch.zeros(B, ns, nc)
    Q = torch.eye(ns + nc).repeat(B, T, 1, 1); p = torch.randn(B, T, ns + nc); x0 = torch.randn(B, ns)
    try:
        x, u, c = pp.module.LQR(pp.module.LTI(A, Bm, C, D), Q, p, T)(x0)
        err = max((x[:, t + 1] - (pp.bmv(A, x[:, t]) + pp.bmv(Bm, u[:, t]))).abs().max().item() for t in range(T))
        return err > 1e-9, 'LQR on a batched LTI with scalar state: feasibility error %.1e' % err
    except Exception as e:
        return True, 'LQR on a batched LTI with scalar state raises %s' % type(e).__name__


def F17():
    class M(torch.nn.Module):
        def __init__(s):
            super().__init__()
            s.b = torch.nn.Parameter(torch.randn(3), requires_grad=False)
            s.a = torch.nn.Parameter(torch.randn(3))
            s.X = pp.Parameter(pp.randn_SO3(2))
        def forward(s, x):
            return s.X.Act(x) + s.a + s.b
    torch.manual_seed(0)
    m = M(); b0 = m.b.clone()
    try:
        pp.optim.GN(m).step(torch.randn(2, 3))
        return bool((m.b != b0).any()), 'GN step with a frozen parameter runs; frozen parameter changed: %s' % bool((m.b != b0).any())
    except Exception as e:
        return True, 'GN step on a model with a frozen parameter raises %s' % type(e).__name__


def F18():
    torch.manual_seed(0)
    try:
        a = pp.voxel_filter(torch.rand(5, 3) * 0.1, [1., 1., 1.], random=True)
        b = pp.voxel_filter(torch.rand(1, 3), [1., 1., 1.], random=True)
        bad = tuple(a.shape) != (1, 3) or tuple(b.shape) != (1, 3)
        return bad, 'voxel_filter(random=True): one occupied voxel -> shape %s, one point -> shape %s' % (tuple(a.shape), tuple(b.shape))
    except Exception as e:
        return True, 'voxel_filter(random=True) on a degenerate cloud raises %s' % type(e).__name__


if __name__ == '__main__':
    names = sys.argv[1:] or ['F%d' % i for i in range(1, 19)]
    for n in names:
        try:
            d, msg = globals()[n]()
        except Exception as e:   # noqa
            d, msg = True, 'repro itself raised %r' % e
        print('%-4s %-7s %s' % (n, 'DEFECT' if d else 'ok', msg))
