"""euler2SO3 documents the input shape as (*, 3) but only accepts contiguous tensors:
a transposed / strided view of Euler angles (same values, same shape) raises."""
import sys, warnings, torch, pypose as pp
warnings.filterwarnings("ignore")
torch.manual_seed(0)
base = torch.randn(3, 2, 3, dtype=torch.float64)
view = base.transpose(0, 1)                 # shape (2, 3, 3), non-contiguous, last dim intact
ref = pp.euler2SO3(view.contiguous())
bad = 0
for name, e in [("transpose(0,1) view", view), ("strided slice [::2]", torch.randn(4, 6, dtype=torch.float64)[:, ::2])]:
    try:
        out = pp.euler2SO3(e)
        same = torch.allclose(out.tensor(), pp.euler2SO3(e.contiguous()).tensor())
        print(f"{name}: ok={same}")
        bad += (not same)
    except Exception as ex:
        print(f"{name}: euler2SO3 raised {type(ex).__name__}: {str(ex)[:90]}")
        bad += 1
print("reference (contiguous copy) works, lshape", tuple(ref.lshape))
sys.exit(1 if bad else 0)
