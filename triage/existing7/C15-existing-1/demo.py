"""Existing defect: NLS.set_refpoint(state, input, t) hands the user functions a reference
time of a different shape than forward() does.  forward() passes the 0-dim clock
(self.systime), set_refpoint() passes torch.atleast_1d(t) (shape (1,)).  A time-dependent
system written element-wise with torch.stack (the style of the cart-pole example) therefore
steps fine, linearises fine with set_refpoint() (t=None -> 0-dim clock copy), but raises as
soon as the reference time is given explicitly, even as the very same 0-dim tensor."""
import sys, torch, pypose as pp

class Plant(pp.module.NLS):
    def state_transition(self, state, input, t=None):
        a, b = state
        return torch.stack((a + 0.1 * b, b + 0.1 * torch.sin(0.3 * t) * a + input[0]))
    def observation(self, state, input, t=None):
        a, b = state
        return torch.stack((a * b, torch.cos(0.3 * t) * b))

s = Plant().reset(3)
x, u = torch.tensor([0.3, -0.7]), torch.tensor([0.2])
s(x, u)                                   # works, t is 0-dim
s.set_refpoint()                          # works, reference time = clock copy (0-dim)
A_default = s.A
seen = []
class Probe(pp.module.NLS):
    def state_transition(self, state, input, t=None):
        seen.append(tuple(t.shape)); return state
    def observation(self, state, input, t=None):
        return state
p = Probe(); p(x, u); p.set_refpoint(x, u, torch.tensor(0))
print("shape of t seen by state_transition: forward ->", seen[0], ", set_refpoint(t=0-dim tensor) ->", seen[1])
try:
    s.set_refpoint(state=x, input=u, t=torch.tensor(4))
    print("A at explicit reference time:", s.A)
except Exception as e:
    print("set_refpoint(x, u, t=tensor(4)) raised", type(e).__name__, ":", e)
    print("FAIL: a system that forward() and set_refpoint() accept cannot be linearised at an explicit reference time")
    sys.exit(1)
print("PASS")
