"""LM accepts a trial whose loss is NaN although no rejection has been used.

Model: one residual  log(theta) - target  (target = -5, optimum theta = exp(-5) > 0),
started at theta = 1.  The nearly undamped first trial is theta + d = 1 - 5 = -4, where the
residual (and the loss) is NaN.  The accept test is `self.last < self.loss`; with a NaN
loss it is False, so the trial is ACCEPTED on the spot (reject_count stays 0, 16 rejections
unused), step() returns NaN and leaves parameters behind at which the loss is NaN.  Every
later step() call then skips its trial loop (`while self.last <= self.loss` is False for
NaN) and keeps returning NaN: the optimizer is stuck for good, whereas rejecting the NaN
trial and shrinking the trust region (a few halvings are enough here) reaches a finite,
smaller loss.
"""
import sys, math
import torch
import pypose as pp
from torch import nn

torch.set_default_dtype(torch.float64)


class LogFit(nn.Module):
    def __init__(self):
        super().__init__()
        self.theta = nn.Parameter(torch.tensor([1.0]))

    def forward(self, x):
        return torch.log(self.theta).unsqueeze(-1) * x


model = LogFit()
x = torch.ones(1, 1)
target = torch.full((1, 1), -5.0)
opt = pp.optim.LM(model, reject=16)          # default TrustRegion strategy
L_given = (math.log(1.0) + 5.0) ** 2
ret = opt.step(x, target)
print('loss at the given parameters: %.4f' % L_given)
print('step() returned %s, reject_count = %d (of %d allowed), theta left behind = %s'
      % (ret.item(), opt.reject_count, opt.reject, model.theta.detach().tolist()))
later = [opt.step(x, target).item() for _ in range(5)]
print('next 5 calls return', later, ' theta =', model.theta.detach().tolist())

ok = math.isfinite(ret.item()) and ret.item() <= L_given
if not ok:
    print('FAIL: a trial with NaN loss was accepted with the rejection budget untouched; '
          'the returned loss is not <= the loss at the given parameters and the model is left '
          'at parameters where the loss is NaN')
    sys.exit(1)
print('PASS')
