# Existing defect (unchanged code): LQR / MPC called with dt != 1 on a time-varying
# linear system (LTV).  The nominal and forward roll-outs advance the system clock by
# one per step (System.forward_hook), but LQR.lqr_backward linearises step t at system
# time t*dt (set_refpoint(t=torch.tensor(t*dt))).  The gains K_t, k_t are therefore
# computed for A_{t*dt}, B_{t*dt} while the trajectory is rolled out with A_t, B_t:
# the returned trajectory is feasible but is not the minimiser.  With a fractional dt
# (MPC docs use dt = 0.01) the time is truncated to 0 and every step is linearised at
# A_0, B_0.
import sys, warnings
warnings.filterwarnings('ignore')
import torch, pypose as pp
torch.set_default_dtype(torch.float64)
g = torch.Generator().manual_seed(0)
R = lambda *s: torch.randn(*s, generator=g)


class MyLTV(pp.module.LTV):        # the pattern from the LTV docstring
    def __init__(self, A, B, C, D, N):
        super().__init__(A, B, C, D)
        self.N = N
    @property
    def A(self): return self._A[..., self._t % self.N, :, :]
    @property
    def B(self): return self._B[..., self._t % self.N, :, :]
    @property
    def C(self): return self._C[..., self._t % self.N, :, :]
    @property
    def D(self): return self._D[..., self._t % self.N, :, :]


nb, T, ns, nc = 1, 6, 3, 2
N = 2 * T
A = torch.eye(ns) + 0.4 * R(nb, N, ns, ns)
B = R(nb, N, ns, nc)
C, D = torch.eye(ns).repeat(nb, N, 1, 1), torch.zeros(nb, N, ns, nc)
M = R(nb, T, ns + nc, ns + nc)
Q, p = M.mT @ M + 0.5 * torch.eye(ns + nc), R(nb, T, ns + nc)
x0 = R(nb, ns)


def J(u):
    xs = [x0]
    for t in range(T):
        xs.append(pp.bmv(A[:, t], xs[-1]) + pp.bmv(B[:, t], u[:, t]))
    x = torch.stack(xs, 1)
    tau = torch.cat((x[:, :-1], u), -1)
    return x, (0.5 * pp.bvmv(tau, Q, tau) + (tau * p).sum(-1)).sum(-1)


def examine(name, x, u, cost):
    xr, Jr = J(u)
    uu = u.clone().requires_grad_(True)
    gr, = torch.autograd.grad(J(uu)[1].sum(), uu)
    feas = (xr - x).abs().max().item()
    print(f'[{name}] follows x_(t+1)=A_t x_t+B_t u_t: err {feas:.1e}; reported cost {cost.item():.6f} '
          f'(recomputed {Jr.item():.6f}); |dJ/du|max {gr.abs().max().item():.2e}')
    return gr.abs().max().item() < 1e-8 and feas < 1e-10


ok = True
x, u, c = pp.module.LQR(MyLTV(A, B, C, D, N), Q, p, T)(x0)
ok &= examine('LQR dt=1   ', x, u, c); cref = c
x, u, c = pp.module.LQR(MyLTV(A, B, C, D, N), Q, p, T)(x0, dt=2)
ok &= examine('LQR dt=2   ', x, u, c)
print(f'             cost above the optimum by {(c - cref).item():.3e}')
x, u, c = pp.module.MPC(MyLTV(A, B, C, D, N), Q, p, T)(0.01, x0)
ok &= examine('MPC dt=0.01', x, u, c)
print(f'             cost above the optimum by {(c - cref).item():.3e}')
if not ok:
    print('FAIL: with dt != 1 the trajectory returned for an LTV system is feasible but not optimal')
    sys.exit(1)
print('PASS')
