"""
Existing defect (unchanged code): weights of a residual whose last dimension is 1.

The docs of GN/LM say: "if the shape of a residual is B*M*N*R, the shape of its weight can be
R*R, N*R*R, M*N*R*R or B*M*N*R*R" and ask users to keep a trailing dimension of 1 for scalar
residuals (R = 1).  RobustModel.normalize_RWJ however reinterprets EVERY weight of an R = 1
residual as a batch of scalars (w.view(*w.shape, 1, 1)), so the documented shapes
  (a) (1, 1) for a residual (N, 1)          -> RuntimeError in expand()
  (b) (N, 1, 1) for a residual (B, M, N, 1) -> the weight is aligned with the wrong batch axis
      (silently when B == N: item (b, m, n) gets weight[b] instead of weight[n]).

Run from the root of the checkout:  /venv/bin/python demo.py
"""
import sys
import torch
import pypose as pp
from torch import nn

torch.set_default_dtype(torch.float64)
torch.manual_seed(0)
failures = []


class Linear(nn.Module):
    def __init__(self, a):
        super().__init__()
        self.a = nn.Parameter(a.clone())

    def forward(self, x, y):
        return (x @ self.a).unsqueeze(-1) - y          # (..., 1)


def expected_gn(a0, x, y, wfull):
    # residual r = x a - y ; J = x ; W = diag(wfull) ; GN: lstsq(W J, -W R)
    J = x.reshape(-1, a0.numel())
    R = (x @ a0).reshape(-1) - y.reshape(-1)
    W = torch.diag(wfull.reshape(-1))
    return a0 + torch.linalg.pinv(W @ J) @ (-W @ R)


# (a) residual (N, 1), weight R*R = (1, 1)
a0, x, y = torch.randn(3), torch.randn(5, 3), torch.randn(5, 1)
w = torch.tensor([[2.0]])
model = Linear(a0)
try:
    pp.optim.GN(model).step((x, y), weight=w)
    err = (model.a.detach() - expected_gn(a0, x, y, w.expand(5, 1, 1))).abs().max().item()
    print('(a) residual (5,1), weight (1,1): step error %.2e' % err)
    if err > 1e-9:
        failures.append('a')
except RuntimeError as e:
    print('(a) residual (5,1), weight (1,1): GN.step raised RuntimeError:', str(e)[:110])
    failures.append('a')

# (b) residual (B, M, N, 1) = (2, 3, 2, 1), weight N*R*R = (2, 1, 1)
a0, x, y = torch.randn(3), torch.randn(2, 3, 2, 3), torch.randn(2, 3, 2, 1)
w = torch.tensor([1.0, 4.0]).view(2, 1, 1)
wfull = w.view(1, 1, 2).expand(2, 3, 2)                  # weight[n] for item (b, m, n)
model = Linear(a0)
try:
    pp.optim.GN(model).step((x, y), weight=w)
    err = (model.a.detach() - expected_gn(a0, x, y, wfull)).abs().max().item()
    wrong = w.view(2, 1, 1).expand(2, 3, 2)              # weight[b] for item (b, m, n)
    err_wrong = (model.a.detach() - expected_gn(a0, x, y, wrong)).abs().max().item()
    print('(b) residual (2,3,2,1), weight (2,1,1): |a - expected| = %.2e ; '
          '|a - step with weight indexed by the FIRST axis| = %.2e' % (err, err_wrong))
    if err > 1e-9:
        failures.append('b')
except RuntimeError as e:
    print('(b) raised RuntimeError:', str(e)[:110])
    failures.append('b')

if failures:
    print('FAIL: documented weight shapes for a residual with last dimension 1 are mishandled:', failures)
    sys.exit(1)
print('OK')
