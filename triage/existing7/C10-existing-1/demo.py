"""Unchanged code: pypose.sparse.ops._sparse_csr_mm fails for most compressed layout pairs.

The property promises the dense product for all BSR/BSC/CSR/CSC layout pairs.  Only
csr/csc x csr/csc and bsr x bsc work; every other pair raises an unrelated TypeError /
RuntimeError from inside the dispatch (not a deliberate 'unsupported' error):
  * the generic fall-through builds `zero = torch.zeros(...),` (trailing comma -> a 1-tuple)
    and passes the tuple to torch.addmm  -> TypeError for csr/csc x bsr/bsc,
  * bsc x bsr executes `raise NotImplemented` (a constant, not an exception class) -> TypeError,
  * bsr/bsc x anything-but-bsc reaches torch.zeros(layout=<block layout>) -> RuntimeError.
"""
import sys, itertools, warnings
warnings.filterwarnings('ignore')
import torch
from pypose.sparse.ops import _sparse_csr_mm

torch.manual_seed(0)
A = (torch.rand(6, 4) > 0.5) * torch.randn(6, 4)
B = (torch.rand(4, 8) > 0.5) * torch.randn(4, 8)
conv = {'csr': lambda X: X.to_sparse_csr(), 'csc': lambda X: X.to_sparse_csc(),
        'bsr': lambda X: X.to_sparse_bsr((2, 2)), 'bsc': lambda X: X.to_sparse_bsc((2, 2))}
bad = []
for l1, l2 in itertools.product(conv, conv):
    try:
        y = _sparse_csr_mm(conv[l1](A), conv[l2](B))
        ok = torch.allclose(y.to_dense(), A @ B, atol=1e-6)
        print(f'{l1} x {l2}: {"ok" if ok else "WRONG VALUES"}')
        if not ok:
            bad.append((l1, l2))
    except BaseException as e:
        print(f'{l1} x {l2}: {type(e).__name__}: {str(e).splitlines()[0][:110]}')
        bad.append((l1, l2))
if bad:
    print(f'FAIL: {len(bad)} of 16 layout pairs do not return the dense product: {bad}')
    sys.exit(1)
print('OK')
