"""MPC.forward (the driver loop around ReduceToBason) raises for a batch of more than one system as
soon as the stepper allows a second no-grad iteration: `if best['cost'] == None or cost < best['cost']`
evaluates a (n_batch,) tensor as a Python bool.  With n_batch = 1 (tests, docstring) or steps <= 2
(examples/module/mpc/linear.py uses n_batch = 5 with steps = 1) the second comparison is never reached."""
import sys
import torch
import pypose as pp

torch.manual_seed(0)
n_state, n_ctrl, T = 3, 3, 5
C, D = torch.eye(n_state), torch.zeros(n_state, n_ctrl)
c1, c2 = torch.zeros(n_state), torch.zeros(n_state)
A = torch.tensor([[1.1267, -0.0441, -0.0279], [-0.1533, 1.1775, 0.1631], [0.1618, 0.1238, 0.9489]])
B = torch.tensor([[0.4567, 0.7805, 0.0319], [-0.5938, -0.5724, 0.0422], [-0.1804, -0.2535, 1.7218]])
p0 = torch.tensor([0.6336, -0.2203, -0.1395, -0.7664, 0.8874, 0.8153])

bad = 0
for n_batch in (1, 2, 5):
    for steps in (1, 2, 3, 6):
        Q = torch.eye(n_state + n_ctrl).tile(n_batch, T, 1, 1)
        p = p0.tile(n_batch, T, 1)
        stepper = pp.utils.ReduceToBason(steps=steps, patience=50, tol=-1e30)
        mpc = pp.module.MPC(pp.module.LTI(A, B, C, D, c1, c2), Q, p, T, stepper=stepper)
        try:
            x, u, cost = mpc(1, torch.randn(n_batch, n_state))
            print('n_batch %d steps %d: ok, cost shape %s, controller steps %d'
                  % (n_batch, steps, tuple(cost.shape), stepper.steps))
        except RuntimeError as e:
            bad += 1
            print('n_batch %d steps %d: RuntimeError after %d controller step(s): %s'
                  % (n_batch, steps, stepper.steps, e))
if bad:
    print('FAIL: MPC.forward raises for batched systems once the stepper permits a 2nd iteration')
    sys.exit(1)
print('PASS')
