"""MPC promises 'n-1 loops, 1 loop with gradient', i.e. at most `steps` LQR solves for a stepper
built with steps=n.  For steps=1 the constructor lowers max_steps to 0, but the while loop still runs
one no-grad LQR solve before the controller can say stop, so 2 LQR solves are made with a budget of 1.
The constructor also lowers the budget of the caller's stepper object every time it is wrapped."""
import sys
import torch
import pypose as pp

torch.manual_seed(0)
n_batch, n_state, n_ctrl, T = 1, 3, 3, 5
C, D = torch.eye(n_state), torch.zeros(n_state, n_ctrl)
c1, c2 = torch.zeros(n_state), torch.zeros(n_state)
A = torch.tensor([[1.1267, -0.0441, -0.0279], [-0.1533, 1.1775, 0.1631], [0.1618, 0.1238, 0.9489]])
B = torch.tensor([[0.4567, 0.7805, 0.0319], [-0.5938, -0.5724, 0.0422], [-0.1804, -0.2535, 1.7218]])
Q = torch.eye(n_state + n_ctrl).tile(n_batch, T, 1, 1)
p = torch.tensor([0.6336, -0.2203, -0.1395, -0.7664, 0.8874, 0.8153]).tile(n_batch, T, 1)

def lqr_calls(mpc, x0):
    calls, orig = [0], mpc.lqr.forward
    def counting(*a, **k):
        calls[0] += 1
        return orig(*a, **k)
    mpc.lqr.forward = counting
    mpc(1, x0)
    return calls[0]

bad = 0
for steps in (1, 2, 3, 4, 6):
    stepper = pp.utils.ReduceToBason(steps=steps, patience=50, tol=-1e30)
    mpc = pp.module.MPC(pp.module.LTI(A, B, C, D, c1, c2), Q, p, T, stepper=stepper)
    n = lqr_calls(mpc, torch.randn(n_batch, n_state))
    flag = 'ok' if n <= steps else 'OVER BUDGET'
    bad += n > steps
    print('steps=%d: %d LQR solves  %s' % (steps, n, flag))

stepper = pp.utils.ReduceToBason(steps=4, patience=50, tol=-1e30)
a = pp.module.MPC(pp.module.LTI(A, B, C, D, c1, c2), Q, p, T, stepper=stepper)
b = pp.module.MPC(pp.module.LTI(A, B, C, D, c1, c2), Q, p, T, stepper=stepper)
n = lqr_calls(b, torch.randn(n_batch, n_state))
print('one ReduceToBason(steps=4) handed to two MPC modules: max_steps is now %d, second module made %d LQR solves'
      % (stepper.max_steps, n))
if stepper.max_steps != 3:
    bad += 1
    print('   the configured budget of the shared stepper was lowered twice')
if bad:
    print('FAIL')
    sys.exit(1)
print('PASS')
