"""The LieTensor docstring shows the 'from ints' constructor pp.so3(2, 3) returning zeros,
but the data is torch.Tensor(2, 3), i.e. uninitialised memory: after the allocator has
handed out a block that held other numbers the new LieTensor holds those numbers."""
import sys, warnings, torch, pypose as pp
warnings.filterwarnings("ignore")
nonzero = 0
for trial in range(20):
    junk = torch.full((2, 3), 5.0 + trial); del junk      # leave a dirty block of the same size
    x = pp.so3(2, 3)
    if not torch.equal(x.tensor(), torch.zeros(2, 3)):
        nonzero += 1
        last = x.tensor().clone()
print(f"pp.so3(2, 3) was not all-zero in {nonzero} of 20 calls (docstring example shows zeros)")
if nonzero:
    print("example content:", last.tolist())
sys.exit(1 if nonzero else 0)
