"""Existing defect: NLS.forward passes the live clock buffer (self.systime, i.e. self._t) to
state_transition / observation, and the forward hook then advances that buffer in place.
If f or g returns the time itself or a view of it (a 'clock' output channel: g = t, e.g.
torch.atleast_1d(t) / t.expand(1) / t.reshape(1)), the value returned by the call is
changed after it has been computed: the observation of step k reads k+1."""
import sys, torch, pypose as pp

class Plant(pp.module.NLS):
    def state_transition(self, state, input, t=None):
        return 0.9 * state + input
    def observation(self, state, input, t=None):
        return torch.atleast_1d(t)            # y_k = g(x_k, u_k, t_k) = t_k

s = Plant().reset(5)
x, u = torch.tensor([1.0]), torch.tensor([0.0])
_, y = s(x, u)
expected = s.observation(x, u, torch.tensor(5))
print("g(x, u, t=5) evaluated directly:", expected.tolist(), " returned by the call made at systime 5:", y.tolist())
if not torch.equal(y, expected):
    print("FAIL: the observation returned by System.__call__ aliases the clock and was advanced by the forward hook")
    sys.exit(1)
print("PASS")
