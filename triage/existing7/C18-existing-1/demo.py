"""knn_filter(points, k, radius=r) on a cloud in which no point (or fewer than k+1 points)
has k other points within the radius.  The radius test removes them, so the promised result
is the (possibly empty) set of retained points - nbr_filter returns an empty (0, D) tensor
for the same cloud - but knn_filter raises 'selected index k out of range' from topk."""
import sys
import torch
import pypose as pp

bad = []

# four isolated points: every point is an outlier for k=1, radius=1
pts = torch.tensor([[0., 0.], [10., 0.], [0., 10.], [10., 10.]])
kept = pp.nbr_filter(pts, nbr=1, radius=1.0)
print("nbr_filter keeps", tuple(kept.shape))
try:
    out = pp.knn_filter(pts, k=1, radius=1.0)
    print("knn_filter returns", tuple(out.shape))
    if out.shape != (0, 2):
        bad.append("all-outlier cloud: wrong shape %s" % (tuple(out.shape),))
except Exception as e:
    print("knn_filter raised %s: %s" % (type(e).__name__, e))
    bad.append("all-outlier cloud: %s" % e)

# hub and four spokes: only the hub has k=2 others within radius 1.2, so exactly one point
# is retained; knn_filter raises instead of returning a result for it
pts = torch.tensor([[0., 0.], [1., 0.], [-1., 0.1], [0., 1.05], [0.1, -1.1]])
_, mask = pp.nbr_filter(pts, nbr=2, radius=1.2, return_mask=True)
print("retained mask:", mask.tolist())
try:
    out = pp.knn_filter(pts, k=2, radius=1.2)
    print("knn_filter returns", tuple(out.shape))
except Exception as e:
    print("knn_filter raised %s: %s" % (type(e).__name__, e))
    bad.append("hub-and-spokes cloud: %s" % e)

if bad:
    print("DEFECT:", bad)
    sys.exit(1)
print("OK")
