"""Existing behaviour (unchanged code): the propagated covariance does not follow the
recursion documented in IMUPreintegrator.forward

    C_{k+1} = A C_k A^T + B_g C_g B_g^T + B_a C_a B_a^T
    A   = [[dR_{k,k+1}^T, 0, 0], [-dR_{ik} a_k^ dt, I, 0], [-1/2 dR_{ik} a_k^ dt^2, I dt, I]]
    B_a = [0, dR_{ik} dt, 1/2 dR_{ik} dt^2]

The code plugs dR_{i,k+1} (the pre-integrated rotation AFTER step k, inte_state['Dr']) where the
docstring (and Forster et al., Eq. A.9) has dR_{ik} (the rotation BEFORE step k): an off-by-one
on the frame axis.  To isolate that, the reference below keeps the code's noise scaling
(B C B^T / dt) and only switches between the two index conventions."""
import sys, warnings
warnings.filterwarnings('ignore')
import torch, pypose as pp

torch.manual_seed(5)
torch.set_default_dtype(torch.float64)

def seq_cov(dt, gyro, a, Cg, Ca, shift):
    # a: gravity-free body acceleration per frame (F,3); shift=0 -> dR_{ik}, shift=1 -> dR_{i,k+1}
    F = dt.shape[0]
    C = torch.zeros(9, 9); dR = pp.identity_SO3()
    I = torch.eye(3)
    for k in range(F):
        h = dt[k, 0]
        Rk = pp.so3(gyro[k] * h).Exp()
        dRn = dR * Rk
        Rm = (dRn if shift else dR).matrix()
        Ha = pp.vec2skew(a[k])
        A = torch.eye(9)
        A[0:3, 0:3] = Rk.matrix().mT
        A[3:6, 0:3] = -Rm @ Ha * h
        A[6:9, 0:3] = -0.5 * Rm @ Ha * h ** 2
        A[6:9, 3:6] = I * h
        Bg = torch.zeros(9, 3); Ba = torch.zeros(9, 3)
        Bg[0:3] = Rk.Jr() * h
        Ba[3:6] = Rm * h; Ba[6:9] = 0.5 * Rm * h ** 2
        C = A @ C @ A.mT + (Bg @ Cg @ Bg.mT + Ba @ Ca @ Ba.mT) / h
        dR = dRn
    return C

F = 6
dt = torch.rand(F, 1) * 0.2 + 0.1
gyro = torch.randn(F, 3) * 2
acc = torch.randn(F, 3) * 3
gc = torch.tensor([1e-4, 4e-4, 9e-4]); ac = torch.tensor([1e-2, 4e-2, 9e-2])
imu = pp.module.IMUPreintegrator(gravity=0., gyro_cov=gc, acc_cov=ac, reset=True).double()
out = imu(dt, gyro, acc)                      # gravity 0 -> a == acc
cov = out['cov'][0]
doc = seq_cov(dt, gyro, acc, torch.diag(gc), torch.diag(ac), shift=0)
off = seq_cov(dt, gyro, acc, torch.diag(gc), torch.diag(ac), shift=1)
r_doc = float((cov - doc).abs().max() / doc.abs().max())
r_off = float((cov - off).abs().max() / off.abs().max())
print('rel. diff to documented recursion (dR_ik)          : %.3e' % r_doc)
print('rel. diff to recursion with dR_{i,k+1} (off by one) : %.3e' % r_off)
if r_doc > 1e-9:
    print('FAIL: returned cov contradicts the documented A / B_a (uses dR_{i,k+1} instead of dR_{ik})')
    sys.exit(1)
print('PASS')
