"""euler2SO3 promises input (*, 3) -> output (*, 4) for any batch shape, but it flattens the
batch with euler.view(-1, 3), which raises RuntimeError for a batched input whose memory layout
is not contiguous (e.g. after transpose / permute / slicing of the batch dimensions), although
the same values in a contiguous tensor convert fine."""
import sys, warnings, math
import torch
import pypose as pp
warnings.filterwarnings("ignore")
torch.manual_seed(0)

base = (torch.rand(5, 2, 3, dtype=torch.float64) - 0.5) * 2.0      # (5, 2, 3) roll/pitch/yaw
euler = base.transpose(0, 1)                                       # (2, 5, 3), same numbers, strided
ref = pp.euler2SO3(euler.contiguous())
print("contiguous copy converts fine:", tuple(ref.shape))
bad = []
for name, e in [("transposed batch dims (2,5,3)", euler),
                ("every other item of a (4,6,3) batch", torch.zeros(4, 6, 3, dtype=torch.float64)[:, ::2])]:
    try:
        out = pp.euler2SO3(e)
        good = torch.allclose(out.tensor(), pp.euler2SO3(e.contiguous()).tensor())
        print("ok  :", name, tuple(out.shape), "values match" if good else "VALUES DIFFER")
        if not good:
            bad.append(name)
    except Exception as ex:
        print("FAIL:", name, "->", type(ex).__name__, str(ex).splitlines()[0][:110])
        bad.append(name)
if bad:
    print("euler2SO3 raised for admissible (*, 3) inputs:", bad)
    sys.exit(1)
print("all good")
