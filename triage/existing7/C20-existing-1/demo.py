"""ReduceToBason.step stores the caller's loss tensor itself (self.last = loss, no copy).
A loop that writes each new loss into one preallocated tensor (err.copy_(...), torch.mean(..., out=err))
therefore changes the stepper's comparison baseline as well: from the second step on
(last - loss) == 0, every step counts as "no decrease", and the loop is stopped by the
patience rule although the loss halves at every step."""
import sys
import torch
import pypose as pp

values = [8.0 * 0.5 ** k for k in range(12)]          # halves every step, far above tol

def run(reuse_buffer):
    stepper = pp.utils.ReduceToBason(steps=12, patience=3, decreasing=1e-3, tol=1e-9)
    buf, n = torch.zeros(()), 0
    while stepper.continual():
        if reuse_buffer:
            buf.fill_(values[n]); loss = buf            # same tensor object, new content
        else:
            loss = torch.tensor(values[n])
        stepper.step(loss)
        n += 1
    return n, stepper.patience_count

fresh, reused = run(False), run(True)
print('fresh tensor per step : loop ran %d steps, patience_count %d' % fresh)
print('preallocated tensor   : loop ran %d steps, patience_count %d' % reused)
if fresh != reused:
    print('FAIL: identical loss history (halving each step) stops after %d instead of %d steps when '
          'the loss is delivered in a reused tensor: the stepper aliases the caller tensor as its baseline.'
          % (reused[0], fresh[0]))
    sys.exit(1)
print('PASS')
