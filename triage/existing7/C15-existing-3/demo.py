"""Existing defect: for a batched reference state (even a single batch item, the shape
pypose's own LQR/MPC feeds into an NLS) the NLS offsets c1 / c2 are not usable: the
Jacobians keep both batch axes ((B,n,B,n)), bmv() then broadcasts them against x* the wrong
way, and c1 comes out with shape (B,n,n) for B=1 or raises for B>1, so the affine model
A x + B u + c1 cannot reproduce f(x*,u*,t*)."""
import sys, torch, pypose as pp

class Plant(pp.module.NLS):
    def state_transition(self, x, u, t=None):
        return 2 * torch.sin(x) + u.sum(-1, keepdim=True) * x.flip(-1)
    def observation(self, x, u, t=None):
        return x[..., :2] ** 2 + u[..., :1]

s, bad = Plant(), False
for shape in [(3,), (1, 3), (2, 3)]:
    x, u = torch.randn(*shape), torch.randn(*shape[:-1], 2)
    s.set_refpoint(x, u, torch.tensor(0))
    f = s.state_transition(x, u, torch.tensor(0))
    try:
        c1 = s.c1
        ok = c1.shape == f.shape
        print(f"state {shape}: A {tuple(s.A.shape)}, f(x*) {tuple(f.shape)}, c1 {tuple(c1.shape)} -> {'ok' if ok else 'WRONG SHAPE'}")
    except Exception as e:
        ok = False
        print(f"state {shape}: c1 raised {type(e).__name__}: {e}")
    bad |= not ok
if bad:
    print("FAIL: c1/c2 of a batched reference point do not have the shape of f/g")
    sys.exit(1)
print("PASS")
