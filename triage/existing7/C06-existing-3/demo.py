"""LieTensor.lview documents 'shape (torch.Size or int...)' (like Tensor.view), but passing
a torch.Size / tuple raises TypeError; only the unpacked-ints spelling works."""
import sys, warnings, torch, pypose as pp
warnings.filterwarnings("ignore")
x = pp.randn_SE3(2, 3)
print("x.lview(6).lshape        ->", tuple(x.lview(6).lshape))
print("x.view(torch.Size([6,7])) ->", tuple(x.view(torch.Size([6, 7])).shape))
bad = 0
for arg in (torch.Size([6]), (3, 2)):
    try:
        print(f"x.lview({arg!r}).lshape ->", tuple(x.lview(arg).lshape))
    except Exception as ex:
        print(f"x.lview({arg!r}) raised {type(ex).__name__}: {str(ex)[:80]}")
        bad += 1
sys.exit(1 if bad else 0)
