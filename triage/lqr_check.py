import torch, pypose as pp
torch.manual_seed(0)
n_batch,T,ns,nc=1,5,2,1
Q=torch.tile(torch.eye(ns+nc),(n_batch,1,1)); p=torch.randn(n_batch,ns+nc)
L=3*T; rt=torch.arange(1,L+1).view(L,1,1).float()
A=torch.tile(torch.eye(ns),(n_batch,L,1,1))*0.3*rt/L*3; B=rt*torch.ones(n_batch,L,ns,nc); C=torch.tile(torch.eye(ns),(n_batch,L,1,1)); D=torch.zeros(n_batch,L,ns,nc)
class MyLTV(pp.module.LTV):
    @property
    def A(self): return self._A[...,self._t % L,:,:]
    @property
    def B(self): return self._B[...,self._t % L,:,:]
    @property
    def C(self): return self._C[...,self._t % L,:,:]
    @property
    def D(self): return self._D[...,self._t % L,:,:]
ltv=MyLTV(A,B,C,D); lqr=pp.module.LQR(ltv,Q,p,T); x0=torch.randn(n_batch,ns)
x1,u1,c1=lqr(x0); print('t after solve1', ltv.systime.item()); x2,u2,c2=lqr(x0)
print('cost1',c1.item(),'cost2',c2.item(),'u diff',(u1-u2).abs().max().item())
