"""Docstring/signature agreement: the parameters listed in a function's `Args:` section appear in the order of its signature, and every listed
name is a parameter.  Callers that follow the documentation positionally (`knn_filter(cloud, 2, 3)` = points, k, pdim) and the implementation must
agree about which position means what; when the two orders differ, a positional call in the documented order binds another parameter - silently
whenever the types are compatible.  Documented defaults (`Default: ``x```) are compared with the signature defaults where both are literals.
"""
import ast, re
from .core import RuleResult, Finding, AnalysisError, dotted, src, guarded

ARG_LINE = re.compile(r'^(\s*)([A-Za-z_][A-Za-z0-9_]*)\s*\(([^)]*)\)\s*:')


def doc_args(doc):
    """[(name, description text)] of the first `Args:` sections (several consecutive Args blocks are concatenated)"""
    if not doc:
        return []
    lines = doc.expandtabs().split('\n')
    out, i = [], 0
    while i < len(lines):
        if re.match(r'^\s*(Args|Arguments|Parameters)\s*:\s*$', lines[i]):
            base = len(lines[i]) - len(lines[i].lstrip())
            i += 1
            cur = None
            while i < len(lines):
                l = lines[i]
                if l.strip() == '':
                    i += 1
                    continue
                ind = len(l) - len(l.lstrip())
                if ind <= base:
                    break
                m = ARG_LINE.match(l)
                if m and (cur is None or ind <= cur[2]):
                    cur = [m.group(2), l[m.end():], ind]
                    out.append(cur)
                elif cur is not None:
                    cur[1] += ' ' + l.strip()
                i += 1
            continue
        i += 1
    return [(a, b) for a, b, _ in out]


def judge(fnode):
    doc = ast.get_docstring(fnode, clean=False)
    da = doc_args(doc)
    if not da:
        return None, []
    a = fnode.args
    params = [x.arg for x in a.posonlyargs + a.args]
    if params and params[0] in ('self', 'cls'):
        params = params[1:]
    allp = params + [x.arg for x in a.kwonlyargs] + ([a.vararg.arg] if a.vararg else []) + ([a.kwarg.arg] if a.kwarg else [])
    problems = []
    listed = [n for n, _ in da if n in params]
    order = [p for p in params if p in listed]
    # only the documented names that are positional parameters, in documentation order, against the signature order
    seen = []
    for n in listed:
        if n not in seen:
            seen.append(n)
    if seen != order:
        problems.append(('order', 'documents its arguments in the order (%s) but takes them in the order (%s)' % (', '.join(seen), ', '.join(order))))
    if a.kwarg is None and a.vararg is None:
        for n, _ in da:
            if n not in allp:
                problems.append(('unknown', 'documents an argument `%s` that the signature does not have' % n))
    return da, problems


@guarded
def rule_docsig(repo, rid, modules, exempt=()):
    res = RuleResult(rid, 'for every documented function the Args section lists the positional parameters in signature order and names only parameters that '
                     'exist: a positional call written from the documentation binds what the documentation says', floor=1)
    n = 0
    for m in modules:
        for f in repo.functions_view(m):
            da, problems = judge(f.node)
            if da is None:
                continue
            n += 1
            problems = [(k, p) for k, p in problems if (f.fq, k) not in exempt]
            res.inst({'function': f.fq, 'documented arguments': [a for a, _ in da], 'agrees': not problems}, f.fq)
            for k, p in problems:
                res.add(Finding(rid, f, '%s %s: a positional call in the documented order passes its values to other parameters' % (f.qual, p) if k == 'order' else
                                '%s %s' % (f.qual, p), node=f.node, construct='docsig|%s|%s' % (k, p[:80])))
    if n == 0:
        res.inst({'documented functions': 0}, 'none')
    return res
