"""E14 - truncated Laurent-series domain (abstract interpretation of scalar coefficient formulas).

A coefficient formula of the library (`(1 - cos(theta)) / theta**2`, `(scale - 1) / sigma`, ...) is interpreted, without being run, in the
ring of truncated Laurent series  R((t))  with exact rational arithmetic; R is either Q or again a series ring (nested: the outer variable is
the one that tends to zero, the inner variables stay free and show up as Laurent coefficients).  sin / cos / exp / atan are the formal power
series of these functions.  Two formulas that denote the same meromorphic function have the same expansion, so a difference in a computed
coefficient is a definite difference of the functions; agreement is only ever claimed "to the order explored".

Every element carries an absolute precision `prec` (coefficients at exponents >= prec are unknown); exact polynomials have prec = INF.
Operations that cannot be decided inside the domain raise Unsupported (non-analytic: abs, sign, pi constants, opaque tensors) or
Inconclusive (a leading coefficient vanishes to the known precision) - the caller records the pair as undecided, never as a finding.
"""
from fractions import Fraction as Fr

INF = 10 ** 6


class Unsupported(Exception):
    pass


class Inconclusive(Exception):
    pass


class QRing:
    name = 'Q'

    def zero(self):
        return Fr(0)

    def one(self):
        return Fr(1)

    def const(self, q):
        return Fr(q)

    def add(self, a, b):
        return a + b

    def neg(self, a):
        return -a

    def mul(self, a, b):
        return a * b

    def inv(self, a):
        if a == 0:
            raise Inconclusive('division by an exact zero')
        return 1 / a

    def known_zero(self, a):
        return a == 0

    def maybe_zero(self, a):
        return a == 0

    def exact(self, a):
        return True

    def fn(self, name, a):
        if a == 0:
            if name == 'log':
                raise Unsupported('log of zero')
            return {'exp': Fr(1), 'sin': Fr(0), 'cos': Fr(1), 'atan': Fr(0), 'tan': Fr(0), 'sinh': Fr(0), 'cosh': Fr(1)}[name]
        if name == 'log' and a == 1:
            return Fr(0)
        raise Unsupported('%s of the constant %s is transcendental' % (name, a))

    def sqrt(self, a):
        if a < 0:
            raise Unsupported('sqrt of a negative constant')
        from math import isqrt
        n, d = a.numerator, a.denominator
        rn, rd = isqrt(n), isqrt(d)
        if rn * rn == n and rd * rd == d:
            return Fr(rn, rd)
        raise Unsupported('sqrt of a non-square rational')

    def show(self, a):
        return str(a)


class S:
    __slots__ = ('c', 'prec')

    def __init__(self, c, prec):
        self.c, self.prec = c, prec


class SRing:
    def __init__(self, var, base, P=14):
        self.var, self.base, self.P = var, base, P
        self.name = '%s((%s))' % (base.name, var)

    # ---- construction
    def zero(self):
        return S({}, INF)

    def one(self):
        return S({0: self.base.one()}, INF)

    def const(self, q):
        return S({0: self.base.const(q)}, INF) if q != 0 else self.zero()

    def lift(self, b):
        return S({} if self.base.known_zero(b) else {0: b}, INF)

    def gen(self):
        return S({1: self.base.one()}, INF)

    def _mk(self, c, prec):
        return S({e: v for e, v in c.items() if e < prec and not self.base.known_zero(v)}, prec)

    # ---- queries
    def val(self, a):
        return min(a.c) if a.c else a.prec

    def known_zero(self, a):
        return not a.c and a.prec >= INF

    def maybe_zero(self, a):
        return all(self.base.maybe_zero(v) for v in a.c.values())

    def exact(self, a):
        return a.prec >= INF and all(self.base.exact(v) for v in a.c.values())

    # ---- arithmetic
    def add(self, a, b):
        prec = min(a.prec, b.prec)
        c = dict(a.c)
        for e, v in b.c.items():
            c[e] = self.base.add(c[e], v) if e in c else v
        return self._mk(c, prec)

    def neg(self, a):
        return S({e: self.base.neg(v) for e, v in a.c.items()}, a.prec)

    def sub(self, a, b):
        return self.add(a, self.neg(b))

    def mul(self, a, b):
        if self.known_zero(a) or self.known_zero(b):
            return self.zero()
        va, vb = self.val(a), self.val(b)
        prec = min(INF, va + b.prec if b.prec < INF else INF, vb + a.prec if a.prec < INF else INF)
        c = {}
        for ea, ca in a.c.items():
            for eb, cb in b.c.items():
                e = ea + eb
                if e < prec:
                    p = self.base.mul(ca, cb)
                    c[e] = self.base.add(c[e], p) if e in c else p
        return self._mk(c, prec)

    def scale(self, a, q):
        return self.mul(a, self.const(q))

    def inv(self, a):
        if not a.c:
            raise Inconclusive('division by a series that vanishes to the known precision (%s)' % self.var)
        v = min(a.c)
        lead = a.c[v]
        if self.base.maybe_zero(lead):
            raise Inconclusive('leading coefficient of a divisor vanishes to the known precision (%s)' % self.var)
        li = self.base.inv(lead)
        if len(a.c) == 1 and a.prec >= INF:
            return S({-v: li}, INF)
        n = min(self.P, a.prec - v) if a.prec < INF else self.P
        b = [li]
        for k in range(1, n):
            acc = None
            for j in range(1, k + 1):
                aj = a.c.get(v + j)
                if aj is None:
                    continue
                t = self.base.mul(aj, b[k - j])
                acc = t if acc is None else self.base.add(acc, t)
            b.append(self.base.zero() if acc is None else self.base.neg(self.base.mul(li, acc)))
        return self._mk({-v + k: x for k, x in enumerate(b)}, -v + n)

    def powi(self, a, n):
        if n < 0:
            return self.powi(self.inv(a), -n)
        out = self.one()
        for _ in range(n):
            out = self.mul(out, a)
        return out

    # ---- analytic functions
    def _split(self, x, what):
        if any(e < 0 and not self.base.maybe_zero(v) for e, v in x.c.items()):
            raise Unsupported('%s of an argument that diverges in %s' % (what, self.var))
        if x.prec <= 0:
            raise Inconclusive('%s of an argument known to no order in %s' % (what, self.var))
        x0 = x.c.get(0, self.base.zero())
        y = S({e: v for e, v in x.c.items() if e > 0}, x.prec)
        return x0, y

    def _order(self, x):
        return min(self.P, x.prec) if x.prec < INF else self.P

    def _trunc(self, a, n):
        return self._mk(a.c, min(a.prec, n))

    def _expy(self, y, n, kind):
        """sum over k of y^k / k! restricted to k = 0.. (all), even or odd k, with alternating signs for sin / cos"""
        if self.known_zero(y):
            return self.one() if kind in ('exp', 'cos', 'cosh') else self.zero()
        out = self.zero()
        term = self.one()
        k = 0
        while True:
            if self.val(term) >= n and k > 0:
                break
            if k > 4 * n + 4:
                break
            use = None
            if kind == 'exp':
                use = Fr(1)
            elif kind == 'cos' and k % 2 == 0:
                use = Fr((-1) ** (k // 2))
            elif kind == 'sin' and k % 2 == 1:
                use = Fr((-1) ** (k // 2))
            elif kind == 'cosh' and k % 2 == 0:
                use = Fr(1)
            elif kind == 'sinh' and k % 2 == 1:
                use = Fr(1)
            if use is not None:
                out = self.add(out, self.scale(term, use))
            k += 1
            term = self._trunc(self.scale(self.mul(term, y), Fr(1, k)), n)
            if self.known_zero(term):
                break
        return self._mk(out.c, min(out.prec, n))

    def fn(self, name, x):
        if name == 'tan':
            return self.mul(self.fn('sin', x), self.inv(self.fn('cos', x)))
        if name == 'tanh':
            return self.mul(self.fn('sinh', x), self.inv(self.fn('cosh', x)))
        x0, y = self._split(x, name)
        n = self._order(x)
        if name == 'atan':
            if self.known_zero(y):
                return self.lift(self.base.fn('atan', x0))
            d = self.deriv(x)
            q = self.mul(d, self.inv(self.add(self.one(), self.mul(x, x))))
            return self.add(self.lift(self.base.fn('atan', x0)), self.integ(q))
        if name == 'log':
            if self.base.maybe_zero(x0):
                raise Unsupported('log of an argument that vanishes at the expansion point (%s)' % self.var)
            l0 = self.lift(self.base.fn('log', x0))
            if self.known_zero(y):
                return l0
            u = self.mul(y, self.lift(self.base.inv(x0)))         # log(x0 (1 + u)) = log x0 + sum (-1)^(k+1) u^k / k
            out, term, k = self.zero(), self.one(), 0
            while k <= 4 * n + 4:
                k += 1
                term = self._trunc(self.mul(term, u), n)
                if self.known_zero(term) or self.val(term) >= n:
                    break
                out = self.add(out, self.scale(term, Fr((-1) ** (k + 1), k)))
            return self.add(l0, self._mk(out.c, min(out.prec, n)))
        if name == 'exp':
            e = self._expy(y, n, 'exp')
            return self.mul(self.lift(self.base.fn('exp', x0)), e) if not self.base.known_zero(x0) else e
        if name in ('sin', 'cos', 'sinh', 'cosh'):
            hyp = name.endswith('h')
            s_, c_ = ('sinh', 'cosh') if hyp else ('sin', 'cos')
            sy, cy = self._expy(y, n, s_), self._expy(y, n, c_)
            if self.base.known_zero(x0):
                return sy if name == s_ else cy
            s0, c0 = self.lift(self.base.fn(s_, x0)), self.lift(self.base.fn(c_, x0))
            if name == s_:
                return self.add(self.mul(s0, cy), self.mul(c0, sy))
            t = self.mul(s0, sy)
            return self.add(self.mul(c0, cy), t if hyp else self.neg(t))
        raise Unsupported('function %s' % name)

    def sqrt(self, x):
        if not x.c:
            raise Inconclusive('sqrt of a series that vanishes to the known precision')
        v = min(x.c)
        lead = x.c[v]
        if self.base.maybe_zero(lead):
            raise Inconclusive('sqrt: leading coefficient vanishes to the known precision')
        if v % 2:
            raise Unsupported('sqrt of a series of odd order in %s' % self.var)
        r0 = self.base.sqrt(lead)
        # x = lead t^v (1 + u);  sqrt = r0 t^(v/2) (1 + u)^(1/2)
        u = self.mul(S({e - v: c for e, c in x.c.items()}, x.prec - v if x.prec < INF else INF), self.lift(self.base.inv(lead)))
        u = self.sub(u, self.one())
        n = self._order(u)
        out, term, k = self.zero(), self.one(), 0
        coef = Fr(1)
        while k <= 4 * n + 4:
            out = self.add(out, self.scale(term, coef))
            coef = coef * (Fr(1, 2) - k) / (k + 1)
            k += 1
            term = self._trunc(self.mul(term, u), n)
            if self.known_zero(term) or self.val(term) >= n:
                break
        out = self._trunc(S(out.c, min(out.prec, n if not self.known_zero(u) else INF)), INF)
        return self.mul(S({v // 2: r0}, INF), out)

    def deriv(self, x):
        return self._mk({e - 1: self.base.mul(self.base.const(Fr(e)), v) for e, v in x.c.items() if e != 0}, x.prec - 1 if x.prec < INF else INF)

    def integ(self, x):
        if -1 in x.c and not self.base.maybe_zero(x.c[-1]):
            raise Unsupported('logarithmic term')
        return self._mk({e + 1: self.base.mul(self.base.const(Fr(1, e + 1)), v) for e, v in x.c.items() if e != -1},
                        x.prec + 1 if x.prec < INF else INF)

    def show(self, a, n=4):
        ts = []
        for e in sorted(a.c)[:n]:
            ts.append('%s*%s^%d' % (self.base.show(a.c[e]) if isinstance(self.base, QRing) else '(' + self.base.show(a.c[e]) + ')', self.var, e))
        return ' + '.join(ts) + (' + O(%s^%d)' % (self.var, a.prec) if a.prec < INF else '') if ts else ('0' if a.prec >= INF else 'O(%s^%d)' % (self.var, a.prec))


def tower(variables, P=14):
    """variables outermost first -> (outer ring, {var: generator lifted to the outer ring})"""
    rings = []
    base = QRing()
    for v in reversed(variables):
        base = SRing(v, base, P)
        rings.append(base)
    rings.reverse()                                   # rings[i] has variable variables[i]
    gens = {}
    for i, v in enumerate(variables):
        g = rings[i].gen()
        for r in reversed(rings[:i]):
            g = r.lift(g)
        gens[v] = g
    return (rings[0] if rings else QRing()), gens, rings


def close(a, b, tol=Fr(1, 10 ** 9)):
    return abs(a - b) <= tol * max(1, abs(a), abs(b))


def compare(ring, m, g, modes, degs=None, path=()):
    """Compare the branch series m with the reference series g level by level.
    modes[i] for level i:  ('limit', d)  compare exponents <= d (and demand g has no lower-order term), d = stated degree of the branch;
                           'zero'        compare the exponent-0 coefficient only (a variable small in both regimes)
                           'free'        compare every coefficient known on both sides (>= 3 of them, else Inconclusive)
    -> None when they agree to the explored order, else a description (definite difference)."""
    if isinstance(ring, QRing):
        return None if close(m, g) else 'branch %s, reference %s' % (m, g)
    mode = modes[0]
    lim = min(m.prec, g.prec)
    zero = ring.base.zero()
    if mode == 'zero':
        exps = [0]
        neg = [e for e in set(m.c) | set(g.c) if e < 0]
        exps = sorted(neg) + exps
    elif mode == 'free':
        exps = sorted(e for e in set(m.c) | set(g.c) if e < lim)
        lo = min([e for e in exps] + [0])
        if lim < INF and lim - lo < 3:
            raise Inconclusive('fewer than 3 coefficients known in %s' % ring.var)
        if lim >= INF:
            exps = sorted(set(m.c) | set(g.c))
    else:
        d = mode[1]
        exps = sorted(set(e for e in set(m.c) | set(g.c) if e <= d) | set(range(0, d + 1)))
    for e in exps:
        if e >= lim:
            if mode == 'free':
                continue
            raise Inconclusive('order %d in %s is beyond the known precision' % (e, ring.var))
        r = compare(ring.base, m.c.get(e, zero), g.c.get(e, zero), modes[1:], None, path + ((ring.var, e),))
        if r is not None:
            return 'order %s^%d: %s' % (ring.var, e, r) if not r.startswith('order') else 'order %s^%d, %s' % (ring.var, e, r[6:])
    return None
