"""E0 - repository model, reporting plumbing, known-findings, evidence.

Nothing in here (or anywhere under sa/) imports torch or pypose: every fact is
read from the syntax trees of /repo/pypose/**/*.py as they are on disk now
(or from an in-memory overlay used by the sensitivity self-test).
"""
from __future__ import annotations
import ast, os, sys, json, hashlib, time, copy, re, warnings

VERIF_DIR = os.path.dirname(os.path.dirname(os.path.abspath(__file__)))
DEFAULT_ROOT = os.environ.get('VERIF_REPO', '/repo')


class AnalysisError(Exception):
    """The analysis itself cannot run (anchor vanished, floor missed, parse error).
    Mapped to exit code 2 - never to a VIOLATION."""


# --------------------------------------------------------------------------- model

def as_assert(st):
    """the condition a statement ASSERTS, or None: `assert C` -> C;  `if not C: raise ..` -> C;  `if D: raise ..` -> not D   (an `if` whose body is one raise and that
    has no else is the spelled-out form of an assertion - asserts are stripped under python -O, so hardening edits replace one by the other)"""
    if isinstance(st, ast.Assert):
        return st.test
    if isinstance(st, ast.If) and not st.orelse and len(st.body) == 1 and isinstance(st.body[0], ast.Raise):
        t = st.test
        if isinstance(t, ast.UnaryOp) and isinstance(t.op, ast.Not):
            return t.operand
        return ast.copy_location(ast.UnaryOp(ast.Not(), t), t)
    return None


class FuncInfo:
    __slots__ = ('module', 'qual', 'node', 'cls', 'parent', 'nested', 'forced')

    def __init__(self, module, qual, node, cls=None, parent=None):
        self.module, self.qual, self.node, self.cls, self.parent = module, qual, node, cls, parent
        self.nested = {}
        self.forced = None       # 'staticmethod' / 'classmethod' for `name = staticmethod(function)` written in a class body

    @property
    def name(self):
        return self.node.name

    @property
    def fq(self):
        return self.module.name + ':' + self.qual

    @property
    def params(self):
        a = self.node.args
        return [x.arg for x in a.posonlyargs + a.args] + ([a.vararg.arg] if a.vararg else []) + \
               [x.arg for x in a.kwonlyargs] + ([a.kwarg.arg] if a.kwarg else [])

    @property
    def pos_params(self):
        a = self.node.args
        return [x.arg for x in a.posonlyargs + a.args]

    def decorator_names(self):
        out = []
        for d in self.node.decorator_list:
            d = d.func if isinstance(d, ast.Call) else d
            out.append(dotted(d) or '?')
        return out

    def is_static(self):
        return self.forced == 'staticmethod' or 'staticmethod' in self.decorator_names()

    def is_classmethod(self):
        return self.forced == 'classmethod' or 'classmethod' in self.decorator_names()

    def is_property(self):
        return any(d == 'property' or d.endswith('.setter') for d in self.decorator_names())

    def loc(self, node=None):
        n = node if node is not None else self.node
        return '%s:%d' % (self.module.relpath, getattr(n, 'lineno', 0))

    def __repr__(self):
        return '<Func %s>' % self.fq


class ClassInfo:
    def __init__(self, module, name, node):
        self.module, self.name, self.node = module, name, node
        self.methods = {}
        self.aliases = {}
        self.base_exprs = [dotted(b) or '?' for b in node.bases]

    @property
    def fq(self):
        return self.module.name + ':' + self.name

    def __repr__(self):
        return '<Class %s>' % self.fq


class _CanonBranches(ast.NodeTransformer):
    """`if not C: A else: B` is read as `if C: B else: A`, `X if not C else Y` as `Y if C else X`: which of two alternatives is written first is not a fact about the
    program.  Only a plain two-way if / else (no elif chain hanging on it) and ternaries are touched; statements keep their own line numbers."""
    def visit_If(self, n):
        self.generic_visit(n)
        if n.orelse and not (len(n.orelse) == 1 and isinstance(n.orelse[0], ast.If)) and isinstance(n.test, ast.UnaryOp) and isinstance(n.test.op, ast.Not):
            return ast.copy_location(ast.If(n.test.operand, n.orelse, n.body), n)
        return n

    def visit_IfExp(self, n):
        self.generic_visit(n)
        if isinstance(n.test, ast.UnaryOp) and isinstance(n.test.op, ast.Not):
            return ast.copy_location(ast.IfExp(n.test.operand, n.orelse, n.body), n)
        return n


class _CanonAssigns(ast.NodeTransformer):
    """`a, b = x, y` (plain names, no right-hand element reads a target) is read as `a = x; b = y`: how many statements a value is spread over is not a fact
    about the program."""
    def generic_visit(self, node):
        super().generic_visit(node)
        for f in ('body', 'orelse', 'finalbody'):
            v = getattr(node, f, None)
            if isinstance(v, list) and v and isinstance(v[0], ast.stmt):
                out = []
                for st in v:
                    if isinstance(st, ast.Assign) and len(st.targets) == 1 and isinstance(st.targets[0], ast.Tuple) and isinstance(st.value, ast.Tuple) \
                            and len(st.targets[0].elts) == len(st.value.elts) and all(isinstance(t, ast.Name) for t in st.targets[0].elts):
                        # sequential assignment equals the simultaneous one when no value reads a target assigned BEFORE it (a value may read its own target)
                        tg, vs = st.targets[0].elts, st.value.elts
                        safe = len({t.id for t in tg}) == len(tg) and not any(
                            isinstance(n, ast.Name) and n.id in {t.id for t in tg[:j]} for j, e in enumerate(vs) for n in ast.walk(e))
                        if safe:
                            for t, e in zip(tg, vs):
                                out.append(ast.copy_location(ast.Assign([t], e), e))
                            continue
                    out.append(st)
                setattr(node, f, out)
        return node


def _canonical_branches(tree):
    tree = _CanonAssigns().visit(tree)
    return ast.fix_missing_locations(_CanonBranches().visit(tree))


class _IfElseToTernary(ast.NodeTransformer):
    def generic_visit(self, node):
        super().generic_visit(node)
        for f in ('body', 'orelse', 'finalbody'):
            v = getattr(node, f, None)
            if isinstance(v, list) and v and isinstance(v[0], ast.stmt):
                out = []
                for st in v:
                    if isinstance(st, ast.If) and len(st.body) == 1 and len(st.orelse) == 1 and all(
                            isinstance(b, ast.Assign) and len(b.targets) == 1 and isinstance(b.targets[0], ast.Name) for b in (st.body[0], st.orelse[0])) and \
                            st.body[0].targets[0].id == st.orelse[0].targets[0].id:
                        a, b = st.body[0], st.orelse[0]
                        out.append(ast.copy_location(ast.Assign([ast.Name(a.targets[0].id, ast.Store())], ast.copy_location(ast.IfExp(st.test, a.value, b.value), st)), st))
                        continue
                    out.append(st)
                setattr(node, f, out)
        return node


def ifexp_view(f):
    """the function with every `if c: v = A  else: v = B` (each branch that one assignment to the same plain name) read as `v = A if c else B` - for the rules that
    match a conditional VALUE (the ternaries of the pinned tree); path-based rules keep the statement form"""
    import copy as _copy
    node = _IfElseToTernary().visit(_copy.deepcopy(f.node))
    ast.fix_missing_locations(node)
    if ast.dump(node) == ast.dump(f.node):
        return f
    g = FuncInfo(f.module, f.qual, node, cls=f.cls, parent=f.parent)
    g.forced, g.nested = f.forced, f.nested
    return g


class _TernaryToIfElse(ast.NodeTransformer):
    def visit_Assign(self, n):
        if len(n.targets) == 1 and isinstance(n.targets[0], ast.Name) and isinstance(n.value, ast.IfExp):
            t = n.targets[0]
            a = ast.copy_location(ast.Assign([ast.Name(t.id, ast.Store())], n.value.body), n)
            b = ast.copy_location(ast.Assign([ast.Name(t.id, ast.Store())], n.value.orelse), n)
            return ast.copy_location(ast.If(n.value.test, [a], [b]), n)
        return n


def ifstmt_view(f):
    """the function with every `v = A if c else B` (plain-name target) read as `if c: v = A  else: v = B` - for the PATH-based rules that follow the two
    alternatives of a selection as branches (the if / else statements of the pinned tree)"""
    import copy as _copy
    node = _TernaryToIfElse().visit(_copy.deepcopy(f.node))
    ast.fix_missing_locations(node)
    if ast.dump(node) == ast.dump(f.node):
        return f
    g = FuncInfo(f.module, f.qual, node, cls=f.cls, parent=f.parent)
    g.forced, g.nested = f.forced, f.nested
    return g


class ModuleInfo:
    def __init__(self, name, relpath, src, is_pkg):
        self.name, self.relpath, self.src, self.is_pkg = name, relpath, src, is_pkg
        try:
            with warnings.catch_warnings():
                warnings.simplefilter('ignore')
                self.tree = _canonical_branches(ast.parse(src))
        except SyntaxError as e:
            raise AnalysisError('cannot parse %s: %s' % (relpath, e))
        self.functions = {}     # qual -> FuncInfo  (top level, Class.method, and nested a.b)
        self.classes = {}       # name -> ClassInfo
        self.imports = {}       # local name -> (module name, attr or None)
        self.star_imports = []  # module names
        self.assigns = {}       # module-level name -> value expr (last one)
        self._index()

    def _pkg(self):
        return self.name if self.is_pkg else self.name.rsplit('.', 1)[0]

    def _absmod(self, level, mod):
        if level == 0:
            return mod
        base = self._pkg().split('.')
        if level > 1:
            base = base[:-(level - 1)]
        return '.'.join(base + ([mod] if mod else []))

    def _index(self):
        def add_func(node, qual, cls, parent):
            fi = FuncInfo(self, qual, node, cls, parent)
            self.functions[qual] = fi
            if parent is not None:
                parent.nested[node.name] = fi
            for sub in ast.walk(node):
                pass
            for st in iter_child_defs(node):
                if isinstance(st, (ast.FunctionDef, ast.AsyncFunctionDef)):
                    add_func(st, qual + '.' + st.name, cls, fi)
            return fi

        for st in self.tree.body:
            if isinstance(st, (ast.FunctionDef, ast.AsyncFunctionDef)):
                add_func(st, st.name, None, None)
            elif isinstance(st, ast.ClassDef):
                self._add_class(st, add_func)
            elif isinstance(st, ast.Import):
                for a in st.names:
                    self.imports[(a.asname or a.name.split('.')[0])] = (a.name if a.asname else a.name.split('.')[0], None)
            elif isinstance(st, ast.ImportFrom):
                mod = self._absmod(st.level, st.module)
                for a in st.names:
                    if a.name == '*':
                        self.star_imports.append(mod)
                    else:
                        self.imports[a.asname or a.name] = (mod, a.name)
            elif isinstance(st, ast.Assign):
                for t in st.targets:
                    if isinstance(t, ast.Name):
                        self.assigns[t.id] = st.value
                    elif isinstance(t, ast.Tuple) and isinstance(st.value, ast.Tuple) and len(t.elts) == len(st.value.elts):
                        for a, b in zip(t.elts, st.value.elts):
                            if isinstance(a, ast.Name):
                                self.assigns[a.id] = b
        # methods bound by assignment in a class body:  setup_context = staticmethod(_shared_helper)
        for ci in self.classes.values():
            for name, (fname, kind) in getattr(ci, 'aliases', {}).items():
                if name in ci.methods:
                    continue
                target = self.functions.get(fname)
                if target is None or target.cls is not None:
                    continue
                fi = FuncInfo(self, ci.name + '.' + name, target.node, ci, None)
                fi.forced = kind
                fi.nested = target.nested
                self.functions[fi.qual] = fi
                ci.methods[name] = fi
        # function-level imports (e.g. "from .. import _require_backend_attr" inside a method)

    def _add_class(self, st, add_func, prefix=''):
        ci = ClassInfo(self, prefix + st.name, st)
        self.classes[ci.name] = ci
        for sub in st.body:
            if isinstance(sub, (ast.FunctionDef, ast.AsyncFunctionDef)):
                # property getter/setter share a name: getter under name, setter under name.setter;
                # typing.overload stubs are skipped (the real definition follows them)
                decs = [dotted(d.func if isinstance(d, ast.Call) else d) or '?' for d in sub.decorator_list]
                if any(d in ('overload', 'typing.overload') for d in decs):
                    continue
                key = sub.name + ('.setter' if any(d.endswith('.setter') for d in decs) else '')
                fi = add_func(sub, ci.name + '.' + key, ci, None)
                ci.methods[key] = fi
            elif isinstance(sub, ast.ClassDef):
                self._add_class(sub, add_func, ci.name + '.')
            elif isinstance(sub, ast.Assign) and len(sub.targets) == 1 and isinstance(sub.targets[0], ast.Name):
                v, kind = sub.value, None
                if isinstance(v, ast.Call) and isinstance(v.func, ast.Name) and v.func.id in ('staticmethod', 'classmethod') and len(v.args) == 1:
                    kind, v = v.func.id, v.args[0]
                if isinstance(v, ast.Name):
                    ci.aliases[sub.targets[0].id] = (v.id, kind)


def iter_child_defs(fnode):
    """function/class definitions directly nested in a function body (any block depth, not inside other defs)."""
    stack = list(fnode.body)
    while stack:
        st = stack.pop(0)
        if isinstance(st, (ast.FunctionDef, ast.AsyncFunctionDef, ast.ClassDef)):
            yield st
            continue
        for f in ('body', 'orelse', 'finalbody', 'handlers'):
            for c in getattr(st, f, []) or []:
                if isinstance(c, ast.ExceptHandler):
                    stack.extend(c.body)
                else:
                    stack.append(c)


def dotted(node):
    if isinstance(node, ast.Name):
        return node.id
    if isinstance(node, ast.Attribute):
        b = dotted(node.value)
        return None if b is None else b + '.' + node.attr
    return None


_PARSE_CACHE = {}


class Repo:
    """All of /repo/pypose parsed.  overlay = {relpath: source} replaces files in memory."""

    def __init__(self, root=None, overlay=None):
        self.root = root or DEFAULT_ROOT
        self.overlay = overlay or {}
        self.modules = {}
        pkg = os.path.join(self.root, 'pypose')
        if not os.path.isdir(pkg):
            raise AnalysisError('no package directory %s' % pkg)
        n = 0
        for dp, dn, fn in os.walk(pkg):
            dn[:] = sorted(d for d in dn if d != '__pycache__')
            for f in sorted(fn):
                if not f.endswith('.py'):
                    continue
                path = os.path.join(dp, f)
                rel = os.path.relpath(path, self.root)
                parts = rel[:-3].split(os.sep)
                is_pkg = parts[-1] == '__init__'
                if is_pkg:
                    parts = parts[:-1]
                name = '.'.join(parts)
                if rel in self.overlay:
                    mi = ModuleInfo(name, rel, self.overlay[rel], is_pkg)
                else:
                    st = os.stat(path)
                    key = (path, st.st_mtime_ns, st.st_size)
                    mi = _PARSE_CACHE.get(key)
                    if mi is None:
                        with open(path, encoding='utf-8') as fh:
                            src = fh.read()
                        mi = ModuleInfo(name, rel, src, is_pkg)
                        _PARSE_CACHE[key] = mi
                self.modules[name] = mi
                n += 1
        if n < 30:
            raise AnalysisError('only %d modules parsed under %s' % (n, pkg))
        self._mro_cache = {}
        self._by_method = None

    # ---- lookups (raise AnalysisError = anchor vanished)
    def module(self, name):
        if name not in self.modules:
            raise AnalysisError('anchor vanished: module %s' % name)
        return self.modules[name]

    def func(self, mod, qual):
        m = self.module(mod)
        if qual not in m.functions:
            raise AnalysisError('anchor vanished: function %s:%s' % (mod, qual))
        return self._with_new_helpers_inlined(m.functions[qual])

    def functions_view(self, mod):
        """the functions of a module as the per-function rules read them: every function with the helpers the pinned tree does not have inlined, and without those
        helpers themselves once they have been read in place somewhere (their statements are then attributed to the function that calls them - where the tables of
        reviewed sites expect them)"""
        m = self.module(mod)
        fs = list(m.functions.values())
        views = [self._with_new_helpers_inlined(f) for f in fs]
        try:
            from .expr import INLINED_HELPERS
        except Exception:
            INLINED_HELPERS = set()
        return [v for f, v in zip(fs, views) if id(f.node) not in INLINED_HELPERS]

    # ---- helpers that the pinned tree does not have are read in place
    _PINNED = None

    def _with_new_helpers_inlined(self, f):
        """The anchored functions are read with every helper that did NOT exist on the pinned tree (sa/pinned_names.json: the functions of each module, the methods of
        each class) inlined at its call statements: a refactoring that moves a few statements of an anchored function into a new method / module-level function
        leaves the body the rules read unchanged.  Functions and methods that exist on the pinned tree stay calls - the rules name them."""
        cache = self.__dict__.setdefault('_inl_cache', {})
        if f.fq in cache:
            return cache[f.fq]
        out = f
        try:
            if Repo._PINNED is None:
                import json as _json
                Repo._PINNED = _json.load(open(os.path.join(os.path.dirname(os.path.abspath(__file__)), 'pinned_names.json')))
            pin = Repo._PINNED.get(f.module.name)
            if pin is not None:
                callables = {}
                if f.cls is not None:
                    known = set(pin['classes'].get(f.cls.name, []))
                    if f.cls.name in pin['classes']:
                        for n, g in f.cls.methods.items():
                            if n not in known and g is not f:
                                callables[n] = (g.node, 'static' if g.is_static() else 'method')
                for q, g in f.module.functions.items():
                    if g.cls is None and '.' not in q and q not in pin['functions'] and g is not f:
                        callables[q] = (g.node, 'func')
                if callables:
                    from .expr import inline_new_helpers
                    node = inline_new_helpers(f.node, callables)
                    if node is not f.node:
                        out = FuncInfo(f.module, f.qual, node, cls=f.cls, parent=f.parent)
                        out.forced = f.forced
                        out.nested = f.nested
        except Exception:
            out = f
        cache[f.fq] = out
        return out

    def has_func(self, mod, qual):
        return mod in self.modules and qual in self.modules[mod].functions

    def cls(self, mod, name):
        m = self.module(mod)
        if name not in m.classes:
            raise AnalysisError('anchor vanished: class %s:%s' % (mod, name))
        return m.classes[name]

    def all_functions(self):
        for m in self.modules.values():
            seen = set()
            for q, f in m.functions.items():
                k = (id(f.node), f.cls.name if f.cls is not None else None)     # one shared helper bound into several classes: one entry per class
                if k in seen:
                    continue
                seen.add(k)
                yield f

    # ---- name resolution
    def resolve_global(self, mod, name, _depth=0):
        """-> ('func', FuncInfo) | ('class', ClassInfo) | ('var', ModuleInfo, name, expr) |
               ('module', ModuleInfo) | ('ext', dotted string) | None"""
        if _depth > 12:
            return None
        m = mod if isinstance(mod, ModuleInfo) else self.modules.get(mod)
        if m is None:
            return None
        if name in m.functions and '.' not in name:
            return ('func', m.functions[name])
        if name in m.classes:
            return ('class', m.classes[name])
        if name in m.assigns:
            return ('var', m, name, m.assigns[name])
        if name in m.imports:
            tm, attr = m.imports[name]
            if attr is None:
                if tm in self.modules:
                    return ('module', self.modules[tm])
                return ('ext', tm)
            sub = tm + '.' + attr
            if tm in self.modules:
                r = self.resolve_global(tm, attr, _depth + 1)
                if r is not None:
                    return r
                if sub in self.modules:
                    return ('module', self.modules[sub])
                return None
            if sub in self.modules:
                return ('module', self.modules[sub])
            return ('ext', sub)
        for sm in m.star_imports:
            if sm in self.modules:
                r = self.resolve_global(sm, name, _depth + 1)
                if r is not None:
                    return r
        # submodule of a package
        if m.is_pkg and (m.name + '.' + name) in self.modules:
            return ('module', self.modules[m.name + '.' + name])
        return None

    def resolve_expr(self, finfo_or_mod, node):
        """Resolve a Name / dotted Attribute appearing in a function (or module) to a repo entity."""
        mod = finfo_or_mod.module if isinstance(finfo_or_mod, FuncInfo) else finfo_or_mod
        if isinstance(node, ast.Name):
            if isinstance(finfo_or_mod, FuncInfo):
                f = finfo_or_mod
                while f is not None:
                    if node.id in f.nested:
                        return ('func', f.nested[node.id])
                    f = f.parent
            return self.resolve_global(mod, node.id)
        if isinstance(node, ast.Attribute):
            base = self.resolve_expr(finfo_or_mod, node.value)
            if base is None:
                return None
            if base[0] == 'module':
                return self.resolve_global(base[1], node.attr)
            if base[0] == 'class':
                meth = self.find_method(base[1], node.attr)
                if meth is not None:
                    return ('func', meth)
                return None
            if base[0] == 'ext':
                return ('ext', base[1] + '.' + node.attr)
        return None

    # ---- classes
    def mro(self, ci):
        """Linearisation: C3 where computable, repo classes only; external bases kept as strings."""
        if ci.fq in self._mro_cache:
            return self._mro_cache[ci.fq]
        bases = []
        for b in ci.node.bases:
            r = self.resolve_expr(ci.module, b)
            bases.append(r[1] if r and r[0] == 'class' else (dotted(b) or '?'))
        seqs = []
        for b in bases:
            seqs.append(list(self.mro(b)) if isinstance(b, ClassInfo) else [b])
        seqs.append(list(bases))
        res = [ci]
        seqs = [s for s in seqs if s]
        while seqs:
            for s in seqs:
                cand = s[0]
                if not any(_in_tail(cand, t) for t in seqs):
                    break
            else:
                cand = seqs[0][0]
            res.append(cand)
            for s in seqs:
                if s and _same(s[0], cand):
                    del s[0]
            seqs = [s for s in seqs if s]
        self._mro_cache[ci.fq] = res
        return res

    def find_method(self, ci, name, after=None):
        """First definition of `name` along the MRO (optionally strictly after class `after`)."""
        started = after is None
        for c in self.mro(ci):
            if not started:
                if isinstance(c, ClassInfo) and c is after:
                    started = True
                continue
            if isinstance(c, ClassInfo) and name in c.methods:
                return self._with_new_helpers_inlined(c.methods[name])
        return None

    def subclasses_of(self, ci):
        out = []
        for m in self.modules.values():
            for c in m.classes.values():
                if c is not ci and any(x is ci for x in self.mro(c) if isinstance(x, ClassInfo)):
                    out.append(c)
        return out

    def methods_named(self, name):
        if self._by_method is None:
            self._by_method = {}
            for m in self.modules.values():
                for c in m.classes.values():
                    for n, f in c.methods.items():
                        self._by_method.setdefault(n, []).append(f)
        return self._by_method.get(name, [])

    # ---- call resolution
    def resolve_call(self, finfo, call, by_name=True):
        """-> (list of candidate FuncInfo, how) ; how in direct|apply|self|super|cls|byname|ctor|none"""
        fn = call.func
        if isinstance(fn, ast.Name):
            r = self.resolve_expr(finfo, fn)
            if r and r[0] == 'func':
                return [r[1]], 'direct'
            if r and r[0] == 'class':
                init = self.find_method(r[1], '__init__')
                return ([init] if init else []), 'ctor'
            if r and r[0] == 'var':
                # functools.partial(Target, ...) aliases
                v = r[3]
                if isinstance(v, ast.Call):
                    inner = _partial_target(v)
                    if inner is not None:
                        rr = self.resolve_expr(r[1], inner)
                        if rr and rr[0] == 'class':
                            init = self.find_method(rr[1], '__init__')
                            return ([init] if init else []), 'ctor'
                        if rr and rr[0] == 'func':
                            return [rr[1]], 'direct'
            return [], 'none'
        if isinstance(fn, ast.Attribute):
            # X.apply(...) on an autograd Function class
            if fn.attr == 'apply':
                r = self.resolve_expr(finfo, fn.value)
                if r and r[0] == 'class':
                    fw = self.find_method(r[1], 'forward')
                    if fw is not None:
                        return [fw], 'apply'
            # super().m(...)
            if isinstance(fn.value, ast.Call) and isinstance(fn.value.func, ast.Name) and fn.value.func.id == 'super' and finfo.cls is not None:
                m = self.find_method(finfo.cls, fn.attr, after=finfo.cls)
                return ([m] if m else []), 'super'
            if isinstance(fn.value, ast.Name) and finfo.cls is not None and not finfo.is_static():
                pp = finfo.pos_params
                if pp and fn.value.id == pp[0]:
                    m = self.find_method(finfo.cls, fn.attr)
                    if m is not None:
                        # overriding subclasses may be the dynamic target as well
                        cands = [m]
                        for sc in self.subclasses_of(finfo.cls):
                            if fn.attr in sc.methods and sc.methods[fn.attr] not in cands:
                                cands.append(sc.methods[fn.attr])
                        return cands, ('cls' if finfo.is_classmethod() else 'self')
            r = self.resolve_expr(finfo, fn)
            if r and r[0] == 'func':
                return [r[1]], 'direct'
            if r and r[0] == 'class':
                init = self.find_method(r[1], '__init__')
                return ([init] if init else []), 'ctor'
            if r and r[0] == 'ext':
                return [], 'none'
            if by_name:
                c = [f for f in self.methods_named(fn.attr) if not f.is_static()]
                if c:
                    return c, 'byname'
        return [], 'none'


def _partial_target(call):
    d = dotted(call.func)
    if d in ('functools.partial', 'partial') and call.args:
        return call.args[0]
    # wrapper(functools.partial(...), ...)
    for a in call.args:
        if isinstance(a, ast.Call):
            t = _partial_target(a)
            if t is not None:
                return t
    return None


def _same(a, b):
    return a is b or (isinstance(a, str) and isinstance(b, str) and a == b)


def _in_tail(c, seq):
    return any(_same(c, x) for x in seq[1:])


# --------------------------------------------------------------------------- normalisation helpers

def local_names(fnode):
    """Names bound inside a function: parameters, assignment/for/with/except targets, nested defs."""
    out = set()
    a = fnode.args
    for x in a.posonlyargs + a.args + a.kwonlyargs:
        out.add(x.arg)
    if a.vararg:
        out.add(a.vararg.arg)
    if a.kwarg:
        out.add(a.kwarg.arg)
    for n in ast.walk(fnode):
        if isinstance(n, ast.Name) and isinstance(n.ctx, (ast.Store, ast.Del)):
            out.add(n.id)
        elif isinstance(n, (ast.FunctionDef, ast.ClassDef)) and n is not fnode:
            out.add(n.name)
        elif isinstance(n, ast.ExceptHandler) and n.name:
            out.add(n.name)
        elif isinstance(n, ast.arg):
            out.add(n.arg)
    return out


class _Renamer(ast.NodeTransformer):
    def __init__(self, locals_):
        self.locals, self.map = locals_, {}

    def visit_Name(self, n):
        if n.id in self.locals:
            if n.id not in self.map:
                self.map[n.id] = 'v%d' % len(self.map)
            return ast.copy_location(ast.Name(self.map[n.id], n.ctx), n)
        return n

    def visit_arg(self, n):
        if n.arg in self.locals:
            if n.arg not in self.map:
                self.map[n.arg] = 'v%d' % len(self.map)
            n = copy.copy(n)
            n.arg = self.map[n.arg]
        return n


def norm_construct(node, fnode=None, keep=()):
    """Source text of `node` with the enclosing function's local names alpha-renamed (v0, v1, ...
    in order of first occurrence) - stable under renaming of locals and under moving lines."""
    locs = (local_names(fnode) if fnode is not None else set()) - set(keep) - {'self', 'cls'}
    n = _Renamer(locs).visit(copy.deepcopy(node))
    try:
        s = ast.unparse(n)
    except Exception:
        s = ast.dump(n)
    s = re.sub(r'\s+', ' ', s)
    return s if len(s) <= 300 else s[:200] + '...#' + hashlib.sha1(s.encode()).hexdigest()[:10]


def src(node):
    try:
        return re.sub(r'\s+', ' ', ast.unparse(node))
    except Exception:
        return ast.dump(node)


def strip_doc(body):
    if body and isinstance(body[0], ast.Expr) and isinstance(body[0].value, ast.Constant) and isinstance(body[0].value.value, str):
        return body[1:]
    return body


# --------------------------------------------------------------------------- results

class Finding:
    def __init__(self, rule, where, what, construct='', node=None, func=None, detail=None):
        """where: FuncInfo | (relpath, lineno, qual).  construct: normalised construct text (key part)."""
        self.rule, self.what, self.detail = rule, what, detail or {}
        if isinstance(where, FuncInfo):
            self.file = where.module.relpath
            self.line = getattr(node, 'lineno', where.node.lineno) if node is not None else where.node.lineno
            self.func = where.module.name + ':' + where.qual
            if not construct and node is not None:
                construct = norm_construct(node, where.node)
        else:
            self.file, self.line, self.func = where
        self.construct = construct
        self.prop = None

    @property
    def key(self):
        return '%s|%s|%s' % (self.rule, self.func, self.construct)

    def to_json(self):
        return {'property': self.prop, 'rule': self.rule, 'function': self.func, 'file': self.file,
                'line': self.line, 'construct': self.construct, 'key': self.key, 'what': self.what,
                'detail': self.detail}

    def __repr__(self):
        return '%s:%d [%s] %s :: %s' % (self.file, self.line, self.rule, self.func, self.what)


class RuleResult:
    """Outcome of one rule on one tree."""

    def __init__(self, rule, text, floor=0):
        self.rule, self.text, self.floor = rule, text, floor
        self.instances = []     # list of short dicts / strings describing each obligation examined
        self.findings = []
        self.unresolved = 0
        self.nontrivial = set()
        self.notes = []

    def inst(self, desc, nontrivial_key=None):
        self.instances.append(desc)
        self.nontrivial.add(nontrivial_key if nontrivial_key is not None else json.dumps(desc, sort_keys=True, default=str))

    def add(self, finding):
        self.findings.append(finding)

    error = None      # set when the rule function itself lost an anchor (see guarded): reported like a missed floor

    def check_floor(self):
        if self.error is not None:
            raise AnalysisError(self.error)
        if len(self.instances) < self.floor:
            raise AnalysisError('rule %s matched %d instances, floor is %d - the rule lost its anchors'
                                % (self.rule, len(self.instances), self.floor))


class _ErrorResult(RuleResult):
    """placeholder for a rule (or a list of rules) whose function lost its anchor: usable wherever the function's normal result is used -
    as one RuleResult, or as the list some rule functions return (+, append, extend, iteration)"""

    def __init__(self, rid, msg):
        RuleResult.__init__(self, rid, 'rule could not be evaluated: ' + msg[:120])
        self.error = msg
        self._more = []

    def __iter__(self):
        return iter([self] + self._more)

    def __len__(self):
        return 1 + len(self._more)

    def __add__(self, other):
        return [self] + self._more + list(other)

    def __radd__(self, other):
        return list(other) + [self] + self._more

    def append(self, x):
        self._more.append(x)

    def extend(self, xs):
        self._more.extend(xs)


def guarded(fn):
    """Isolation between the rules of one property: a rule that loses its anchor (AnalysisError) no longer prevents its sibling rules from
    running - their findings are what names the broken construct.  The error is kept on a placeholder result and is raised by check_floor,
    so a run without any finding still ends as ANALYSIS-ERROR (exit 2), never as a silent pass."""
    import functools

    @functools.wraps(fn)
    def wrapper(*a, **kw):
        try:
            return fn(*a, **kw)
        except AnalysisError as e:
            msg = str(e)
            head = msg.split(':')[0].strip()
            rid = head if ':' in msg and len(head) < 16 and ' ' not in head else fn.__name__
            return _ErrorResult(rid, msg)
        except (AttributeError, TypeError, KeyError, IndexError, ValueError) as e:
            # an analysis walking an unexpected tree shape: the rule could not decide - reported like a lost anchor (never a silent pass, never a
            # traceback that hides the sibling rules' findings)
            import traceback
            tb = traceback.extract_tb(e.__traceback__)[-1]
            return _ErrorResult(fn.__name__, '%s: internal %s at %s:%d (%s)' % (fn.__name__, type(e).__name__, os.path.basename(tb.filename), tb.lineno, e))
    return wrapper


guarded_list = guarded


# --------------------------------------------------------------------------- known findings

def load_known():
    p = os.path.join(VERIF_DIR, 'known_findings.json')
    if not os.path.exists(p):
        return []
    with open(p) as fh:
        return json.load(fh).get('findings', [])


def run_property(prop_id, rules_fn, tier, root=None, overlay=None, write=True, quiet=False, only_key=None):
    """Run all rules of one property; print report; write evidence; return exit code."""
    t0 = time.time()
    repo = Repo(root, overlay)
    results = list(rules_fn(repo, tier))
    floor_errors = []
    for r in results:
        try:
            r.check_floor()
        except AnalysisError as e:
            floor_errors.append(str(e))
    known = [k for k in load_known() if k.get('property') == prop_id and k.get('status') == 'known']
    known_keys = {k['key']: k for k in known}
    violations, known_hits = [], []
    for r in results:
        for f in r.findings:
            f.prop = prop_id
            if only_key is not None and f.key != only_key:
                continue
            if f.key in known_keys:
                known_hits.append((f, known_keys[f.key]))
            else:
                violations.append(f)
    out = []
    n_inst = sum(len(r.instances) for r in results)
    for r in results:
        out.append('  rule %-14s instances=%-4d findings=%d  %s' % (r.rule, len(r.instances), len(r.findings), r.text[:90]))
    for f, k in known_hits:
        out.append('KNOWN-FINDING: property=%s %s [%s at %s:%d %s]' % (prop_id, k.get('what', f.what), f.rule, f.file, f.line, f.func))
    replay_dir = os.path.join(VERIF_DIR, 'evidence', 'replay')
    for f in violations:
        h = hashlib.sha1(f.key.encode()).hexdigest()[:12]
        path = os.path.join(replay_dir, '%s-%s.json' % (prop_id, h))
        if write:
            os.makedirs(replay_dir, exist_ok=True)
            with open(path, 'w') as fh:
                json.dump(f.to_json(), fh, indent=1, default=str)
        out.append('FINDING %s:%d rule=%s function=%s\n        %s\n        construct: %s' % (f.file, f.line, f.rule, f.func, f.what, f.construct))
        out.append('VIOLATION property=%s replay=%s' % (prop_id, path))
    if floor_errors and not violations:
        # nothing concrete to report: the analysis lost its anchors
        raise AnalysisError('; '.join(floor_errors))
    for fe in floor_errors:
        out.append('NOTE (also): ' + fe)
    wall = time.time() - t0
    if write and only_key is None:
        write_evidence(prop_id, tier, results, violations, known_hits, wall, repo)
    if not quiet:
        print('[%s] tier=%s root=%s rules=%d instances=%d violations=%d known=%d wall=%.2fs' %
              (prop_id, tier, repo.root, len(results), n_inst, len(violations), len(known_hits), wall))
        print('\n'.join(out))
    return (1 if violations else 0), results, violations


def write_evidence(prop_id, tier, results, violations, known_hits, wall, repo, extra=None):
    from .registry import PROPS
    meta = PROPS[prop_id]
    samples = []
    for r in results:
        for i in r.instances[:4]:
            samples.append({'rule': r.rule, 'instance': i})
    n_inst = sum(len(r.instances) for r in results)
    n_find = sum(len(r.findings) for r in results)
    distinct = len(set().union(*[{(r.rule, k) for k in r.nontrivial} for r in results])) if results else 0
    cov = {
        'explanation': meta['explanation'],
        'obligations': n_inst,
        'discharged': n_inst - n_find,
        'evaluations': n_inst,
        'distinct_nontrivial': distinct,
        'rule': 'one evaluation = one rule instance (a function, call site, mask group, path or table entry of '
                '/repo/pypose matched by the rule premise); distinct = distinct (rule, instance description) pairs; '
                'an instance is non-trivial when its premise matched real code (floors forbid vacuous rules)',
        'samples': samples[:40],
        'rules': [{'id': r.rule, 'text': r.text, 'instances': len(r.instances), 'floor': r.floor,
                   'findings': len(r.findings), 'unresolved': r.unresolved, 'notes': r.notes[:10]} for r in results],
        'functions_analysed': sorted({str(i.get('function')) for r in results for i in r.instances
                                      if isinstance(i, dict) and i.get('function')})[:200],
        'checker_cmd': './check %s --tier %s' % (prop_id, tier),
        'trusted_base': ['CPython ast', 'torch view/copy and status-return semantics tables in sa/', 'Lie-theory facts quoted in DESIGN.md'],
        'modules_parsed': len(repo.modules),
        'known_findings_matched': [f.key for f, _ in known_hits],
        'exhaustive': True,
    }
    if extra:
        cov.update(extra)
    ev = {
        'property_id': prop_id,
        'tier': tier if tier in ('quick', 'thorough') else 'quick',
        'seed': int(os.environ.get('VERIF_SEED', '0') or 0),
        'level': 'other',
        'coverage': cov,
        'assumptions': meta.get('assumptions', []),
        'wall_s': round(wall, 3),
        'violations': len(violations),
    }
    d = os.path.join(VERIF_DIR, 'evidence')
    os.makedirs(d, exist_ok=True)
    with open(os.path.join(d, prop_id + '.json'), 'w') as fh:
        json.dump(ev, fh, indent=1, default=str)


def reid(res, pid):
    """Re-issue the result of a rule of a neighbouring property under the property `pid`: a change to a mechanism two properties share (the trial loop of LM for
    C07 / C08 / C09, the retraction for C03 / C05 / C07, broadcast_inputs for C01 .. C06) is a violation of each of them and is reported by the check of each.
    `C08.STRAT` becomes `C07.STRAT_C08`."""
    if isinstance(res, (list, tuple)):
        out = []
        for r in res:
            x = reid(r, pid)
            out += x if isinstance(x, list) else [x]
        return out
    def new(old):
        op, _, nm = old.partition('.')
        return '%s.%s_%s' % (pid, nm, op) if op != pid else old
    res.rule = new(res.rule)
    for f in res.findings:
        f.rule = new(f.rule)
    if getattr(res, 'error', None):
        res.error = '%s [shared with %s]' % (res.error, pid)
    return res
