"""E4-NDT - nominal dimension typing: a small path-sensitive abstract interpreter over tensor shapes.

A tensor is typed by a tuple of nominal dimensions; an *index tensor* additionally carries the dimension it
indexes into (its domain).  Dimensions:
   ('lit', n)      known literal extent
   ('sym', name)   nominal extent (two axes have the same extent only if they carry the same symbol)
   ('batch', name) a variable-length prefix of batch axes (only as the first entry)
Boolean-mask indexing creates one fresh symbol per mask (keyed by the mask's defining expression).
Checks (callback `report(node, message)`):
   IDX   gather / index_select / index_add_ / index_copy_ / x[idx]: domain(idx) must equal the indexed axis
Unknown constructs evaluate to TOP (silent) and are counted in `self.unknown`.
"""
from __future__ import annotations
import ast
from .core import dotted, src
from .expr import dump
from . import paths

TOP = ('TOP',)


def lit(n):
    return ('lit', n)


def sym(n):
    return ('sym', n)


class TV:
    """tensor value"""
    __slots__ = ('shape', 'dom', 'mask', 'key', 'contr')

    def __init__(self, shape, dom=None, mask=False, key=None, contr=frozenset()):
        self.shape, self.dom, self.mask, self.key = tuple(shape), dom, mask, key
        self.contr = frozenset(contr)      # dimension symbols that were summed over (contracted) to obtain this value

    def rank_known(self):
        return not (self.shape and self.shape[0][0] == 'batch')

    def __repr__(self):
        def d(x):
            return str(x[1]) if x[0] != 'batch' else '*' + x[1]
        s = '(' + ', '.join(d(x) for x in self.shape) + ')'
        if self.dom is not None:
            s += '->' + d(self.dom)
        if self.mask:
            s += ' mask'
        return s


class SizeV:
    __slots__ = ('dims',)

    def __init__(self, dims):
        self.dims = tuple(dims)

    def __repr__(self):
        return 'Size' + repr(TV(self.dims))


class IntV:
    __slots__ = ('of', 'val')

    def __init__(self, of=None, val=None):
        self.of, self.val = of, val      # size of dimension `of` / literal value

    def __repr__(self):
        return 'Int(%s)' % (self.val if self.val is not None else (self.of[1] if self.of else '?'))


class TupV:
    __slots__ = ('items',)

    def __init__(self, items):
        self.items = list(items)

    def __repr__(self):
        return 'Tup%s' % (self.items,)


NONE = ('NONE',)


def grouped_dim(axis_dim, u):
    return sym('%s~grouped:%s' % (axis_dim[1], u[1]))


def as_dim(v):
    if isinstance(v, IntV):
        if v.val is not None:
            return lit(v.val)
        if v.of is not None:
            return v.of
    return None


def norm_axis(ax, tv):
    """axis index from the end (negative) if resolvable"""
    if ax is None:
        return None
    if ax < 0:
        if -ax <= len([d for d in tv.shape if d[0] != 'batch']):
            return ax
        return None
    if tv.rank_known():
        return ax - len(tv.shape)
    return None


def broadcast(a, b):
    """shapes -> shape | None"""
    a, b = list(a), list(b)
    out = []
    while a or b:
        x = a.pop() if a else None
        y = b.pop() if b else None
        if x is None:
            out.append(y)
        elif y is None:
            out.append(x)
        elif x[0] == 'batch' or y[0] == 'batch':
            # a batch prefix absorbs whatever is left on the other side
            rest = ([x] if x[0] == 'batch' else []) or [y]
            out.append(rest[0])
            a, b = [], []
        elif x == y:
            out.append(x)
        elif x == lit(1):
            out.append(y)
        elif y == lit(1):
            out.append(x)
        elif x[0] == 'sym' and '#' in x[1] and x[1].split('.')[-1].startswith('v#'):
            out.append(y)      # extent derived by view(-1, ..): equal to the partner at run time
        elif y[0] == 'sym' and '#' in y[1] and y[1].split('.')[-1].startswith('v#'):
            out.append(x)
        else:
            return None
    return tuple(reversed(out))


class Interp:
    def __init__(self, repo, report, depth=0, prefix='', max_depth=2):
        self.repo, self.report, self.depth, self.prefix, self.max_depth = repo, report, depth, prefix, max_depth
        self.unknown = 0
        self.fresh_cache = {}
        self.checks = []          # (kind, node, ok, description)
        self.store_hook = None    # callable(target_node, target_value, rhs_value, stmt)

    def fresh(self, key, hint='n'):
        k = (self.prefix, key)
        if k not in self.fresh_cache:
            self.fresh_cache[k] = sym('%s%s#%d' % (self.prefix, hint, len(self.fresh_cache)))
        return self.fresh_cache[k]

    # ------------------------------------------------------------------ function level
    def run_function(self, finfo, args, limit=256):
        """args: {param: value}.  -> list of returned values (one per path that returns)"""
        self.f = finfo
        pths, trunc = paths.function_paths(finfo.node, limit=limit, strict=False,
                                           unroll=lambda l: 1)
        rets = []
        n = 0
        for ev, ex in pths:
            env = dict(args)
            a = finfo.node.args
            defaults = dict(zip([x.arg for x in (a.posonlyargs + a.args)][-len(a.defaults):] if a.defaults else [], a.defaults))
            for x, dflt in zip(a.kwonlyargs, a.kw_defaults):
                if dflt is not None:
                    defaults[x.arg] = dflt
            for p, dnode in defaults.items():
                if p not in env:
                    env[p] = self.ev(dnode, {})
            feasible = True
            ret = None
            for e in ev:
                if e[0] == 'assume':
                    t = self.truth(e[1], env)
                    if t is not None and t != e[2]:
                        feasible = False
                        break
                elif e[0] == 'stmt':
                    r = self.stmt(e[1], env)
                    if isinstance(e[1], ast.Return):
                        ret = r
                elif e[0] == 'iter':
                    self.bind(e[1].target, self.iter_value(self.ev(e[1].iter, env)), env)
            if not feasible:
                continue
            n += 1
            if ex == 'return':
                rets.append(ret)
        return rets

    def truth(self, test, env):
        """decide `x is None` / `x is not None` / `not ...` / isinstance-free boolean names from known None-ness"""
        if isinstance(test, ast.UnaryOp) and isinstance(test.op, ast.Not):
            t = self.truth(test.operand, env)
            return None if t is None else (not t)
        if isinstance(test, ast.Compare) and len(test.ops) == 1 and isinstance(test.ops[0], (ast.Is, ast.IsNot, ast.Eq, ast.NotEq)) \
                and isinstance(test.comparators[0], ast.Constant) and test.comparators[0].value is None:
            v = self.ev(test.left, env)
            if v is TOP:
                return None
            isnone = v is NONE
            return isnone if isinstance(test.ops[0], (ast.Is, ast.Eq)) else (not isnone)
        if isinstance(test, ast.Name):
            v = env.get(test.id, TOP)
            if isinstance(v, IntV) and v.val is not None and isinstance(v.val, bool):
                return v.val
        return None

    # ------------------------------------------------------------------ statements
    def stmt(self, st, env):
        if isinstance(st, ast.Assign):
            v = self.ev(st.value, env)
            for t in st.targets:
                self.bind(t, v, env, st)
        elif isinstance(st, ast.AnnAssign) and st.value is not None:
            self.bind(st.target, self.ev(st.value, env), env, st)
        elif isinstance(st, ast.AugAssign):
            cur = self.ev(st.target, env)
            v = self.binop(st, cur, self.ev(st.value, env), st.op)
            if isinstance(st.target, ast.Name):
                env[st.target.id] = v
            elif isinstance(st.target, ast.Subscript):
                # x[i] op= y is x[i] = x[i] op y: a store like any other
                import copy as _copy
                tgt_ = _copy.copy(st.target)
                tgt_.ctx = ast.Store()
                self.bind(tgt_, v, env, st)
        elif isinstance(st, ast.Expr):
            self.ev(st.value, env)
        elif isinstance(st, ast.Return):
            return self.ev(st.value, env) if st.value is not None else NONE
        elif isinstance(st, (ast.If, ast.For, ast.While, ast.With, ast.Try)):
            # collapsed compound statement: havoc its targets
            for n in ast.walk(st):
                if isinstance(n, ast.Name) and isinstance(n.ctx, ast.Store):
                    env[n.id] = TOP
        return None

    def bind(self, target, v, env, stmt=None):
        if isinstance(target, ast.Name):
            env[target.id] = v
        elif isinstance(target, (ast.Tuple, ast.List)):
            items = None
            if isinstance(v, TupV) and len(v.items) == len(target.elts):
                items = v.items
            elif isinstance(v, SizeV) and len(v.dims) == len(target.elts) and all(d[0] != 'batch' for d in v.dims):
                items = [IntV(of=d) if d[0] == 'sym' else IntV(val=d[1]) for d in v.dims]
            for i, t in enumerate(target.elts):
                self.bind(t, items[i] if items else TOP, env, stmt)
        elif isinstance(target, ast.Subscript):
            base = self.ev(target.value, env)
            if isinstance(base, TV):
                tgt = self.index(target, base, target.slice, env)
                if self.store_hook is not None:
                    self.store_hook(target, base, tgt, v, stmt)
        elif isinstance(target, ast.Attribute):
            d = dotted(target)
            if d:
                env[d] = v

    def iter_value(self, v):
        if isinstance(v, TV) and v.shape and v.shape[0][0] != 'batch':
            return TV(v.shape[1:], v.dom, v.mask)
        return TOP

    # ------------------------------------------------------------------ expressions
    def ev(self, e, env):
        try:
            return self._ev(e, env)
        except RecursionError:
            return TOP

    def _ev(self, e, env):
        if e is None:
            return NONE
        if isinstance(e, ast.Constant):
            if e.value is None:
                return NONE
            if isinstance(e.value, bool):
                return IntV(val=e.value)
            if isinstance(e.value, int):
                return IntV(val=e.value)
            if isinstance(e.value, float):
                return IntV()
            return TOP
        if isinstance(e, ast.Name):
            return env.get(e.id, TOP)
        if isinstance(e, ast.Attribute):
            d = dotted(e)
            if d is not None and d in env:
                return env[d]
            base = self.ev(e.value, env)
            if isinstance(base, TV):
                if e.attr == 'shape':
                    return SizeV(base.shape)
                if e.attr in ('mT', 'mH') and len(base.shape) >= 2 and base.shape[-2][0] != 'batch':
                    return TV(base.shape[:-2] + (base.shape[-1], base.shape[-2]))
                if e.attr in ('T',) and len(base.shape) == 2 and base.rank_known():
                    return TV((base.shape[1], base.shape[0]))
                if e.attr in ('real', 'imag', 'data', 'values'):
                    return TV(base.shape, base.dom, base.mask, base.key)
                if e.attr == 'ndim' and base.rank_known():
                    return IntV(val=len(base.shape))
            if isinstance(base, TupV) and e.attr in ('values', 'indices') and len(base.items) == 2:
                return base.items[0 if e.attr == 'values' else 1]
            return TOP
        if isinstance(e, ast.UnaryOp):
            v = self.ev(e.operand, env)
            if isinstance(e.op, ast.Invert) and isinstance(v, TV):
                return TV(v.shape, None, v.mask, ('not', v.key) if v.key is not None else None)
            if isinstance(e.op, ast.USub):
                if isinstance(v, IntV) and v.val is not None:
                    return IntV(val=-v.val)
                if isinstance(v, TV):
                    return TV(v.shape)
            if isinstance(e.op, ast.Not):
                return IntV()
            return v if isinstance(v, TV) else TOP
        if isinstance(e, ast.BinOp):
            return self.binop(e, self.ev(e.left, env), self.ev(e.right, env), e.op)
        if isinstance(e, ast.Compare):
            l = self.ev(e.left, env)
            r = self.ev(e.comparators[0], env)
            if isinstance(l, TV) or isinstance(r, TV):
                sh = broadcast(l.shape if isinstance(l, TV) else (), r.shape if isinstance(r, TV) else ())
                if sh is None:
                    return TOP
                return TV(sh, None, True, ('cmp', dump(e)))
            return IntV()
        if isinstance(e, ast.BoolOp):
            vs = [self.ev(v, env) for v in e.values]
            return vs[-1] if vs else TOP
        if isinstance(e, ast.IfExp):
            t = self.truth(e.test, env)
            if t is True:
                return self.ev(e.body, env)
            if t is False:
                return self.ev(e.orelse, env)
            a, b = self.ev(e.body, env), self.ev(e.orelse, env)
            return a if repr(a) == repr(b) else TOP
        if isinstance(e, (ast.Tuple, ast.List)):
            items = []
            for x in e.elts:
                if isinstance(x, ast.Starred):
                    v = self.ev(x.value, env)
                    if isinstance(v, SizeV):
                        items.append(('*', v))
                    elif isinstance(v, TupV):
                        items.extend(v.items)
                    else:
                        items.append(TOP)
                else:
                    items.append(self.ev(x, env))
            return TupV(items)
        if isinstance(e, ast.Subscript):
            base = self.ev(e.value, env)
            if isinstance(base, TV):
                r_ = self.index(e, base, e.slice, env)
                if isinstance(r_, TV) and base.contr:
                    r_.contr = base.contr
                return r_
            if isinstance(base, SizeV):
                return self.size_index(base, e.slice, env)
            if isinstance(base, TupV):
                i = self.ev(e.slice, env)
                if isinstance(i, IntV) and i.val is not None and -len(base.items) <= i.val < len(base.items):
                    return base.items[i.val]
            return TOP
        if isinstance(e, ast.Call):
            return self.call(e, env)
        if isinstance(e, ast.Starred):
            return self.ev(e.value, env)
        return TOP

    def binop(self, node, l, r, op):
        if isinstance(l, TV) and isinstance(r, TV):
            if isinstance(op, ast.MatMult):
                return self.matmul(l, r)
            for i in range(1, min(len(l.shape), len(r.shape)) + 1):
                a, b = l.shape[-i], r.shape[-i]
                if a != b and a[0] == b[0] == 'sym' and str(a[1]).startswith('prod(') and str(b[1]).startswith('prod('):
                    fa, fb = str(a[1])[5:-1].split('*'), str(b[1])[5:-1].split('*')
                    if sorted(fa) == sorted(fb) and fa != fb:
                        self.report(node, 'elementwise operation between two flattened axes with the same factors in different order (%s vs %s): '
                                    'the entries of one operand are paired with the wrong rows of the other' % (a[1], b[1]))
            # a per-batch quantity (shape = the batch prefix only) against a per-item quantity (batch prefix + named axes): right-aligned
            # broadcasting matches the LAST batch axis with the item axis - batch item j meets point j - unless the prefix is empty
            for a_, b_ in ((l, r), (r, l)):
                if len(b_.shape) == 1 and b_.shape[0][0] == 'batch' and len(a_.shape) >= 2 and a_.shape[0] == b_.shape[0] and \
                        all(d[0] == 'sym' for d in a_.shape[1:]):
                    self.report(node, 'a per-batch quantity (one value per batch item) is combined elementwise with a per-point quantity of the same batch: '
                                'broadcasting aligns shapes from the right, so for a non-empty batch the batch axis is matched against the point axis `%s` '
                                '(an error, or - when the two extents happen to agree - item j of the batch silently applied to point j of every item)'
                                % a_.shape[-1][1])
            sh = broadcast(l.shape, r.shape)
            if sh is None:
                self.unknown += 1
                return TOP
            if isinstance(op, (ast.BitAnd, ast.BitOr, ast.Mult)) and l.mask and r.mask:
                return TV(sh, None, True, (type(op).__name__, l.key, r.key))
            if isinstance(op, (ast.Add, ast.Sub)):
                doms = [t.dom for t in (l, r) if t.dom is not None and '~grouped:' in str(t.dom[1])]
                if len(doms) == 1:
                    return TV(sh, dom=doms[0])      # offset inside a group + start of the group: still a position in the grouped axis
            return TV(sh, contr=l.contr | r.contr)
        if isinstance(l, TV) or isinstance(r, TV):
            t, o = (l, r) if isinstance(l, TV) else (r, l)
            if isinstance(op, ast.MatMult):
                return TOP
            if isinstance(o, (IntV,)) or o is TOP:
                # index arithmetic with a scalar keeps shape; only a grouped-offset domain survives +/- (offset within the group)
                if isinstance(op, (ast.Add, ast.Sub)) and t.dom is not None and '~grouped:' in str(t.dom[1]):
                    return TV(t.shape, dom=t.dom)
                return TV(t.shape)
            return TOP
        if isinstance(l, SizeV) or isinstance(r, SizeV) or isinstance(l, TupV) or isinstance(r, TupV):
            if isinstance(op, ast.Add):
                a, b = self.to_size(l), self.to_size(r)
                if a is not None and b is not None:
                    return SizeV(a.dims + b.dims)
            if isinstance(op, ast.Mult):
                s, k = (l, r) if isinstance(l, (SizeV, TupV)) else (r, l)
                s = self.to_size(s)
                if s is not None and isinstance(k, IntV) and k.val is not None:
                    return SizeV(s.dims * k.val)
            return TOP
        if isinstance(l, IntV) and isinstance(r, IntV):
            if l.val is not None and r.val is not None and not isinstance(l.val, bool) and not isinstance(r.val, bool):
                try:
                    if isinstance(op, ast.Add):
                        return IntV(val=l.val + r.val)
                    if isinstance(op, ast.Sub):
                        return IntV(val=l.val - r.val)
                    if isinstance(op, ast.Mult):
                        return IntV(val=l.val * r.val)
                    if isinstance(op, ast.FloorDiv) and r.val:
                        return IntV(val=l.val // r.val)
                except Exception:
                    pass
            # arithmetic on a size: a derived (fresh) extent, keyed by the expression
            return IntV(of=self.fresh(('arith', dump(node) if isinstance(node, ast.AST) else repr(node)), 'k'))
        return TOP

    def matmul(self, l, r):
        if len(l.shape) >= 2 and len(r.shape) >= 2 and l.shape[-2][0] != 'batch' and r.shape[-2][0] != 'batch':
            b = broadcast(l.shape[:-2], r.shape[:-2])
            if b is None:
                return TOP
            return TV(b + (l.shape[-2], r.shape[-1]), contr=l.contr | r.contr | {l.shape[-1]})
        return TOP

    def to_size(self, v):
        if isinstance(v, SizeV):
            return v
        if isinstance(v, TupV):
            dims = []
            for it in v.items:
                if isinstance(it, tuple) and len(it) == 2 and it[0] == '*':
                    dims.extend(it[1].dims)
                    continue
                d = as_dim(it)
                if d is None:
                    return None
                dims.append(d)
            return SizeV(dims)
        if isinstance(v, IntV):
            d = as_dim(v)
            return SizeV([d]) if d is not None else None
        return None

    def size_index(self, s, sl, env):
        dims = list(s.dims)
        if isinstance(sl, ast.Slice):
            lo = self.ev(sl.lower, env) if sl.lower is not None else IntV(val=None)
            hi = self.ev(sl.upper, env) if sl.upper is not None else IntV(val=None)
            lo = lo.val if isinstance(lo, IntV) else '?'
            hi = hi.val if isinstance(hi, IntV) else '?'
            if lo == '?' or hi == '?':
                return TOP
            has_batch = dims and dims[0][0] == 'batch'
            if has_batch:
                # only suffix slices [-k:] and prefix-removals [:-k] are representable
                if lo is not None and lo < 0 and hi is None and -lo <= len(dims) - 1:
                    return SizeV(dims[lo:])
                if lo is None and hi is not None and hi < 0 and -hi <= len(dims) - 1:
                    return SizeV(dims[:hi])
                return TOP
            return SizeV(dims[slice(lo, hi)])
        i = self.ev(sl, env)
        if isinstance(i, IntV) and i.val is not None:
            k = i.val
            if k < 0 and -k <= len([d for d in dims if d[0] != 'batch']):
                d = dims[k]
            elif k >= 0 and not (dims and dims[0][0] == 'batch') and k < len(dims):
                d = dims[k]
            else:
                return TOP
            return IntV(val=d[1]) if d[0] == 'lit' else IntV(of=d)
        return TOP

    # ------------------------------------------------------------------ indexing
    def index(self, node, base, sl, env):
        elts = list(sl.elts) if isinstance(sl, ast.Tuple) else [sl]
        shape = list(base.shape)
        # split at Ellipsis: items before index from the front, items after from the back
        ell = [i for i, x in enumerate(elts) if isinstance(x, ast.Constant) and x.value is Ellipsis]
        if len(ell) > 1:
            return TOP
        front = elts[:ell[0]] if ell else elts
        back = elts[ell[0] + 1:] if ell else []
        has_batch = shape and shape[0][0] == 'batch'
        out_front, consumed_front = self.index_run(node, base, shape, front, env, from_front=True)
        if out_front is None:
            return TOP
        rest = shape[consumed_front:]
        if back:
            n_back = sum(1 for x in back if not (isinstance(x, ast.Constant) and x.value is None))
            if n_back > len([d for d in rest if d[0] != 'batch']):
                return TOP
            keep = rest[:len(rest) - n_back]
            tail = rest[len(rest) - n_back:]
            out_back, _ = self.index_run(node, base, tail, back, env, from_front=False)
            if out_back is None:
                return TOP
            return TV(tuple(out_front) + tuple(keep) + tuple(out_back), base.dom if self.all_basic(elts, env) else None)
        if has_batch and consumed_front > 0 and not ell:
            # indexing from the front into an unknown batch prefix
            if not (len(front) == 1 and isinstance(self.ev(front[0], env), TV)):
                return TOP
        return TV(tuple(out_front) + tuple(rest), base.dom if self.all_basic(elts, env) else None)

    def all_basic(self, elts, env):
        for x in elts:
            if isinstance(x, (ast.Slice,)) or (isinstance(x, ast.Constant) and (x.value is Ellipsis or x.value is None)):
                continue
            if isinstance(self.ev(x, env), IntV):
                continue
            return False
        return True

    def index_run(self, node, base, dims, items, env, from_front):
        """apply index items to consecutive dims -> (resulting dims, number of dims consumed)"""
        out = []
        k = 0
        for x in items:
            if isinstance(x, ast.Constant) and x.value is None:
                out.append(lit(1))
                continue
            if isinstance(x, ast.Slice):
                if k >= len(dims):
                    return None, 0
                d = dims[k]
                if d[0] == 'batch':
                    return None, 0
                if x.lower is None and x.upper is None and x.step is None:
                    out.append(d)
                else:
                    lo = self.ev(x.lower, env) if x.lower is not None else None
                    hi = self.ev(x.upper, env) if x.upper is not None else None
                    n = None
                    if d[0] == 'lit' and x.step is None:
                        lov = lo.val if isinstance(lo, IntV) else (0 if lo is None else None)
                        hiv = hi.val if isinstance(hi, IntV) else (d[1] if hi is None else None)
                        if lov is not None and hiv is not None:
                            n = len(range(d[1])[slice(lov, hiv)])
                    if n is None and x.step is None and lo is None and isinstance(hi, IntV) and hi.val is not None and hi.val >= 0:
                        n = None
                    if n is None and x.step is None and isinstance(lo, IntV) and isinstance(hi, IntV) and lo.val is not None and hi.val is not None \
                            and lo.val >= 0 and hi.val >= 0:
                        n = hi.val - lo.val
                    out.append(lit(n) if n is not None else self.fresh(('slice', d, dump(x)), 's'))
                k += 1
                continue
            v = self.ev(x, env)
            if isinstance(v, IntV):
                if k >= len(dims) or dims[k][0] == 'batch':
                    return None, 0
                k += 1
                continue
            if isinstance(v, TupV) and all(isinstance(i, IntV) for i in v.items):
                # tuple/list of ints: advanced index selecting len(items) entries
                if k >= len(dims) or dims[k][0] == 'batch':
                    return None, 0
                out.append(lit(len(v.items)))
                k += 1
                continue
            if isinstance(v, TV):
                if v.mask:
                    n = len(v.shape)
                    if v.shape and v.shape[0][0] == 'batch':
                        # mask with batch prefix consumes the same prefix of the base
                        if not (dims and dims[0] == v.shape[0]):
                            return None, 0
                    if k + n > len(dims):
                        return None, 0
                    out.append(self.fresh(('mask', v.key if v.key is not None else id(x)), 'm'))
                    k += n
                    continue
                # integer index tensor
                if k >= len(dims) or dims[k][0] == 'batch':
                    return None, 0
                self.check_domain(node, v, dims[k], 'index %s' % src(x)[:40])
                if isinstance(v.key, tuple) and v.key and v.key[0] == 'grouporder' and len(v.shape) == 1:
                    out.append(grouped_dim(v.key[2], v.key[1]))     # the axis re-ordered so that equal groups are contiguous
                else:
                    out.extend(v.shape)
                k += 1
                continue
            return None, 0
        return out, k

    def check_domain(self, node, idx, axis_dim, what):
        if not isinstance(idx, TV) or idx.dom is None or axis_dim is None or axis_dim[0] == 'batch':
            self.unknown += 1
            self.checks.append(('IDX', node, None, what))
            return
        ok = idx.dom == axis_dim
        self.checks.append(('IDX', node, ok, what))
        if not ok:
            self.report(node, '%s was computed over an axis of extent `%s` but indexes an axis of extent `%s`'
                        % (what, idx.dom[1], axis_dim[1]))

    # ------------------------------------------------------------------ calls
    def kw(self, c, name, pos=None, env=None, default=None):
        for k in c.keywords:
            if k.arg == name:
                return self.ev(k.value, env)
        if pos is not None and pos < len(c.args):
            return self.ev(c.args[pos], env)
        return default

    def intval(self, v):
        return v.val if isinstance(v, IntV) and v.val is not None and not isinstance(v.val, bool) else None

    def boolval(self, v, default=False):
        if isinstance(v, IntV) and isinstance(v.val, bool):
            return v.val
        return default

    def call(self, c, env):
        fn = c.func
        d = dotted(fn) or ''
        # ---- torch.* functions with the tensor as first argument are mapped onto the method form
        if d.startswith('torch.') or d in ('F.softmax',):
            name = d.split('.')[-1]
            if name in ('zeros', 'ones', 'empty', 'rand', 'randn', 'full'):
                s = self.size_from_args(c.args[:1] if name == 'full' else c.args, env)
                return TV(s.dims) if s is not None else TOP
            if name in ('zeros_like', 'ones_like', 'empty_like', 'rand_like', 'randn_like', 'full_like') and c.args:
                v = self.ev(c.args[0], env)
                return TV(v.shape) if isinstance(v, TV) else TOP
            if name in ('arange', 'randperm') and c.args:
                n = self.ev(c.args[-1] if name == 'arange' and len(c.args) <= 2 else c.args[0], env)
                dd = as_dim(n)
                if dd is not None and (name == 'randperm' or len(c.args) == 1):
                    return TV((dd,), dom=dd if dd[0] == 'sym' else None)
                return TV((self.fresh(('arange', dump(c)), 'a'),))
            if name == 'Size' and c.args:
                s = self.to_size(self.ev(c.args[0], env))
                return s if s is not None else TOP
            if name == 'broadcast_shapes':
                out = ()
                for a in c.args:
                    s = self.to_size(self.ev(a, env))
                    if s is None:
                        return TOP
                    out = broadcast(out, s.dims)
                    if out is None:
                        return TOP
                return SizeV(out)
            if name in ('cat', 'concat', 'stack') and c.args:
                return self.cat(c, name, env)
            if name == 'tensor':
                v = self.ev(c.args[0], env) if c.args else TOP
                if isinstance(v, TupV):
                    return TV((lit(len(v.items)),))
                return TOP
            if name == 'eye':
                n = as_dim(self.ev(c.args[0], env)) if c.args else None
                return TV((n, n)) if n is not None else TOP
            if name == 'unique':
                return self.unique(c, self.ev(c.args[0], env), env)
            if name == 'searchsorted' and len(c.args) >= 2:
                seq, vals = self.ev(c.args[0], env), self.ev(c.args[1], env)
                if isinstance(seq, TV) and isinstance(vals, TV) and seq.shape:
                    return TV(vals.shape, dom=seq.shape[-1] if seq.shape[-1][0] == 'sym' else None)
                return TOP
            if name == 'gather' and len(c.args) + len(c.keywords) >= 3:
                return self.gather(c, self.ev(c.args[0], env), self.kw(c, 'dim', 1, env), self.kw(c, 'index', 2, env))
            if name == 'index_select' and len(c.args) >= 3:
                return self.index_select(c, self.ev(c.args[0], env), self.ev(c.args[1], env), self.ev(c.args[2], env))
            if name == 'where' and len(c.args) == 3:
                a, b = self.ev(c.args[1], env), self.ev(c.args[2], env)
                return a if isinstance(a, TV) else b
            if name == 'einsum' and c.args and isinstance(c.args[0], ast.Constant) and isinstance(c.args[0].value, str):
                r_ = self.einsum(c.args[0].value, [self.ev(a, env) for a in c.args[1:]])
                if r_ is not None:
                    return r_
            if name in ('einsum', 'block_diag', 'svd', 'eig', 'det', 'inverse', 'solve', 'pinv'):
                if name == 'eig' and c.args:
                    v = self.ev(c.args[0], env)
                    if isinstance(v, TV) and len(v.shape) >= 2:
                        return TupV([TV(v.shape[:-1]), TV(v.shape)])
                self.unknown += 1
                return TOP
            if c.args:
                recv = self.ev(c.args[0], env)
                if isinstance(recv, TV):
                    return self.method(c, name, recv, c.args[1:], env)
            self.unknown += 1
            return TOP
        if d == 'len' and c.args:
            v = self.ev(c.args[0], env)
            if isinstance(v, TV) and v.shape and v.shape[0][0] != 'batch':
                d0 = v.shape[0]
                return IntV(val=d0[1]) if d0[0] == 'lit' else IntV(of=d0)
            if isinstance(v, (SizeV,)) and not (v.dims and v.dims[0][0] == 'batch'):
                return IntV(val=len(v.dims))
            if isinstance(v, TupV):
                return IntV(val=len(v.items))
            return IntV()
        if d in ('int', 'float', 'abs', 'min', 'max', 'round'):
            v = self.ev(c.args[0], env) if c.args else TOP
            return v if isinstance(v, IntV) and d == 'int' else IntV()
        if d in ('list', 'tuple') and c.args:
            return self.ev(c.args[0], env)
        if d in ('grad', 'torch.autograd.grad') and len(c.args) >= 2:
            x = self.ev(c.args[1], env)
            return TupV([TV(x.shape)]) if isinstance(x, TV) else TOP
        if d in ('jacobian',) and len(c.args) >= 2:
            # jacobian of a scalar-valued function: shape of the input
            x = self.ev(c.args[1], env)
            return TV(x.shape) if isinstance(x, TV) else TOP
        if isinstance(fn, ast.Attribute):
            recv = self.ev(fn.value, env)
            if isinstance(recv, TV):
                return self.method(c, fn.attr, recv, c.args, env)
            if isinstance(recv, SizeV) and fn.attr == 'numel':
                return IntV()
            if isinstance(recv, TupV) and fn.attr in ('values', 'indices'):
                return recv
        # repository callee: interpret with bound arguments
        if self.depth < self.max_depth:
            cands, how = self.repo.resolve_call(self.f, c, by_name=False)
            if len(cands) == 1 and how in ('direct', 'self', 'cls', 'apply'):
                g = cands[0]
                args = {}
                pp = g.pos_params
                off = 1 if (g.cls is not None and not g.is_static() and how in ('self', 'cls')) else 0
                for i, a in enumerate(c.args):
                    if isinstance(a, ast.Starred):
                        break
                    if off + i < len(pp):
                        args[pp[off + i]] = self.ev(a, env)
                for k in c.keywords:
                    if k.arg:
                        args[k.arg] = self.ev(k.value, env)
                sub = Interp(self.repo, self.report, self.depth + 1, self.prefix + g.name + '@%d.' % getattr(c, 'lineno', 0), self.max_depth)
                sub.store_hook = None
                rets = sub.run_function(g, args)
                self.unknown += sub.unknown
                self.checks.extend(sub.checks)
                if rets and all(repr(r) == repr(rets[0]) for r in rets):
                    return rets[0]
                return TOP
        self.unknown += 1
        return TOP

    def einsum(self, spec, ops):
        spec = spec.replace(' ', '')
        if '->' not in spec:
            return None
        ins, out = spec.split('->')
        ins = ins.split(',')
        if len(ins) != len(ops) or not all(isinstance(o, TV) for o in ops):
            return None
        letter = {}
        batch = ()
        contr = frozenset()
        for sp, o in zip(ins, ops):
            contr |= o.contr
            core = sp.replace('...', '')
            if len(core) > len([d for d in o.shape if d[0] != 'batch']):
                return None
            dims = o.shape[len(o.shape) - len(core):] if core else ()
            for ch, d in zip(core, dims):
                letter.setdefault(ch, d)
            if '...' in sp:
                b = o.shape[:len(o.shape) - len(core)]
                batch = broadcast(batch, b) or batch
        ocore = out.replace('...', '')
        if any(ch not in letter for ch in ocore):
            return None
        shape = (tuple(batch) if '...' in out else ()) + tuple(letter[ch] for ch in ocore)
        contracted = {letter[ch] for ch in letter if ch not in ocore}
        return TV(shape, contr=contr | contracted)

    def size_from_args(self, args, env):
        if len(args) == 1:
            v = self.ev(args[0], env)
            s = self.to_size(v)
            if s is not None:
                return s
            return None
        dims = []
        for a in args:
            if isinstance(a, ast.Starred):
                s = self.to_size(self.ev(a.value, env))
                if s is None:
                    return None
                dims.extend(s.dims)
                continue
            dd = as_dim(self.ev(a, env))
            if dd is None:
                return None
            dims.append(dd)
        return SizeV(dims)

    def cat(self, c, name, env):
        v = self.ev(c.args[0], env)
        dimv = self.kw(c, 'dim', 1, env, IntV(val=0))
        ax = self.intval(dimv)
        if not isinstance(v, TupV) or ax is None:
            return TOP
        ts = [t for t in v.items if isinstance(t, TV)]
        if len(ts) != len(v.items) or not ts:
            return TOP
        t0 = ts[0]
        if name == 'stack':
            a = ax if ax < 0 else (ax - len(t0.shape) - 1 if t0.rank_known() else None)
            if a is None:
                return TOP
            sh = list(t0.shape)
            pos = len(sh) + a + 1
            sh.insert(pos, lit(len(ts)))
            return TV(sh)
        a = norm_axis(ax, t0)
        if a is None:
            return TOP
        sh = list(t0.shape)
        lits = [t.shape[a] for t in ts if len(t.shape) >= -a]
        if len(lits) == len(ts) and all(x[0] == 'lit' for x in lits):
            sh[a] = lit(sum(x[1] for x in lits))
        else:
            sh[a] = self.fresh(('cat', dump(c)), 'c')
        return TV(sh)

    def unique(self, c, v, env):
        if not isinstance(v, TV):
            return TOP
        dimv = self.kw(c, 'dim', None, env)
        ax = self.intval(dimv) if dimv is not None else None
        ri = self.boolval(self.kw(c, 'return_inverse', None, env, IntV(val=False)))
        rc = self.boolval(self.kw(c, 'return_counts', None, env, IntV(val=False)))
        u = self.fresh(('unique', dump(c)), 'u')
        if ax is None:
            out = TV((u,))
            inv = TV(v.shape, dom=u)
            orig = None
        else:
            a = norm_axis(ax, v)
            if a is None:
                return TOP
            sh = list(v.shape)
            orig = sh[a]
            sh[a] = u
            out = TV(sh)
            inv = TV((orig,), dom=u, key=('inverse', u, orig))
        res = [out]
        if ri:
            res.append(inv)
        if rc:
            res.append(TV((u,), key=('counts', u, orig)))
        return TupV(res) if len(res) > 1 else out

    def gather(self, c, inp, dimv, idx):
        ax = self.intval(dimv)
        if not isinstance(inp, TV) or ax is None:
            self.unknown += 1
            return TV(idx.shape) if isinstance(idx, TV) else TOP
        a = norm_axis(ax, inp)
        if a is None:
            self.unknown += 1
        else:
            self.check_domain(c, idx, inp.shape[a], 'gather index')
        return TV(idx.shape) if isinstance(idx, TV) else TOP

    def index_select(self, c, inp, dimv, idx):
        ax = self.intval(dimv)
        if not isinstance(inp, TV) or ax is None:
            self.unknown += 1
            return TOP
        a = norm_axis(ax, inp)
        if a is None:
            self.unknown += 1
            return TOP
        self.check_domain(c, idx, inp.shape[a], 'index_select index')
        sh = list(inp.shape)
        if isinstance(idx, TV) and len(idx.shape) == 1:
            sh[a] = idx.shape[0]
            return TV(sh)
        return TOP

    def reduce(self, recv, dimv, keep, index_result=False, both=False):
        ax = self.intval(dimv) if dimv is not None else None
        if dimv is None or dimv is NONE:
            return TV(())
        if isinstance(dimv, TupV):
            axes = [self.intval(x) for x in dimv.items]
            if any(a is None for a in axes):
                return TOP
            axes = [norm_axis(a, recv) for a in axes]
            if any(a is None for a in axes):
                return TOP
            sh = list(recv.shape)
            for a in sorted(axes):
                sh[a] = lit(1) if keep else None
            return TV([d for d in sh if d is not None])
        if ax is None:
            return TOP
        a = norm_axis(ax, recv)
        if a is None:
            return TOP
        sh = list(recv.shape)
        d0 = sh[a]
        if keep:
            sh[a] = lit(1)
        else:
            del sh[a]
        vals = TV(sh, contr=recv.contr | {d0})
        idx = TV(sh, dom=d0 if d0[0] == 'sym' else None)
        if both:
            return TupV([vals, idx])
        return idx if index_result else vals

    def method(self, c, m, recv, args, env):
        A = lambda i: self.ev(args[i], env) if i < len(args) else None
        def K(name, pos=None, default=None):
            for k in c.keywords:
                if k.arg == name:
                    return self.ev(k.value, env)
            if pos is not None and pos < len(args):
                return self.ev(args[pos], env)
            return default
        same = TV(recv.shape, recv.dom, recv.mask, recv.key)
        if m in ('abs', 'sqrt', 'square', 'exp', 'log', 'sin', 'cos', 'clamp', 'clamp_', 'float', 'double', 'to', 'type', 'long', 'int',
                 'clone', 'detach', 'detach_', 'contiguous', 'cuda', 'cpu', 'requires_grad_', 'neg', 'sign', 'pow', 'type_as', 'bool',
                 'cumsum', 'flip', 'nan_to_num', 'tensor', 'rad2deg', 'half', 'softmax', 'log_prob_'):
            if m == 'cumsum' and isinstance(recv.key, tuple) and recv.key and recv.key[0] == 'counts' and recv.key[2] is not None:
                return TV(recv.shape, dom=grouped_dim(recv.key[2], recv.key[1]))
            if m in ('abs', 'sqrt', 'square', 'exp', 'log', 'sin', 'cos', 'neg', 'sign', 'pow', 'cumsum', 'nan_to_num', 'softmax'):
                return TV(recv.shape)
            if m == 'flip':
                return TV(recv.shape, recv.dom)
            return same
        if m in ('size',):
            if not args:
                return SizeV(recv.shape)
            i = self.intval(A(0))
            if i is None:
                return IntV()
            a = norm_axis(i, recv)
            if a is None:
                return IntV()
            d0 = recv.shape[a]
            return IntV(val=d0[1]) if d0[0] == 'lit' else IntV(of=d0)
        if m in ('dim', 'ndimension'):
            return IntV(val=len(recv.shape)) if recv.rank_known() else IntV()
        if m in ('numel', 'nelement', 'item', 'any', 'all', 'tolist'):
            if m in ('any', 'all') and (args or c.keywords):
                return self.reduce(recv, K('dim', 0), self.boolval(K('keepdim', 1, IntV(val=False))))
            return IntV()
        if m == 'unsqueeze':
            i = self.intval(A(0))
            if i is None:
                return TOP
            sh = list(recv.shape)
            if i < 0:
                pos = len(sh) + i + 1
                if pos < (1 if not recv.rank_known() else 0):
                    return TOP
            else:
                if not recv.rank_known():
                    return TOP
                pos = i
            sh.insert(pos, lit(1))
            return TV(sh, recv.dom, recv.mask, recv.key, recv.contr)
        if m == 'squeeze':
            if not args:
                return TV([d0 for d0 in recv.shape if d0 != lit(1)], recv.dom, recv.mask, recv.key)
            i = self.intval(A(0))
            a = norm_axis(i, recv) if i is not None else None
            if a is None:
                return TOP
            sh = list(recv.shape)
            if sh[a] == lit(1):
                del sh[a]
            return TV(sh, recv.dom, recv.mask, recv.key)
        if m in ('expand', 'view', 'reshape', 'repeat', 'tile'):
            s = self.size_from_args(args, env)
            if s is None:
                if m in ('view', 'reshape'):
                    return self.view_minus1(args, env, recv)
                return TOP
            if m == 'expand':
                dims = list(s.dims)
                for i in range(1, len(dims) + 1):
                    if dims[-i] == lit(-1):
                        if i <= len(recv.shape) and recv.shape[-i][0] != 'batch':
                            dims[-i] = recv.shape[-i]
                        else:
                            return TOP
                return TV(dims, recv.dom, recv.mask, recv.key)
            if m in ('view', 'reshape'):
                dims = [self.fresh(('view', dump(c), i), 'v') if d0 == lit(-1) else d0 for i, d0 in enumerate(s.dims)]
                if len(s.dims) == 2 and s.dims[0] == lit(-1) and s.dims[1] == lit(1):
                    fn = self.flat_name(recv, 1)
                    if fn:
                        dims[0] = sym(fn)       # row-major flattening: the ORDER of the merged axes is part of the type
                return TV(dims, None)
            if m in ('repeat', 'tile') and len(s.dims) == 2 and s.dims[1] == lit(1) and len(recv.shape) == 2 and recv.shape[1] == lit(1) \
                    and recv.shape[0][0] == 'sym' and s.dims[0][0] == 'sym':
                inner = recv.shape[0][1]
                inner = inner[5:-1] if inner.startswith('prod(') else inner
                return TV((sym('prod(%s*%s)' % (s.dims[0][1], inner)), lit(1)))
            if m in ('repeat', 'tile'):
                reps = s.dims
                sh = list(recv.shape)
                if len(reps) <= len(sh) and all(d0[0] != 'batch' for d0 in sh[len(sh) - len(reps):]):
                    for i in range(1, len(reps) + 1):
                        if reps[-i] != lit(1):
                            sh[-i] = self.fresh(('tile', dump(c), i), 't')
                    return TV(sh, recv.dom)
                return TOP
        if m in ('expand_as', 'view_as') and args:
            o = A(0)
            return TV(o.shape, recv.dom if m == 'expand_as' else None, recv.mask) if isinstance(o, TV) else TOP
        if m in ('sum', 'mean', 'norm', 'std', 'var', 'prod', 'amax', 'amin', 'logsumexp', 'median'):
            dimv = K('dim', 0 if m != 'norm' else 1)
            keep = self.boolval(K('keepdim', 1 if m != 'norm' else 2, IntV(val=False)))
            if dimv is None:
                return TV(())
            return self.reduce(recv, dimv, keep)
        if m in ('argmin', 'argmax'):
            dimv = K('dim', 0)
            return self.reduce(recv, dimv, self.boolval(K('keepdim', 1, IntV(val=False))), index_result=True) if dimv is not None else TOP
        if m in ('min', 'max'):
            dimv = K('dim', 0)
            if dimv is None:
                return TV(())
            if isinstance(dimv, TV):
                return TV(broadcast(recv.shape, dimv.shape) or ())
            return self.reduce(recv, dimv, self.boolval(K('keepdim', 1, IntV(val=False))), both=True)
        if m in ('argsort', 'sort'):
            dimv = K('dim', 0, IntV(val=-1))
            ax = self.intval(dimv)
            a = norm_axis(ax, recv) if ax is not None else None
            if a is None:
                return TOP
            gkey = ('grouporder',) + tuple(recv.key[1:]) if isinstance(recv.key, tuple) and recv.key and recv.key[0] == 'inverse' else None
            idx = TV(recv.shape, dom=recv.shape[a] if recv.shape[a][0] == 'sym' else None, key=gkey)
            return idx if m == 'argsort' else TupV([TV(recv.shape), idx])
        if m == 'topk':
            kv = K('k', 0)
            dimv = K('dim', 1, IntV(val=-1))
            ax = self.intval(dimv)
            a = norm_axis(ax, recv) if ax is not None else None
            if a is None:
                return TOP
            sh = list(recv.shape)
            d0 = sh[a]
            kd = as_dim(kv) if isinstance(kv, IntV) else None
            sh[a] = kd if kd is not None else self.fresh(('topk', dump(c)), 'k')
            return TupV([TV(sh), TV(sh, dom=d0 if d0[0] == 'sym' else None)])
        if m == 'gather':
            return self.gather(c, recv, K('dim', 0), K('index', 1))
        if m == 'index_select':
            return self.index_select(c, recv, A(0), A(1))
        if m in ('index_add_', 'index_copy_', 'index_fill_', 'index_add', 'index_copy', 'scatter_', 'scatter_add_', 'scatter', 'scatter_add'):
            ax = self.intval(A(0))
            a = norm_axis(ax, recv) if ax is not None else None
            idx = A(1)
            if a is None:
                self.unknown += 1
            else:
                self.check_domain(c, idx, recv.shape[a], '%s index' % m)
                srcv = A(2)
                if m.startswith('index_') and isinstance(srcv, TV) and isinstance(idx, TV) and len(idx.shape) == 1 and m not in ('index_fill_',):
                    sa = norm_axis(ax, srcv)
                    if sa is not None and srcv.shape[sa] != idx.shape[0] and srcv.shape[sa][0] == 'sym' and idx.shape[0][0] == 'sym':
                        self.report(c, '%s: index has extent `%s` but the source axis has extent `%s`' % (m, idx.shape[0][1], srcv.shape[sa][1]))
            return same
        if m in ('transpose', 'swapaxes', 'swapdims'):
            i, j = self.intval(A(0)), self.intval(A(1))
            ai, aj = (norm_axis(i, recv) if i is not None else None), (norm_axis(j, recv) if j is not None else None)
            if ai is None or aj is None:
                return TOP
            sh = list(recv.shape)
            sh[ai], sh[aj] = sh[aj], sh[ai]
            return TV(sh)
        if m in ('flatten',):
            return TOP
        if m in ('unflatten',):
            return TOP
        if m in ('matmul',):
            o = A(0)
            return self.matmul(recv, o) if isinstance(o, TV) else TOP
        if m in ('det', 'inverse'):
            return TV(recv.shape[:-2]) if m == 'det' and len(recv.shape) >= 2 else same
        self.unknown += 1
        return TOP

    def flat_name(self, recv, keep_tail):
        """ordered product name of the axes of recv that a reshape(-1, <keep_tail literal dims>) merges"""
        dims = [d0 for d0 in recv.shape if d0 != lit(1)]
        if not dims or any(d0[0] == 'lit' for d0 in dims):
            return None
        return 'prod(' + '*'.join(str(d0[1]) for d0 in dims) + ')'

    def view_minus1(self, args, env, recv):
        dims = []
        for a in args:
            v = self.ev(a, env)
            if isinstance(v, IntV) and v.val == -1:
                dims.append(self.fresh(('view', dump(a), id(recv)), 'v'))
            else:
                dd = as_dim(v)
                if dd is None:
                    if isinstance(v, (SizeV, TupV)):
                        s = self.to_size(v)
                        if s is None:
                            return TOP
                        dims.extend(s.dims)
                        continue
                    return TOP
                dims.append(dd)
        return TV(dims)
