"""UNUSED rule: a parameter that a function accepts is read by it.

An option that is accepted and then ignored is the purest plumbing defect: the caller's value has no effect and nothing says so (`jacrev(f, argnums=1)`
differentiating with respect to argument 0, an `alpha` that one of eight type implementations never applies).  The rule is exact for "never read";
the 37 parameters of today's tree that are legitimately unread were each looked at and are tabled below with the reason (interface stubs of the type
base class, callback signatures fixed by torch, options documented as not implemented).  Any other unread parameter is a finding.
"""
import ast
from .core import RuleResult, Finding, AnalysisError, guarded

# (module, qualified function, parameter) -> reason
EXEMPT = {}
_R1 = 'abstract operation of the LieType base class: raises / is overridden by every concrete type'
for _q, _ps in (('LieType.Log', ['X']), ('LieType.Exp', ['x']), ('LieType.Act', ['X', 'p']), ('LieType.Mul', ['X', 'Y']), ('LieType.Adj', ['X', 'a']),
                ('LieType.AdjT', ['X', 'a']), ('LieType.Jinvp', ['X', 'p'])):
    for _p in _ps:
        EXEMPT[('pypose.lietensor.lietensor', _q, _p)] = _R1
EXEMPT[('pypose.lietensor.lietensor', 'LieTensor.__new__', 'ltype')] = '__new__ / __init__ pair: ltype is consumed by __init__'
EXEMPT[('pypose.lietensor.lietensor', 'Parameter.__init__', 'requires_grad')] = '__new__ / __init__ pair: consumed by __new__'
EXEMPT[('pypose.lietensor.lietensor', 'Parameter.__init__', 'sjac')] = '__new__ / __init__ pair: consumed by __new__'
EXEMPT[('pypose', '_format_sparse_backend_error', 'feature')] = 'message helper of the optional backend (not in the scope of any property)'
EXEMPT[('pypose.module.dynamics', 'System.forward_hook', 'module')] = 'signature fixed by torch.nn.Module.register_forward_hook'
EXEMPT[('pypose.module.dynamics', 'System.forward_hook', 'inputs')] = 'signature fixed by torch.nn.Module.register_forward_hook'
EXEMPT[('pypose.module.dynamics', 'System.forward_hook', 'outputs')] = 'signature fixed by torch.nn.Module.register_forward_hook'
EXEMPT[('pypose.module.dynamics', 'LTV.set_refpoint', 'state')] = 'a linear system has no reference state: interface shared with NLS.set_refpoint'
EXEMPT[('pypose.module.dynamics', 'LTV.set_refpoint', 'input')] = 'a linear system has no reference input: interface shared with NLS.set_refpoint'
for _q in ('LQR.lqr_backward', 'LQR.lqr_forward'):
    for _p in ('u_lower', 'u_upper', 'du'):
        EXEMPT[('pypose.module.lqr', _q, _p)] = 'documented control bounds that the pinned tree does not implement (reported by sub-agents, not part of C14)'
for _p in ('u_lower', 'u_upper', 'du'):
    EXEMPT[('pypose.module.mpc', 'MPC.forward', _p)] = 'documented control bounds that the pinned tree does not implement (reported by sub-agents, not part of C14)'
EXEMPT[('pypose.optim.optimizer', 'RobustModel.__init__', 'auto')] = 'legacy flag kept for compatibility, never read on the pinned tree'
EXEMPT[('pypose.optim.scheduler', 'StopOnPlateau.step', 'loss')] = 'the scheduler reads optimizer.loss; the argument is kept for the torch scheduler calling convention'


def unread_params(fnode):
    a = fnode.args
    params = [x.arg for x in a.posonlyargs + a.args + a.kwonlyargs if x.arg not in ('self', 'cls', 'ctx')]
    stmts = [s for s in fnode.body if not (isinstance(s, ast.Expr) and isinstance(s.value, ast.Constant))]
    if not stmts or (len(stmts) == 1 and isinstance(stmts[0], (ast.Raise, ast.Pass))):
        return []
    if len(stmts) == 1 and isinstance(stmts[0], ast.Return) and (stmts[0].value is None or isinstance(stmts[0].value, (ast.Constant, ast.Name))):
        return []
    used = {n.id for n in ast.walk(fnode) if isinstance(n, ast.Name) and isinstance(n.ctx, ast.Load)}
    # locals() / vars() / **kwargs forwarding make every parameter "read"
    if any(isinstance(n, ast.Call) and isinstance(n.func, ast.Name) and n.func.id in ('locals', 'vars') for n in ast.walk(fnode)):
        return []
    return [p for p in params if p not in used]


def _is_setup_context(f):
    return f.node.name == 'setup_context'


@guarded
def rule_unused(repo, rid, modules, floor=5):
    res = RuleResult(rid, 'every parameter a function of these modules accepts is read by it (autograd setup_context callbacks and the tabled interface stubs '
                     'excepted): an accepted option that is never read silently ignores the caller\'s value', floor=floor)
    seen_exempt = set()
    for m in modules:
        for f in repo.functions_view(m):
            un = unread_params(f.node)
            if _is_setup_context(f):
                un = []                                  # (ctx, inputs, output): signature fixed by torch.autograd.Function
            res.inst({'function': f.fq, 'unread parameters': un}, f.fq)
            for p in un:
                key = (f.module.name, f.qual, p)
                if key in EXEMPT:
                    seen_exempt.add(key)
                    continue
                res.add(Finding(rid, f, '%s accepts the parameter `%s` and never reads it: whatever the caller passes has no effect' % (f.qual, p),
                                construct='unread parameter|' + p))
    res.notes.append('%d tabled exemptions seen in these modules' % len(seen_exempt))
    fx = ast.parse('def f(x, alpha=1, *, k=None):\n    return x + k\ndef g(x, y):\n    raise NotImplementedError\n').body
    if unread_params(fx[0]) != ['alpha'] or unread_params(fx[1]):
        raise AnalysisError('%s: fixtures no longer classified' % rid)
    return res
