"""C20 - stopping controllers: latch, reset completeness, budget, patience, driver loops."""
import ast
from ..core import RuleResult, Finding, AnalysisError, dotted, src, norm_construct, ClassInfo, guarded, guarded_list
from .. import paths

SCHED = 'pypose.optim.scheduler'
STEP = 'pypose.utils.stepper'
CONTROLLERS = [(SCHED, 'StopOnPlateau'), (STEP, 'ReduceToBason')]
DRIVERS = [(SCHED, 'StopOnPlateau.optimize'), ('pypose.module.mpc', 'MPC.forward'), ('pypose.module.icp', 'ICP.forward')]


def attr_stores(fnode, base='self'):
    """[(attr, value expr or None, stmt)] for every store to base.attr in fnode (tuple targets unpacked)."""
    out = []

    def tgt(t, v, st):
        if isinstance(t, (ast.Tuple, ast.List)):
            if isinstance(v, (ast.Tuple, ast.List)) and len(v.elts) == len(t.elts):
                for a, b in zip(t.elts, v.elts):
                    tgt(a, b, st)
            else:
                for a in t.elts:
                    tgt(a, None, st)
        elif isinstance(t, ast.Attribute) and dotted(t.value) == base:
            out.append((t.attr, v, st))
    for n in ast.walk(fnode):
        if isinstance(n, ast.Assign):
            for t in n.targets:
                tgt(t, n.value, n)
        elif isinstance(n, ast.AugAssign):
            if isinstance(n.target, ast.Attribute) and dotted(n.target.value) == base:
                out.append((n.target.attr, ast.BinOp(n.target, n.op, n.value), n))
        elif isinstance(n, ast.AnnAssign) and n.value is not None:
            tgt(n.target, n.value, n)
    return out


def class_chain(repo, ci):
    return [c for c in repo.mro(ci) if isinstance(c, ClassInfo)]


def method_writes(repo, ci, name, seen=None):
    """attrs of self written by method `name` of class ci, following self.m() calls"""
    seen = seen if seen is not None else set()
    f = repo.find_method(ci, name)
    if f is None or f.fq in seen:
        return set()
    seen.add(f.fq)
    out = {a for a, _, _ in attr_stores(f.node)}
    for c in paths.calls_in(f.node):
        if isinstance(c.func, ast.Attribute) and dotted(c.func.value) == 'self':
            out |= method_writes(repo, ci, c.func.attr, seen)
    return out


@guarded
def rule_latch(repo, tier):
    res = RuleResult('C20.LATCH', '_continual is set True only in __init__/reset and only False in step; nobody else writes it', floor=6)
    owners = set()
    for mod, cn in CONTROLLERS:
        ci = repo.cls(mod, cn)
        for c in class_chain(repo, ci):
            owners.add(c.fq)
            for mname, f in c.methods.items():
                for attr, val, st in attr_stores(f.node):
                    if attr != '_continual':
                        continue
                    lit = val.value if isinstance(val, ast.Constant) else '?'
                    res.inst({'function': f.fq, 'value': lit, 'line': st.lineno}, (f.fq, norm_construct(st, f.node)))
                    if mname in ('__init__', 'reset'):
                        if lit is not True:
                            res.add(Finding('C20.LATCH', f, '%s must initialise the latch to True, writes %s' % (mname, src(val) if val else '?'), node=st))
                    elif mname == 'step':
                        if lit is not False:
                            res.add(Finding('C20.LATCH', f, 'step may only clear the latch (once false it stays false until reset); writes %s'
                                            % (src(val) if val else '?'), node=st))
                    else:
                        res.add(Finding('C20.LATCH', f, 'method %s writes the latch; only __init__/reset/step may' % mname, node=st))
    # who-may-write: nobody outside the controller classes
    for f in repo.all_functions():
        if f.cls is not None and f.cls.fq in owners:
            continue
        for n in ast.walk(f.node):
            if isinstance(n, ast.Attribute) and n.attr == '_continual' and isinstance(n.ctx, (ast.Store, ast.Del)):
                res.inst({'function': f.fq, 'external_write': True})
                res.add(Finding('C20.LATCH', f, 'the latch of a controller is written outside the controller classes', node=n))
    return res


@guarded
def rule_reset(repo, tier):
    res = RuleResult('C20.RESET', 'for every controller with reset(): attributes written by step are re-initialised by reset', floor=2)
    for mod, cn in CONTROLLERS:
        ci = repo.cls(mod, cn)
        if repo.find_method(ci, 'reset') is None:
            res.inst({'class': ci.fq, 'reset': None, 'note': 'no reset method: nothing to decide'})
            continue
        w_step = method_writes(repo, ci, 'step')
        w_reset = method_writes(repo, ci, 'reset')
        res.inst({'class': ci.fq, 'step_writes': sorted(w_step), 'reset_writes': sorted(w_reset)})
        stepf = repo.find_method(ci, 'step')
        for a in sorted(w_step - w_reset):
            res.add(Finding('C20.RESET', stepf, 'step writes self.%s but reset() does not restore it: a reset controller '
                            'differs from a fresh one' % a, construct='self.%s not reset' % a))
    return res


# ----- tiny linear normaliser:  expr -> (coeff of steps, coeff of max_steps, const) or None

def _lin(e, names):
    if isinstance(e, ast.Constant) and isinstance(e.value, (int, float)) and not isinstance(e.value, bool):
        return {'c': e.value}
    d = dotted(e)
    if d in names:
        return {names[d]: 1}
    if isinstance(e, ast.BinOp) and isinstance(e.op, (ast.Add, ast.Sub)):
        a, b = _lin(e.left, names), _lin(e.right, names)
        if a is None or b is None:
            return None
        s = 1 if isinstance(e.op, ast.Add) else -1
        out = dict(a)
        for k, v in b.items():
            out[k] = out.get(k, 0) + s * v
        return out
    if isinstance(e, ast.UnaryOp) and isinstance(e.op, ast.USub):
        a = _lin(e.operand, names)
        return None if a is None else {k: -v for k, v in a.items()}
    return None


def guard_offset(test, truth, names):
    """test (taken with `truth`) as  S - M >= off  -> off ; None if not a guard over (S, M)"""
    if isinstance(test, ast.UnaryOp) and isinstance(test.op, ast.Not):
        return guard_offset(test.operand, not truth, names)
    if not (isinstance(test, ast.Compare) and len(test.ops) == 1):
        return None
    l, r = _lin(test.left, names), _lin(test.comparators[0], names)
    if l is None or r is None:
        return None
    d = dict(l)
    for k, v in r.items():
        d[k] = d.get(k, 0) - v        # d = left - right
    s, m, c = d.get('S', 0), d.get('M', 0), d.get('c', 0)
    op = test.ops[0]
    # orient to  S - M + c' (op) 0
    if (s, m) == (-1, 1):
        s, m, c = 1, -1, -c
        op = {ast.Lt: ast.Gt, ast.Gt: ast.Lt, ast.LtE: ast.GtE, ast.GtE: ast.LtE}.get(type(op), type(op))()
    if (s, m) != (1, -1):
        return None
    # S - M + c op 0 ; integers
    if isinstance(op, ast.GtE):
        lo = -c           # S - M >= -c
        return lo if truth else ('lt', lo)
    if isinstance(op, ast.Gt):
        lo = -c + 1
        return lo if truth else ('lt', lo)
    if isinstance(op, ast.Lt):       # S - M < -c  ; false branch: S - M >= -c
        lo = -c
        return ('lt', lo) if truth else lo
    if isinstance(op, ast.LtE):
        lo = -c + 1
        return ('lt', lo) if truth else lo
    if isinstance(op, ast.Eq):
        return ('eq', -c) if truth else None
    return None


def _is_latch_clear(st):
    return any(a == '_continual' and isinstance(v, ast.Constant) and v.value is False for a, v, _ in attr_stores(ast.Module([st], [])))


def _incr_amount(st, attr):
    """amount by which a statement increments self.<attr>, 'set' for other writes, None if it does not write it"""
    for a, v, s in attr_stores(ast.Module([st], [])):
        if a != attr:
            continue
        l = _lin(v, {'self.' + attr: 'S'}) if v is not None else None
        if l is not None and l.get('S', 0) == 1:
            return l.get('c', 0)
        if isinstance(v, ast.Constant):
            return ('set', v.value)
        return ('set', None)
    return None


def step_paths(f, words):
    rel = lambda n: (isinstance(n, ast.Attribute) and n.attr in words)
    p, _ = paths.function_paths(f.node, limit=4096, relevant=rel)
    return p


@guarded
def rule_budget(repo, tier):
    res = RuleResult('C20.BUDGET', 'on every path of step: steps += 1 exactly once and an unconditional guard equivalent to '
                     'completed_steps >= max_steps clears the latch', floor=4)
    for mod, cn in CONTROLLERS:
        ci = repo.cls(mod, cn)
        f = repo.find_method(ci, 'step')
        if f is None:
            raise AnalysisError('C20.BUDGET: %s has no step' % cn)
        names = {'self.steps': 'S', 'self.max_steps': 'M'}
        pths = step_paths(f, {'steps', 'max_steps', '_continual'})
        bad = {}
        for ev, ex in pths:
            if ex not in ('fall', 'return'):
                continue
            inc, guards, cleared_after_guard = 0, [], False
            pending = None
            for e in ev:
                if e[0] == 'stmt':
                    a = _incr_amount(e[1], 'steps')
                    if a is not None:
                        if isinstance(a, tuple):
                            bad.setdefault('steps is overwritten (%s) in step' % src(e[1])[:60], e[1])
                        else:
                            inc += a
                    if pending is not None and _is_latch_clear(e[1]):
                        cleared_after_guard = True
                elif e[0] == 'assume':
                    off = guard_offset(e[1], e[2], names)
                    if off is not None:
                        guards.append((off, inc, e[1]))
                        pending = off if not isinstance(off, tuple) else None
                    elif pending is not None and not _mentions(e[1], {'verbose'}):
                        pending = pending   # other branches do not cancel the obligation; clearing must still follow
            if inc != 1:
                bad.setdefault('steps is incremented by %s on a path through step (must be exactly 1)' % inc, f.node)
            if not guards:
                bad.setdefault('a path through step does not evaluate the budget guard (guard missing or nested under another condition)', f.node)
            for off, inc_before, test in guards:
                if isinstance(off, tuple):
                    lo = off[1]
                    # false branch of the guard; still verify its threshold
                else:
                    lo = off
                    if not cleared_after_guard:
                        bad.setdefault('budget guard `%s` holds but the latch is not cleared on that path' % src(test), test)
                # guard true  <=>  S_now - M >= lo ; S_now = old + inc_before ; want  old + 1 - M >= 0
                if lo + (1 - inc_before) != 0:
                    bad.setdefault('budget guard `%s` fires from completed step max_steps%+d instead of max_steps'
                                   % (src(test), lo + (1 - inc_before)), test)
        res.inst({'function': f.fq, 'paths': len(pths)}, f.fq)
        res.inst({'function': f.fq, 'guards': sorted({src(e[1]) for ev, ex in pths for e in ev if e[0] == 'assume' and guard_offset(e[1], e[2], names) is not None})}, f.fq + '#g')
        for msg, node in bad.items():
            res.add(Finding('C20.BUDGET', f, msg, node=node if node is not f.node else None, construct=msg if node is f.node else ''))
    return res


def _mentions(e, attrs):
    return any(isinstance(n, ast.Attribute) and n.attr in attrs for n in ast.walk(e))


@guarded
def rule_pat(repo, tier):
    res = RuleResult('C20.PAT', 'patience_count is either incremented by one or zeroed exactly once per step, the guard '
                     '>= patience clears the latch; the rejection / tol clauses clear the latch', floor=4)
    for mod, cn in CONTROLLERS:
        ci = repo.cls(mod, cn)
        f = repo.find_method(ci, 'step')
        names = {'self.patience_count': 'S', 'self.patience': 'M'}
        pths = step_paths(f, {'patience_count', 'patience', '_continual', 'reject_count', 'tol'})
        bad = {}
        kinds = set()
        for ev, ex in pths:
            if ex not in ('fall', 'return'):
                continue
            writes, guard_seen, pending, cleared = [], False, False, False
            special = {'reject_count': [False, False], 'tol': [False, False]}   # [condition true on path, cleared after]
            active_special = None
            for e in ev:
                if e[0] == 'stmt':
                    a = _incr_amount(e[1], 'patience_count')
                    if a is not None:
                        writes.append(a)
                        if guard_seen:
                            bad.setdefault('patience_count is updated after its guard was evaluated', e[1])
                    if _is_latch_clear(e[1]):
                        if pending:
                            cleared = True
                        if active_special:
                            special[active_special][1] = True
                elif e[0] == 'assume':
                    off = guard_offset(e[1], e[2], names)
                    if off is not None:
                        guard_seen = True
                        if not isinstance(off, tuple):
                            pending = True
                            if off != 0:
                                bad.setdefault('patience guard `%s` is off by %+d from patience_count >= patience' % (src(e[1]), off), e[1])
                        elif off[0] == 'lt' and off[1] != 0:
                            bad.setdefault('patience guard `%s` is off by %+d from patience_count >= patience' % (src(e[1]), off[1]), e[1])
                        continue
                    for key in special:
                        if _mentions(e[1], {key}) and not _mentions(e[1], {'patience_count'}):
                            pos = _positive(e[1], e[2], key)
                            if pos:
                                special[key][0] = True
                                active_special = key
            if len(writes) != 1:
                bad.setdefault('patience_count is written %d times on a path through step (must be exactly once)' % len(writes), f.node)
            else:
                w = writes[0]
                kinds.add('inc' if w == 1 else 'zero' if w == ('set', 0) else 'other')
                if w != 1 and w != ('set', 0):
                    bad.setdefault('patience_count update is neither +1 nor reset to 0: %s' % (w,), f.node)
            if not guard_seen:
                bad.setdefault('a path through step does not evaluate the patience guard', f.node)
            if pending and not cleared:
                bad.setdefault('patience guard holds but the latch is not cleared on that path', f.node)
            for key, (hit, clr) in special.items():
                if hit and not clr:
                    bad.setdefault('%s clause holds but the latch is not cleared on that path' % key, f.node)
        if kinds and kinds != {'inc', 'zero'}:
            bad.setdefault('patience_count must be incremented on failing steps and zeroed otherwise; found %s' % sorted(kinds), f.node)
        need = 'reject_count' if cn == 'StopOnPlateau' else 'tol'
        has = any(e[0] == 'assume' and _mentions(e[1], {need}) for ev, ex in pths for e in ev)
        if not has:
            bad.setdefault('the documented %s stopping clause is missing from step' % need, f.node)
        res.inst({'function': f.fq, 'paths': len(pths), 'update_kinds': sorted(kinds)}, f.fq)
        res.inst({'function': f.fq, 'clause': need, 'present': has}, f.fq + need)
        for msg, node in bad.items():
            res.add(Finding('C20.PAT', f, msg, node=node if node is not f.node else None, construct=msg if node is f.node else ''))
    return res


def _positive(test, truth, key):
    """is this branch the one where the stopping clause (reject_count > 0 / loss < tol) holds?"""
    if isinstance(test, ast.Call) and dotted(test.func) == 'hasattr':
        return False
    if isinstance(test, ast.UnaryOp) and isinstance(test.op, ast.Not):
        return _positive(test.operand, not truth, key)
    return truth


def _continual_truth(test, truth):
    """does `test` evaluating to `truth` imply that some <ctl>.continual() returned True?"""
    if isinstance(test, ast.UnaryOp) and isinstance(test.op, ast.Not):
        return _continual_truth(test.operand, not truth)
    if isinstance(test, ast.Call) and isinstance(test.func, ast.Attribute) and test.func.attr == 'continual':
        return truth
    if isinstance(test, ast.BoolOp) and isinstance(test.op, ast.And) and truth:
        return any(_continual_truth(v, True) for v in test.values)
    if isinstance(test, ast.BoolOp) and isinstance(test.op, ast.Or) and not truth:
        return any(_continual_truth(v, False) for v in test.values)
    return False


def _unguarded_steps(f, res):
    ctls = {dotted(c.func.value) for c in paths.calls_in(f.node) if isinstance(c.func, ast.Attribute) and c.func.attr == 'continual'}
    ctls.discard(None)
    if len(ctls) != 1:
        return False
    ctl = ctls.pop()
    loops = [n for n in ast.walk(f.node) if isinstance(n, (ast.While, ast.For)) and
             any(isinstance(c.func, ast.Attribute) and c.func.attr == 'step' and dotted(c.func.value) not in (None, ctl) for c in paths.calls_in(n))]
    if not loops:
        return False
    found = False
    for loop in loops:
        pths, _ = paths.function_paths(f.node, limit=4096, unroll=lambda l: 2)
        bad = None
        n_steps = 0
        for ev, ex in pths:
            asked = False
            for e in ev:
                if e[0] == 'head' and e[1] is loop:
                    asked = False
                elif e[0] == 'assume' and _continual_truth(e[1], e[2]):
                    asked = True
                elif e[0] == 'stmt':
                    for c in paths.calls_in(e[1]):
                        if isinstance(c.func, ast.Attribute) and c.func.attr == 'step' and dotted(c.func.value) not in (None, ctl):
                            n_steps += 1
                            if not asked and bad is None:
                                bad = e[1]
        if n_steps:
            found = True
            res.inst({'function': f.fq, 'controller': ctl, 'loop': 'not headed by continual()', 'every step after a positive answer': bad is None}, f.fq)
            if bad is not None:
                res.add(Finding('C20.DRV', f, 'the driver loop takes an optimizer step (`%s`) before %s.continual() was asked in that iteration: a controller '
                                'that has already stopped (budget, patience, rejection) is stepped again, and its step count exceeds the budget'
                                % (src(bad)[:60], ctl), node=bad, construct='step before continual'))
    return found


@guarded
def rule_drv(repo, tier):
    res = RuleResult('C20.DRV', 'driver loops: step the controller exactly once on every iteration path, never reset or write '
                     'it inside the loop, reset it before the loop (external controllers)', floor=3)
    for mod, q in DRIVERS:
        f = repo.func(mod, q)
        loops = [n for n in ast.walk(f.node) if isinstance(n, ast.While) and
                 any(isinstance(c.func, ast.Attribute) and c.func.attr == 'continual' for c in paths.calls_in(n.test))]
        if not loops:
            # a loop that is not headed by the controller's test: every optimizer step in it must still come after a positive continual() answer
            # obtained in the same iteration - otherwise a stopped controller is stepped again (once false it stays false, budget exceeded)
            if _unguarded_steps(f, res):
                continue
            raise AnalysisError('C20.DRV: %s has no controller-driven while loop' % f.fq)
        for loop in loops:
            ctl = [dotted(c.func.value) for c in paths.calls_in(loop.test)
                   if isinstance(c.func, ast.Attribute) and c.func.attr == 'continual'][0]
            if ctl is None:
                raise AnalysisError('C20.DRV: cannot name the controller object in %s' % f.fq)

            def rel(n, ctl=ctl):
                d = dotted(n) if isinstance(n, ast.Attribute) else None
                return d is not None and (d == ctl or d.startswith(ctl + '.'))
            pths, _ = paths.function_paths(f.node, limit=4096, relevant=rel)
            bad = {}
            for ev, ex in pths:
                inside, steps_this_iter, reset_before, entered = False, 0, False, False
                for e in ev:
                    if e[0] == 'head' and e[1] is loop:
                        if inside and steps_this_iter != 1:
                            bad.setdefault('an iteration path of the driver loop calls %s.step %d times (must be exactly once)' % (ctl, steps_this_iter), loop)
                        if not entered and ctl != 'self' and not reset_before:
                            bad.setdefault('%s.reset() is not called before the driver loop: a controller left stopped by an earlier run ends this one at once' % ctl, loop)
                        entered = True
                        inside, steps_this_iter = False, 0
                    elif e[0] == 'assume' and e[1] is loop.test:
                        inside = e[2]
                    elif e[0] == 'stmt':
                        for c in paths.calls_in(e[1]):
                            if isinstance(c.func, ast.Attribute) and dotted(c.func.value) == ctl:
                                if c.func.attr == 'step':
                                    if inside:
                                        steps_this_iter += 1
                                elif c.func.attr == 'reset':
                                    if inside:
                                        bad.setdefault('%s.reset() inside the driver loop defeats the step budget' % ctl, e[1])
                                    elif not entered:
                                        reset_before = True
                        if inside:
                            for n in ast.walk(e[1]):
                                if isinstance(n, ast.Attribute) and isinstance(n.ctx, ast.Store) and (dotted(n.value) or '') == ctl and ctl != 'self':
                                    bad.setdefault('controller state %s.%s is written inside the driver loop' % (ctl, n.attr), e[1])
                                if isinstance(n, ast.Attribute) and isinstance(n.ctx, ast.Store) and ctl == 'self' and dotted(n.value) == 'self' \
                                        and n.attr in ('_continual', 'steps', 'max_steps', 'patience_count'):
                                    bad.setdefault('controller state self.%s is written inside the driver loop' % n.attr, e[1])
                    elif e[0] in ('back',) and e[1] is loop:
                        pass
                # path may end (return/raise/break) inside the loop body: only normal completion of an iteration is constrained
            res.inst({'function': f.fq, 'controller': ctl, 'paths': len(pths)}, f.fq)
            for msg, node in bad.items():
                res.add(Finding('C20.DRV', f, msg, node=node))
    return res




# ---------------------------------------------------------------- CLAUSE: exact form of the documented stopping clauses

def _walk_tests(f):
    for n in ast.walk(f.node):
        if isinstance(n, ast.If):
            yield n


def _enclosing_tests(fnode, target):
    """the If / While statements whose body or orelse (transitively) contains `target`"""
    out = []

    def rec(stmts, stack):
        for st in stmts:
            if st is target:
                out.extend(stack)
                return True
            if isinstance(st, (ast.If, ast.While)):
                if rec(st.body, stack + [st]) or rec(st.orelse, stack + [st]):
                    return True
            elif isinstance(st, (ast.For, ast.With, ast.Try)):
                for fld in ('body', 'orelse', 'finalbody'):
                    if rec(getattr(st, fld, []) or [], stack):
                        return True
        return False
    rec(fnode.body, [])
    return out


@guarded
def rule_clause(repo, tier):
    from ..expr import parities
    res = RuleResult('C20.CLAUSE', 'the documented stopping clauses have their documented form: StopOnPlateau stops as soon as the last '
                     'optimizer step involved any rejection (reject_count >= 1); ReduceToBason stops when ALL losses are below tol; the '
                     'patience counter grows when (previous - current) loss is below `decreasing` (previous with even, current with odd parity)',
                     floor=4)
    # rejection clause
    f = repo.find_method(repo.cls(SCHED, 'StopOnPlateau'), 'step')
    hit = 0
    for n in _walk_tests(f):
        t = n.test
        if any(isinstance(x, ast.Attribute) and x.attr == 'reject_count' for x in ast.walk(t)) and isinstance(t, (ast.Compare, ast.UnaryOp)):
            hit += 1
            names = {}
            for x in ast.walk(t):
                if isinstance(x, ast.Attribute) and x.attr == 'reject_count':
                    names[dotted(x)] = 'S'
            off = None
            cmp_ = t
            truth = True
            while isinstance(cmp_, ast.UnaryOp) and isinstance(cmp_.op, ast.Not):
                cmp_, truth = cmp_.operand, not truth
            ok = False
            if isinstance(cmp_, ast.Compare) and len(cmp_.ops) == 1:
                l, r = _lin(cmp_.left, names), _lin(cmp_.comparators[0], names)
                if l is not None and r is not None:
                    d = dict(l)
                    for k, v in r.items():
                        d[k] = d.get(k, 0) - v
                    s, c = d.get('S', 0), d.get('c', 0)
                    op = cmp_.ops[0]
                    # normalise to  S >= k  (integers) on the branch that clears the latch
                    k = None
                    if s == 1:
                        k = {ast.Gt: -c + 1, ast.GtE: -c, ast.NotEq: (1 if c == 0 else None)}.get(type(op))
                    elif s == -1:
                        k = {ast.Lt: c + 1, ast.LtE: c}.get(type(op))
                    ok = truth and k == 1
            res.inst({'function': f.fq, 'clause': src(t), 'fires_on_first_rejection': ok}, 'rej')
            if not ok:
                res.add(Finding('C20.CLAUSE', f, 'rejection clause `%s` is not equivalent to reject_count >= 1: a step that was rejected at least '
                                'once (but not as often as the clause demands) no longer stops the scheduler' % src(t), node=n.test))
    if hit == 0:
        res.add(Finding('C20.CLAUSE', f, 'StopOnPlateau.step has no clause on optimizer.reject_count', construct='rej missing'))
    # tol clause
    g = repo.find_method(repo.cls(STEP, 'ReduceToBason'), 'step')
    hit = 0
    tol_sites = []
    for n in _walk_tests(g):
        t = n.test
        if any(dotted(x) == 'self.tol' for x in ast.walk(t)):
            hit += 1
            ok = False
            c = t
            if isinstance(c, ast.Call) and (dotted(c.func) in ('torch.all', 'all') or (isinstance(c.func, ast.Attribute) and c.func.attr == 'all')):
                inner = c.args[0] if c.args else c.func.value
                if isinstance(inner, ast.Compare) and len(inner.ops) == 1:
                    l, r, op = inner.left, inner.comparators[0], inner.ops[0]
                    ok = (isinstance(op, (ast.Lt, ast.LtE)) and dotted(l) == 'loss' and dotted(r) == 'self.tol') or \
                         (isinstance(op, (ast.Gt, ast.GtE)) and dotted(r) == 'loss' and dotted(l) == 'self.tol')
            res.inst({'function': g.fq, 'clause': src(t), 'all_losses_below_tol': ok}, 'tol')
            if not ok:
                res.add(Finding('C20.CLAUSE', g, 'tol clause `%s` is not `all(loss < tol)`' % src(t), node=n.test))
            # each stopping cause is tested on EVERY step: the clause is not nested under another loss- / counter-dependent branch
            outer = _enclosing_tests(g.node, n)
            dep = [o for o in outer if any((dotted(x) or '') in ('loss', 'self.last', 'self.decreasing', 'self.patience_count', 'self.patience', 'self.steps', 'self.max_steps')
                                           for x in ast.walk(o.test))]
            tol_sites.append((n, dep))
    if hit == 0:
        res.add(Finding('C20.CLAUSE', g, 'ReduceToBason.step has no clause on self.tol', construct='tol missing'))
    else:
        free = [n for n, dep in tol_sites if not dep]
        res.inst({'function': g.fq, 'tol clauses': len(tol_sites), 'tested on every step': bool(free)}, 'tol-uncond')
        if not free:
            n, dep = tol_sites[0]
            res.add(Finding('C20.CLAUSE', g, 'the tol clause `%s` is only reached under `%s`: a loss that falls below tol on a step taking the other branch '
                            'does not stop the loop' % (src(n.test)[:50], src(dep[0].test)[:50]), node=n.test, construct='tol clause nested'))
    # improvement direction of the patience test
    for cls_, mod, prev, cur in (('StopOnPlateau', SCHED, 'self.optimizer.last', 'self.optimizer.loss'), ('ReduceToBason', STEP, 'self.last', 'loss')):
        h = repo.find_method(repo.cls(mod, cls_), 'step')
        found = False
        for n in _walk_tests(h):
            t = n.test
            if not any(dotted(x) == 'self.decreasing' for x in ast.walk(t)):
                continue
            found = True
            cmp_ = None
            for x in ast.walk(t):
                if isinstance(x, ast.Compare) and any(dotted(y) == 'self.decreasing' for y in ast.walk(x)):
                    cmp_ = x
            ok = False
            if cmp_ is not None and len(cmp_.ops) == 1:
                l, r, op = cmp_.left, cmp_.comparators[0], cmp_.ops[0]
                has_thr = lambda z: any(dotted(y) == 'self.decreasing' for y in ast.walk(z))
                if has_thr(r) and not has_thr(l) and isinstance(op, (ast.Lt, ast.LtE)):
                    expr = l
                elif has_thr(l) and not has_thr(r) and isinstance(op, (ast.Gt, ast.GtE)):
                    expr = r
                else:
                    expr = None
                if expr is not None:
                    num = expr.left if isinstance(expr, ast.BinOp) and isinstance(expr.op, ast.Div) else expr
                    pp = parities(num, lambda y: dotted(y) == prev)
                    pc = parities(num, lambda y: dotted(y) == cur and not isinstance(y, ast.Store))
                    ok = pp == {0} and pc == {1}
                    # ReduceToBason documents and implements a RELATIVE decrease: the difference is measured against a loss
                    # (quotient by the loss, or the threshold scaled by it).  StopOnPlateau's own example shows the absolute form.
                    if ok and cls_ == 'ReduceToBason':
                        thr = cmp_.comparators[0] if expr is cmp_.left else cmp_.left
                        # ... against the loss of THIS step (the one the step is given): (last - loss) / loss.  Measured against the previous loss the same history
                        # counts as a stall whenever decreasing < d/loss but >= d/last - the two conventions differ by the factor loss/last, visible for every
                        # threshold that is not tiny
                        is_loss = lambda y: dotted(y) == cur
                        rel = (isinstance(expr, ast.BinOp) and isinstance(expr.op, ast.Div) and any(is_loss(y) for y in ast.walk(expr.right))) or \
                              (isinstance(thr, ast.BinOp) and isinstance(thr.op, ast.Mult) and any(is_loss(y) for y in ast.walk(thr)))
                        ok = ok and rel
                # the true branch must be the incrementing one
                neg = 0
                tt = t
                while isinstance(tt, ast.UnaryOp) and isinstance(tt.op, ast.Not):
                    neg, tt = neg + 1, tt.operand
                branch = n.body if neg % 2 == 0 else n.orelse
                inc = any(_incr_amount(st, 'patience_count') == 1 for st in branch)
                ok = ok and inc
            res.inst({'function': h.fq, 'clause': src(t)[:70], 'previous_minus_current_below_threshold_increments': ok}, cls_ + 'imp')
            if not ok:
                res.add(Finding('C20.CLAUSE', h, 'patience test `%s`: the counter must grow when (previous - current) loss is below self.decreasing' % src(t)[:70],
                                node=n.test))
        if not found:
            res.add(Finding('C20.CLAUSE', h, '%s.step has no test against self.decreasing' % cls_, construct='decreasing missing'))
    # the comparison baseline of ReduceToBason is refreshed on every step, after it was compared with the new loss
    g = repo.find_method(repo.cls(STEP, 'ReduceToBason'), 'step')
    pths = step_paths(g, {'last', 'patience_count', 'decreasing'})
    bad_last = None
    for ev, ex in pths:
        if ex not in ('fall', 'return'):
            continue
        writes = 0
        compared = False
        order_ok = True
        for e in ev:
            if e[0] == 'assume' and any(dotted(x) == 'self.decreasing' for x in ast.walk(e[1])):
                compared = True
            if e[0] == 'stmt':
                for a, v, st_ in attr_stores(ast.Module([e[1]], [])):
                    if a == 'last':
                        writes += 1
                        if not compared:
                            order_ok = False
                        if dotted(v) != 'loss':
                            bad_last = bad_last or ('self.last is set to `%s`, not to the current loss' % (src(v) if v is not None else None))
        if writes != 1:
            bad_last = bad_last or ('self.last is written %d times on a path through step: the comparison baseline must be refreshed exactly once '
                                    'per step, whether or not the step improved' % writes)
        elif not order_ok:
            bad_last = bad_last or 'self.last is refreshed before it was compared with the new loss'
    res.inst({'function': g.fq, 'baseline_refreshed_every_step': bad_last is None, 'paths': len(pths)}, 'last')
    if bad_last:
        res.add(Finding('C20.CLAUSE', g, bad_last, construct='baseline refresh'))
    return res


@guarded
def rule_state(repo, tier):
    """state_dict() / load_state_dict() carry the controller over a checkpoint.  "Once false it stays false until reset" survives the round trip only if the
    saved dictionary contains every attribute of the state machine (steps, patience_count, _continual, ...): the filter drops exactly the attached optimizer,
    by an exact key comparison.  A substring test (`'continual' not in key`) also drops `_continual`, so a stopped controller is re-armed by loading its own state."""
    res = RuleResult('C20.STATE', '_Scheduler.state_dict saves every attribute of the controller state machine: its filter excludes keys by exact comparison only, and '
                     'never one of steps / max_steps / patience / patience_count / decreasing / _continual', floor=1)
    f = repo.find_method(repo.cls(SCHED, '_Scheduler'), 'state_dict')
    rets = [n for n in ast.walk(f.node) if isinstance(n, ast.Return) and n.value is not None]
    if len(rets) != 1:
        raise AnalysisError('C20.STATE: _Scheduler.state_dict has %d returns' % len(rets))
    v = rets[0].value
    if isinstance(v, ast.Name):                       # `_ret = {...}; return _ret`
        ds = [n.value for n in ast.walk(f.node) if isinstance(n, ast.Assign) and any(isinstance(t, ast.Name) and t.id == v.id for t in n.targets)]
        if len(ds) == 1:
            v = ds[0]
    STATE = {'steps', 'max_steps', 'patience', 'patience_count', 'decreasing', '_continual'}
    problems = []
    if isinstance(v, ast.DictComp):
        keyvar = v.key.id if isinstance(v.key, ast.Name) else None
        for g in v.generators:
            for cond in g.ifs:
                for c in ast.walk(cond):
                    if not isinstance(c, ast.Compare):
                        continue
                    for op, rhs, lhs in zip(c.ops, c.comparators, [c.left] + c.comparators[:-1]):
                        if isinstance(op, (ast.In, ast.NotIn)) and isinstance(rhs, ast.Name) and rhs.id == keyvar:
                            problems.append('`%s` is a SUBSTRING test on the key: it also matches `_continual` / any attribute whose name contains the text' % src(c))
                        elif isinstance(op, (ast.NotEq, ast.Eq)) and isinstance(rhs, ast.Constant) and rhs.value in STATE:
                            problems.append('`%s` filters the state attribute %r' % (src(c), rhs.value))
                        elif isinstance(op, ast.NotIn) and isinstance(rhs, (ast.Tuple, ast.List, ast.Set)):
                            hit = [x.value for x in rhs.elts if isinstance(x, ast.Constant) and x.value in STATE]
                            if hit:
                                problems.append('`%s` filters the state attribute(s) %s' % (src(c), hit))
    elif not (isinstance(v, ast.Call) or isinstance(v, ast.Dict)):
        raise AnalysisError('C20.STATE: the value returned by state_dict is not understood')
    res.inst({'function': f.fq, 'returns': src(v)[:80], 'problems': problems}, f.fq)
    for pmsg in problems:
        res.add(Finding('C20.STATE', f, 'state_dict: %s: a controller restored from its own state forgets that it had stopped (or how far it had counted)' % pmsg, node=rets[0],
                        construct='state filter|' + pmsg[:60]))
    return res


@guarded
def rule_query(repo, tier):
    """continual() is a QUERY: the driver loops, user code and the `Continual` wrapper read it any number of times per step.  It returns the flag and changes nothing:
    no attribute store, no call of reset() / step() or any other method of the controller.  A read that re-arms the controller ("ready for re-use after the
    loop") makes the second read after a stop True again."""
    res = RuleResult('C20.QUERY', 'the continual() queries of the stepper and the scheduler are pure reads: no attribute store and no call of a state-changing method of '
                     'the controller', floor=2)
    targets = []
    for modname in (STEP, SCHED):
        for f in repo.module(modname).functions.values():
            if f.name in ('continual', 'iscontinual') or (f.name == '__call__' and f.qual.split('.')[-2:-1] == ['Continual']):
                targets.append(f)
    if len(targets) < 2:
        raise AnalysisError('C20.QUERY: the continual() queries were not found (%d)' % len(targets))
    for f in targets:
        stores = [n for n in ast.walk(f.node) if isinstance(n, ast.Attribute) and isinstance(n.ctx, (ast.Store, ast.Del))]
        calls = [c for c in ast.walk(f.node) if isinstance(c, ast.Call) and isinstance(c.func, ast.Attribute) and isinstance(c.func.value, ast.Name) and c.func.value.id == 'self'
                 and c.func.attr not in ('continual', 'iscontinual')]
        calls += [c for c in ast.walk(f.node) if isinstance(c, ast.Call) and isinstance(c.func, ast.Attribute) and c.func.attr in ('reset', 'step', 'zero_', 'fill_', 'copy_', 'add_')]
        res.inst({'function': f.fq, 'attribute stores': len(stores), 'calls of controller methods': [src(c)[:40] for c in calls]}, f.fq)
        for n in stores[:1]:
            res.add(Finding('C20.QUERY', f, '%s writes `%s`: the query changes the state it reports' % (f.fq.split(':')[-1], src(n)[:40]), node=n, construct='query writes state'))
        for c in calls[:1]:
            res.add(Finding('C20.QUERY', f, '%s calls `%s`: reading the flag re-arms / advances the controller, so after a stop the next read reports True again and the step '
                            'budget starts over' % (f.fq.split(':')[-1], src(c)[:40]), node=c, construct='query calls a state-changing method'))
    return res


@guarded
def rule_lossasgiven(repo, tier):
    """ReduceToBason documents batched losses item by item ("all losses below tol", every item failed to decrease).  step() compares the loss it is given: apart from
    the tensor conversion the parameter is not re-bound to a reduction (mean / sum / flatten / max): averaging "element-wise errors" over trailing dimensions also
    averages a loss that has several BATCH dimensions, and the rules then see row means instead of items."""
    res = RuleResult('C20.ASGIVEN', 'ReduceToBason.step applies its rules to the loss as given: the parameter is re-bound only by the tensor conversion, never to a '
                     'reduction of itself', floor=1)
    f = repo.func(STEP, 'ReduceToBason.step')
    p0 = f.pos_params[1]
    n = 0
    for a in ast.walk(f.node):
        if isinstance(a, ast.Assign) and any(isinstance(t, ast.Name) and t.id == p0 for t in a.targets):
            n += 1
            red = [c for c in ast.walk(a.value) if isinstance(c, ast.Call) and (dotted(c.func) or (c.func.attr if isinstance(c.func, ast.Attribute) else '')).split('.')[-1] in
                   ('mean', 'sum', 'max', 'min', 'amax', 'amin', 'median', 'norm', 'flatten', 'reshape', 'view', 'nanmean', 'prod', 'squeeze')]
            res.inst({'function': f.fq, 'rebinding': src(a)[:60], 'reduces the loss': bool(red)}, (f.fq, src(a)[:60]))
            if red:
                res.add(Finding('C20.ASGIVEN', f, '`%s` replaces the loss by a reduction of itself before the tolerance and patience rules: a loss with several batch dimensions is '
                                'averaged over the trailing ones, an item above tol hides behind its row mean' % src(a)[:60], node=a, construct='loss reduced before the rules'))
    res.inst({'function': f.fq, 'rebindings of the loss': n}, (f.fq, 'n'))
    return res


@guarded
def rule_loadatomic(repo, tier):
    """load_state_dict either installs the whole saved state or nothing: one update of the attribute dictionary.  A loop that writes entry by entry and raises on an
    unexpected key leaves the scheduler with the entries written so far (max_steps, steps, _continual of the rejected checkpoint) when the caller catches the
    error and goes on with the same object."""
    res = RuleResult('C20.LOADATOM', '_Scheduler.load_state_dict cannot fail half-way: no raise / assert / fallible lookup is reachable after its first write of an attribute',
                     floor=1)
    f = repo.find_method(repo.cls(SCHED, '_Scheduler'), 'load_state_dict')
    writes = [n for n in ast.walk(f.node) if (isinstance(n, ast.Call) and isinstance(n.func, ast.Attribute) and n.func.attr in ('update', '__setattr__', 'setdefault')) or
              (isinstance(n, ast.Call) and dotted(n.func) == 'setattr') or
              (isinstance(n, (ast.Assign, ast.AugAssign)) and any(isinstance(t, (ast.Subscript, ast.Attribute)) for t in (n.targets if isinstance(n, ast.Assign) else [n.target])))]
    if not writes:
        raise AnalysisError('C20.LOADATOM: load_state_dict no longer writes the state')
    raises = [n for n in ast.walk(f.node) if isinstance(n, (ast.Raise, ast.Assert))]
    loops = [n for n in ast.walk(f.node) if isinstance(n, (ast.For, ast.While))]
    first = min(w.lineno for w in writes)
    bad = [r for r in raises if r.lineno > first or any(any(x is r for x in ast.walk(lp)) and any(any(x is w for x in ast.walk(lp)) for w in writes) for lp in loops)]
    res.inst({'function': f.fq, 'writes': len(writes), 'raise / assert reachable after a write': len(bad)}, f.fq)
    for r in bad:
        res.add(Finding('C20.LOADATOM', f, '`%s` can fire after part of the state has been written (entry-by-entry loading): a rejected checkpoint leaves its first entries - '
                        'max_steps, steps, _continual - in the scheduler, which then reports continual() False without a step' % src(r)[:50].replace('\n', ' '), node=r,
                        construct='load_state_dict can fail half-way'))
    return res


def _rules_core(repo, tier):
    return [rule_state(repo, tier), rule_query(repo, tier), rule_lossasgiven(repo, tier), rule_loadatomic(repo, tier), __import__('sa.mode', fromlist=['x']).rule_argattr(repo, 'C20.DRVCONF', ['pypose.module.mpc', 'pypose.module.icp']), __import__('sa.mode', fromlist=['x']).rule_sharedstate(repo, 'C20.DRVSHARED', ['pypose.module.mpc', 'pypose.module.icp']), rule_latch(repo, tier), rule_reset(repo, tier), rule_budget(repo, tier), rule_pat(repo, tier), rule_drv(repo, tier),
            rule_clause(repo, tier)]


def rules(repo, tier):
    from ..memo import rule_memo
    from ..optional import rule_optional
    from ..mode import mode_rules
    from ..callsig import rule_callsig
    from ..docsig import rule_docsig
    from ..restore import rule_restore
    return list(_rules_core(repo, tier)) + [rule_memo(repo, 'C20.MEMO', 'history independence: nothing computed from the contents of a tensor argument is kept '
                                                      'under the identity, address or version of that tensor, in module-level storage, or published from a generator '
                                                      'before it is complete - a later call with the same object and other contents must not be answered from it',
                                                      ['pypose.optim.scheduler', 'pypose.utils.stepper'], floor=3),
            rule_optional(repo, 'C20.OPT', ['pypose.optim.scheduler', 'pypose.utils.stepper'])] + mode_rules(repo, 'C20', ['pypose.optim.scheduler', 'pypose.utils.stepper']) + [rule_callsig(repo, 'C20.SIG', ['pypose.optim.scheduler', 'pypose.utils.stepper']), rule_docsig(repo, 'C20.DOC', ['pypose.optim.scheduler', 'pypose.utils.stepper'])] + [
            rule_restore(repo, 'C20.TEMP', ['pypose.optim.scheduler', 'pypose.utils.stepper', 'pypose.module.mpc', 'pypose.module.icp'])]
