"""C14 - LQR: system-clock typestate; roll-out feasibility and cost pairing."""
import ast
from ..core import RuleResult, Finding, AnalysisError, dotted, src, norm_construct, guarded, guarded_list
from ..expr import inline_straight, dump, subst, Inliner
from .. import paths

LQR = 'pypose.module.lqr'
SYS = 'self.system'
ROLLOUT_HELPERS = {'runsys'}


def _events_of_stmt(repo, f, st):
    """clock events of one simple statement, in evaluation order"""
    out = []
    for c in paths.calls_in(st):
        d = dotted(c.func)
        if d == SYS:
            out.append(('step', c))
        elif d == SYS + '.reset':
            out.append(('reset', c))
        elif d == SYS + '.set_refpoint':
            out.append(('refpoint', c))
        elif d is not None and d.split('.')[-1] in ROLLOUT_HELPERS and c.args and dotted(c.args[0]) == SYS:
            out.append(('rollout', c))
        elif d == SYS + '.forward':
            out.append(('rawforward', c))
    for n in ast.walk(st):
        if isinstance(n, ast.Attribute) and isinstance(n.ctx, ast.Store) and dotted(n) in (SYS + '.systime', SYS + '._t'):
            out.append(('reset', n))
    return out


@guarded
def rule_clk(repo, tier):
    res = RuleResult('C14.CLK', 'every roll-out of self.system inside LQR is preceded, on every path, by a clock reset with no '
                     'other roll-out or time-setting call in between', floor=2)
    ci = repo.cls(LQR, 'LQR')
    total = 0
    for mname, f in ci.methods.items():
        rel = lambda n: isinstance(n, ast.Attribute) and dotted(n) is not None and dotted(n).startswith(SYS) or \
            (isinstance(n, ast.Name) and n.id in ROLLOUT_HELPERS)
        if not any(rel(n) for n in ast.walk(f.node)):
            continue
        pths, _ = paths.function_paths(f.node, limit=4096, relevant=rel)
        bad = {}
        sites = set()
        for ev, ex in pths:
            state = 'stale'        # entry: the clock is whatever earlier calls left behind
            loop_stack = []
            rolling_in = None
            for e in ev:
                if e[0] == 'head':
                    pass
                elif e[0] in ('iter',) or (e[0] == 'assume' and False):
                    pass
                if e[0] == 'iter' or (e[0] == 'head'):
                    cur_loop = e[1]
                if e[0] == 'stmt':
                    for kind, node in _events_of_stmt(repo, f, e[1]):
                        if kind == 'reset':
                            state, rolling_in = 'set', None
                        elif kind == 'refpoint':
                            # LTV.set_refpoint assigns the system time: the clock is no longer the reset value
                            if state != 'rolling':
                                state = 'stale'
                        elif kind == 'rollout':
                            sites.add(id(node))
                            if state != 'set':
                                bad.setdefault(id(node), (node, 'roll-out %s starts from a stale system clock (no reset since %s)' %
                                                          (src(node)[:50], 'method entry or the previous roll-out')))
                            state, rolling_in = 'stale', None
                        elif kind == 'step':
                            sites.add(id(node))
                            loop = _enclosing_loop(f.node, node)
                            if state == 'rolling' and rolling_in is loop and loop is not None:
                                pass
                            elif state == 'set':
                                state, rolling_in = 'rolling', loop
                            else:
                                bad.setdefault(id(node), (node, 'roll-out through %s starts from a stale system clock (no reset since %s)' %
                                                          (src(node)[:50], 'method entry or the previous roll-out')))
                                state, rolling_in = 'rolling', loop
                elif e[0] in ('head',) and state == 'rolling' and e[1] is not rolling_in and not _inside(rolling_in, e[1]):
                    state, rolling_in = 'stale', None
                if e[0] == 'assume' and state == 'rolling' and rolling_in is not None and e[1] is getattr(rolling_in, 'test', None) and e[2] is False:
                    state, rolling_in = 'stale', None
                if e[0] == 'head' and state == 'rolling' and e[1] is rolling_in:
                    pass
            # leaving a for-loop: detected lazily - a later step in another loop is a new roll-out because rolling_in differs
        for sid in sites:
            total += 1
        for node_id, (node, msg) in bad.items():
            res.add(Finding('C14.CLK', f, msg + ': results depend on earlier calls made on the same system object', node=node))
        for sid in sites:
            res.inst({'function': f.fq, 'rollout_site': sid in bad and 'stale' or 'reset', 'paths': len(pths)}, (f.fq, sid))
    if total < 2:
        raise AnalysisError('C14.CLK: found %d roll-out sites in LQR, expected 2' % total)
    return res


def _enclosing_loop(fnode, node):
    best = None
    for n in ast.walk(fnode):
        if isinstance(n, (ast.For, ast.While)) and any(x is node for x in ast.walk(n)):
            best = n      # ast.walk is breadth-first: the last match is the innermost
    return best


def _inside(outer, inner):
    return outer is not None and any(x is inner for x in ast.walk(outer))


# ------------------------------------------------------------------ FEAS / COST (loop body of lqr_forward)

@guarded
def rule_feas_cost(repo, tier):
    res = RuleResult('C14.FEAS', 'lqr_forward: x[0] is x_init; the u_t stored is the u_t applied; x[t+1] is the system output for '
                     '(x_t, u_t); the cost term of step t pairs (x_t, u_t) taken before x advances with Q_t, p_t', floor=4)
    f = repo.func(LQR, 'LQR.lqr_forward')
    loops = [n for n in f.node.body if isinstance(n, ast.For)] or [n for n in ast.walk(f.node) if isinstance(n, ast.For)]
    loop = None
    for l in loops:
        if any(dotted(c.func) == SYS for c in paths.calls_in(l)):
            loop = l
    if loop is None or not isinstance(loop.target, ast.Name):
        raise AnalysisError('C14.FEAS: roll-out loop of lqr_forward not found')
    tvar = loop.target.id
    # state before the loop
    pre = Inliner()
    for st in f.node.body:
        if st is loop:
            break
        pre.feed(st)
    x_name = None
    # x[..., 0, :] = x_init  and xt = x_init
    init_ok = False
    for bk, idx, val, st in pre.stores:
        if _time_index(idx) is not None and dump(_time_index(idx)) == dump(ast.Constant(0)) and isinstance(val, ast.Name) and val.id == 'x_init':
            init_ok, x_name = True, bk
    res.inst({'function': f.fq, 'clause': 'x[0]=x_init', 'ok': init_ok})
    if not init_ok:
        res.add(Finding('C14.FEAS', f, 'the returned state sequence does not start at x_init', construct='x[0]'))
    # one symbolic iteration: xt, ut current values are opaque symbols
    env0 = dict(pre.env)
    cur_x = [k for k, v in env0.items() if isinstance(v, ast.Name) and v.id == 'x_init' and k != 'x_init']
    it = Inliner({k: ast.Name('$cur_' + k, ast.Load()) for k in cur_x})
    it.env[tvar] = ast.Name('$t', ast.Load())
    for st in loop.body:
        it.feed(st)
    sys_calls = []
    for st, env in it.log:
        for c in paths.calls_in(st):
            if dotted(c.func) == SYS:
                sys_calls.append((c, env))
    if len(sys_calls) != 1:
        raise AnalysisError('C14.FEAS: expected one system call per iteration, found %d' % len(sys_calls))
    c, env = sys_calls[0]
    if len(c.args) < 2:
        raise AnalysisError('C14.FEAS: system call shape changed')
    xa, ua = subst(c.args[0], env), subst(c.args[1], env)
    ok_x = isinstance(xa, ast.Name) and xa.id.startswith('$cur_')
    res.inst({'function': f.fq, 'clause': 'system(x_t, .)', 'arg': src(xa)[:60], 'ok': ok_x})
    if not ok_x:
        res.add(Finding('C14.FEAS', f, 'the state passed to the system is not the current state x_t: %s' % src(xa)[:80], node=c))
    # stores of this iteration
    u_store = x_store = None
    for bk, idx, val, st in it.stores:
        ti = _time_index(idx)
        if ti is None:
            continue
        if dump(ti) == dump(ast.Name('$t', ast.Load())) and dump(val) == dump(ua):
            u_store = (bk, st)
        if isinstance(ti, ast.BinOp) and isinstance(ti.op, ast.Add) and {dump(ti.left), dump(ti.right)} == {dump(ast.Name('$t', ast.Load())), dump(ast.Constant(1))}:
            x_store = (bk, val, st)
    res.inst({'function': f.fq, 'clause': 'u[t] = applied u_t', 'ok': u_store is not None})
    if u_store is None:
        res.add(Finding('C14.FEAS', f, 'the input applied to the system (%s) is not the one stored in the returned input sequence at t' % src(ua)[:80], node=c))
    okx = x_store is not None and _is_first_output_of(x_store[1], c, env) and (x_name is None or x_store[0] == x_name)
    res.inst({'function': f.fq, 'clause': 'x[t+1] = system(x_t,u_t)[0]', 'ok': okx})
    if not okx:
        res.add(Finding('C14.FEAS', f, 'x[t+1] is not the first output of the system call of step t', node=c, construct='x[t+1]'))
    # returned names
    # COST
    cost_terms = []
    for st, env in it.log:
        if isinstance(st, ast.AugAssign) and isinstance(st.target, ast.Name) and 'cost' in st.target.id:
            cost_terms.append((subst(st.value, env), st))
        elif isinstance(st, ast.Assign) and any(isinstance(t, ast.Name) and 'cost' in t.id for t in st.targets):
            cost_terms.append((subst(st.value, env), st))
    if not cost_terms:
        # vectorised form after the roll-out: cost = sum_t 0.5 z_t^T Q_t z_t + p_t^T z_t with z = cat(x[..., :-1, :], u): the states paired with
        # u_0 .. u_{T-1} are x_0 .. x_{T-1}, i.e. the stored trajectory WITHOUT its last entry
        whole = inline_straight(f.node)
        post = [st for st in f.node.body if isinstance(st, ast.Assign) and any(isinstance(t, ast.Name) and 'cost' in t.id for t in st.targets)
                and not (isinstance(st.value, ast.Call) and dotted(st.value.func) in ('torch.zeros', 'torch.zeros_like', 'torch.empty'))]
        late = [st for st in f.node.body if isinstance(st, ast.AugAssign) and isinstance(st.target, ast.Name) and 'cost' in st.target.id]
        if late and not post:
            res.inst({'function': f.fq, 'clause': 'stage cost accumulated on every step of the roll-out', 'ok': False})
            res.add(Finding('C14.COST', f, '`%s` stands after the roll-out loop: only the stage cost of the LAST step is added, the reported cost is not the sum over the '
                            'horizon' % src(late[0])[:70], node=late[0], construct='cost accumulated outside the loop'))
            return res
        if not post:
            raise AnalysisError('C14.COST: cost accumulation not found in the roll-out loop')
        for st in post:
            term = whole.value(st.value)
            cats = [n for n in ast.walk(term) if isinstance(n, ast.Call) and dotted(n.func) in ('torch.cat', 'torch.concat')]
            ok = bool(cats)
            why = 'no (x, u) pair'
            for cat in cats:
                el = cat.args[0].elts if cat.args and isinstance(cat.args[0], (ast.Tuple, ast.List)) else []
                xs = el[0] if len(el) == 2 else None
                sl = _time_index(xs.slice) if isinstance(xs, ast.Subscript) else None
                good = isinstance(sl, ast.Slice) and (sl.lower is None or (isinstance(sl.lower, ast.Constant) and sl.lower.value == 0)) and sl.step is None and \
                    sl.upper is not None and (src(sl.upper).replace(' ', '') in ('-1', 'self.T'))
                if not good:
                    ok = False
                    why = 'the states paired with u_0..u_{T-1} are `%s`' % (src(xs)[:40] if xs is not None else '?')
            res.inst({'function': f.fq, 'clause': 'vectorised cost pairs (x_0..x_{T-1}, u_0..u_{T-1})', 'ok': ok})
            if not ok:
                res.add(Finding('C14.COST', f, 'the reported cost is not the cost of the returned trajectory: %s; the stage cost of step t is taken at (x_t, u_t), '
                                'the state BEFORE u_t is applied, i.e. x[..., :-1, :]' % why, node=st, construct='vectorised cost pairs the wrong states'))
        return res
    want_pair = ast.Call(ast.Attribute(ast.Name('torch', ast.Load()), 'cat', ast.Load()), [ast.Tuple([xa, ua], ast.Load())], [])
    for term, st in cost_terms:
        tis = set()
        pair_ok = True
        for n in ast.walk(term):
            if isinstance(n, ast.Subscript) and dotted(n.value) in ('self.Q', 'self.p'):
                ti = _time_index(n.slice)
                tis.add(dump(ti) if ti is not None else '?')
        cats = [n for n in ast.walk(term) if isinstance(n, ast.Call) and dotted(n.func) in ('torch.cat', 'torch.concat')]
        for cat in cats:
            el = cat.args[0].elts if cat.args and isinstance(cat.args[0], (ast.Tuple, ast.List)) else []
            if len(el) != 2 or dump(el[0]) != dump(xa) or dump(el[1]) != dump(ua):
                pair_ok = False
        if not cats:
            pair_ok = False
        ok = pair_ok and tis == {dump(ast.Name('$t', ast.Load()))}
        res.inst({'function': f.fq, 'clause': 'cost_t from (x_t,u_t,Q_t,p_t)', 'ok': ok, 'time_indices': sorted(tis)})
        if not ok:
            res.add(Finding('C14.COST', f, 'the cost term of step t is not built from the pair (x_t, u_t) taken before the state '
                            'advances with Q[t] and p[t] (pair ok: %s, time indices: %s)' % (pair_ok, sorted(tis)), node=st))
    return res


def _time_index(sl):
    """the index on the time axis of  [..., t, :]  /  [..., t, :, :]"""
    if isinstance(sl, ast.Tuple) and len(sl.elts) >= 2 and isinstance(sl.elts[0], ast.Constant) and sl.elts[0].value is Ellipsis:
        return sl.elts[1]
    return None


def _is_first_output_of(val, c, env):
    v = val
    if isinstance(v, ast.Subscript) and isinstance(v.slice, ast.Constant) and v.slice.value == 0:
        inner = v.value
        return isinstance(inner, ast.Call) and dotted(inner.func) == SYS and dump(inner) == dump(subst(c, env))
    if isinstance(v, ast.Call) and dotted(v.func) == '$item' and isinstance(v.args[1], ast.Constant) and v.args[1].value == 0:
        inner = v.args[0]
        return isinstance(inner, ast.Call) and dotted(inner.func) == SYS and dump(inner) == dump(subst(c, env))
    return False


@guarded
def rule_gain(repo, tier):
    res = RuleResult('C14.GAIN', 'lqr_backward: the gains solve with the blocks of the value-function Hessian themselves - the factor handed to '
                     'cholesky_solve is the Cholesky factor of exactly Qt[ns:, ns:] (no added regularisation), K_t = -solve(Qt[ns:, :ns]), '
                     'k_t = -solve(qt[ns:])', floor=3)
    f = repo.func(LQR, 'LQR.lqr_backward')
    loops = [n for n in ast.walk(f.node) if isinstance(n, ast.For)]
    if not loops:
        raise AnalysisError('C14.GAIN: backward recursion loop not found')
    loop = loops[0]
    # roles, not names: H = the matrix whose [n:, n:] / [n:, :n] blocks are extracted, g = the vector split at the same n
    def pat(sl):
        if isinstance(sl, ast.Slice) and sl.step is None:
            if isinstance(sl.lower, ast.Name) and sl.upper is None:
                return ('from', sl.lower.id)
            if isinstance(sl.upper, ast.Name) and sl.lower is None:
                return ('to', sl.upper.id)
        return None
    Hname = gname = nname = None
    for n_ in ast.walk(loop):
        if isinstance(n_, ast.Subscript) and isinstance(n_.value, ast.Name) and isinstance(n_.slice, ast.Tuple) and \
                isinstance(n_.slice.elts[0], ast.Constant) and n_.slice.elts[0].value is Ellipsis:
            ps = [pat(x) for x in n_.slice.elts[1:]]
            if len(ps) == 2 and ps[0] and ps[1] and ps[0][0] == 'from' and ps[1][0] == 'from' and ps[0][1] == ps[1][1]:
                Hname, nname = n_.value.id, ps[0][1]
    for n_ in ast.walk(loop):
        if isinstance(n_, ast.Subscript) and isinstance(n_.value, ast.Name) and isinstance(n_.slice, ast.Tuple) and len(n_.slice.elts) == 2 and \
                isinstance(n_.slice.elts[0], ast.Constant) and n_.slice.elts[0].value is Ellipsis and pat(n_.slice.elts[1]) == ('from', nname) \
                and n_.value.id != Hname:
            gname = n_.value.id
    if not (Hname and gname and nname):
        raise AnalysisError('C14.GAIN: the block split of the value-function Hessian / gradient was not found in the backward recursion')
    inl = Inliner()
    for st in loop.body:
        if isinstance(st, ast.If):
            # H / g are defined in both branches: treat them as the opaque blocks of this iteration
            inl.env[Hname] = ast.Name('$Qt', ast.Load())
            inl.env[gname] = ast.Name('$qt', ast.Load())
            continue
        inl.feed(st)
    sub = {Hname: ast.Name('$Qt', ast.Load()), gname: ast.Name('$qt', ast.Load())}
    want_Quu = ast.parse('%s[..., %s:, %s:]' % (Hname, nname, nname), mode='eval').body
    want_Qux = ast.parse('%s[..., %s:, :%s]' % (Hname, nname, nname), mode='eval').body
    want_Qxu = ast.parse('%s[..., :%s, %s:]' % (Hname, nname, nname), mode='eval').body
    want_qu = ast.parse('%s[..., %s:]' % (gname, nname), mode='eval').body
    dQuu, dQux, dqu = dump(subst(want_Quu, sub)), dump(subst(want_Qux, sub)), dump(subst(want_qu, sub))
    chol = [c for c in paths.calls_in(loop) if (dotted(c.func) or '').split('.')[-1] == 'cholesky']
    solves = [c for c in paths.calls_in(loop) if (dotted(c.func) or '').split('.')[-1] == 'cholesky_solve']
    if not chol or len(solves) < 2:
        raise AnalysisError('C14.GAIN: cholesky / cholesky_solve calls not found in the backward recursion')
    for c in chol:
        a = inl.value(c.args[0])
        ok = dump(a) == dQuu
        res.inst({'function': f.fq, 'factorised': src(c.args[0])[:50], 'is_Quu_block': ok}, 'chol')
        if not ok:
            res.add(Finding('C14.GAIN', f, 'the gain is computed from the Cholesky factor of `%s`, not of the input block Quu = Qt[ns:, ns:] of the '
                            'value-function Hessian: the returned controls are not the minimiser' % src(a)[:70].replace('$', ''), node=c))
    seen = set()
    for c in solves:
        b = inl.value(c.args[0])
        core = b
        while isinstance(core, ast.Call) and isinstance(core.func, ast.Attribute) and core.func.attr in ('unsqueeze', 'squeeze'):
            core = core.func.value
        which = 'Qux' if dump(core) == dQux else 'qu' if dump(core) == dqu else None
        if which is None and isinstance(core, ast.Attribute) and core.attr in ('mT', 'T') and \
                dump(core.value) == dump(subst(want_Qxu, sub)):
            which = 'Qux'       # the Hessian is symmetric: Qxu^T is Qux
        fac = inl.value(c.args[1]) if len(c.args) > 1 else None
        fac_ok = isinstance(fac, ast.Call) and (dotted(fac.func) or '').split('.')[-1] == 'cholesky'
        res.inst({'function': f.fq, 'solve_rhs': src(c.args[0])[:40], 'block': which, 'uses_cholesky_factor': fac_ok}, 'solve' + str(which))
        seen.add(which)
        if which is None:
            res.add(Finding('C14.GAIN', f, 'cholesky_solve is applied to `%s`, which is neither Qux = Qt[ns:, :ns] nor qu = qt[ns:]' % src(b)[:60].replace('$', ''), node=c))
        if not fac_ok:
            res.add(Finding('C14.GAIN', f, 'cholesky_solve is not given a Cholesky factor', node=c))
    if seen >= {'Qux', 'qu'}:
        # signs: the gains are the negated solves (every value derived directly from a cholesky_solve and stored/bound)
        for st in loop.body:
            if isinstance(st, ast.Assign) and any((dotted(c.func) or '').split('.')[-1] == 'cholesky_solve' for c in paths.calls_in(st.value)):
                v = st.value
                neg = isinstance(v, ast.UnaryOp) and isinstance(v.op, ast.USub)
                res.inst({'function': f.fq, 'gain': src(st.targets[-1])[:20], 'negated': neg}, src(st.targets[-1]))
                if not neg:
                    res.add(Finding('C14.GAIN', f, 'gain `%s` is not the negated solve' % src(st.targets[-1])[:20], node=st))
    return res


@guarded
def rule_best(repo, tier):
    res = RuleResult('C14.BEST', 'MPC keeps the best-so-far iterate: the record is replaced only by an iterate whose cost is strictly lower (or when '
                     'empty), all three fields are replaced together from the same LQR call, and the final solve starts from the best input '
                     'sequence', floor=3)
    f = repo.func('pypose.module.mpc', 'MPC.forward')
    loops = [n for n in ast.walk(f.node) if isinstance(n, ast.While)]
    if not loops:
        raise AnalysisError('C14.BEST: MPC.forward has no iteration loop')
    loop = loops[0]
    # the LQR call of the iteration and the names it binds
    call_targets = None
    for st in loop.body:
        if isinstance(st, ast.Assign) and isinstance(st.value, ast.Call) and dotted(st.value.func) == 'self.lqr' and isinstance(st.targets[0], ast.Tuple):
            call_targets = [t.id for t in st.targets[0].elts if isinstance(t, ast.Name)]
    # the record is the dict whose 'u' entry seeds the final solve (role, not name)
    rec = None
    final_calls = [c for st in f.node.body if st is not loop and not any(x is loop for x in ast.walk(st))
                   for c in paths.calls_in(st) if dotted(c.func) == 'self.lqr']
    class _R:      # the final solve, wherever its value is bound before being returned
        pass
    for c_ in final_calls:
        r = _R()
        r.value = c_
        if True:
            for a in list(r.value.args) + [k.value for k in r.value.keywords]:
                if isinstance(a, ast.Subscript) and isinstance(a.value, ast.Name) and isinstance(a.slice, ast.Constant) and a.slice.value == 'u':
                    rec = a.value.id
    if rec is None:
        rec = 'best'
    upd = [n for n in ast.walk(loop) if isinstance(n, ast.If) and any(isinstance(s_, ast.Assign) and any(dotted(t) == rec for t in s_.targets) for s_ in n.body)]
    ok_cond = ok_fields = False
    if upd and call_targets and len(call_targets) == 3:
        t = upd[0].test
        conds = t.values if isinstance(t, ast.BoolOp) and isinstance(t.op, ast.Or) else [t]
        for c in conds:
            if isinstance(c, ast.Compare) and len(c.ops) == 1 and isinstance(c.ops[0], ast.Lt) and dotted(c.left) == call_targets[2] and \
                    src(c.comparators[0]).replace('"', "'") == "%s['cost']" % rec:
                ok_cond = True
            if isinstance(c, ast.Compare) and len(c.ops) == 1 and isinstance(c.ops[0], ast.Gt) and dotted(c.comparators[0]) == call_targets[2] and \
                    src(c.left).replace('"', "'") == "%s['cost']" % rec:
                ok_cond = True
        for s_ in upd[0].body:
            if isinstance(s_, ast.Assign) and isinstance(s_.value, ast.Dict):
                d = {k.value: dotted(v) for k, v in zip(s_.value.keys, s_.value.values) if isinstance(k, ast.Constant)}
                ok_fields = d == {'x': call_targets[0], 'u': call_targets[1], 'cost': call_targets[2]}
    res.inst({'function': f.fq, 'replace_only_if_strictly_lower': ok_cond}, 'cond')
    res.inst({'function': f.fq, 'fields_from_same_call': ok_fields}, 'fields')
    if not ok_cond:
        res.add(Finding('C14.BEST', f, 'the best-so-far record is not replaced exactly when the new cost is strictly lower than the recorded one', construct='best cond'))
    if not ok_fields:
        res.add(Finding('C14.BEST', f, 'the best-so-far record does not take x, u and cost together from the LQR call of the same iteration', construct='best fields'))
    ok_ret = False
    for v in final_calls:
        if True:
            kw = {k.arg: src(k.value).replace('"', "'") for k in v.keywords}
            pos = [src(a).replace('"', "'") for a in v.args]
            ok_ret = kw.get('u_traj') == "%s['u']" % rec or (len(pos) >= 3 and pos[2] == "%s['u']" % rec)
    res.inst({'function': f.fq, 'final_solve_from_best_u': ok_ret}, 'ret')
    if not ok_ret:
        res.add(Finding('C14.BEST', f, 'the final LQR solve does not start from the best input sequence found', construct='best return'))
    return res


GETTERS = {'A', 'B', 'C', 'D', 'c1', 'c2'}


@guarded
def rule_sqz(repo, tier):
    """A linearisation matrix (system.A: ns x ns, system.B: ns x nc, ...) is squeezed only under a test of its rank.  `M.squeeze(-2)` removes the
    row axis of every matrix with ONE row, so for a one-dimensional state (inside the stated range) the unconditional form turns the (B, 1, ns)
    matrix into a vector and the batched solve fails or broadcasts; the squeeze exists for the singleton axis a single-batch autograd Jacobian
    carries and must be conditioned on that axis being there."""
    res = RuleResult('C14.SQZ', 'LQR / MPC squeeze an axis of a linearisation matrix (system.A/B/C/D) only under a rank test of that matrix: the model '
                     'dimensions themselves may be 1', floor=1)
    n = 0
    for mod in (LQR, 'pypose.module.mpc'):
        for f in repo.module(mod).functions.values():
            # names bound to a getter
            bound = {}
            for a in ast.walk(f.node):
                if isinstance(a, ast.Assign):
                    vals = a.value.elts if isinstance(a.value, ast.Tuple) else [a.value]
                    tgts = a.targets[0].elts if isinstance(a.targets[0], ast.Tuple) and isinstance(a.value, ast.Tuple) and \
                        len(a.targets[0].elts) == len(vals) else ([a.targets[0]] if len(vals) == 1 else [])
                    for t, v in zip(tgts, vals):
                        d = dotted(v)
                        if isinstance(t, ast.Name) and d and d.split('.')[-1] in GETTERS and 'system' in d:
                            bound[t.id] = d

            def visit(body, guards):
                nonlocal n
                for st in body:
                    if isinstance(st, ast.If):
                        g = {x.id for x in ast.walk(st.test) if isinstance(x, ast.Name)} | {dotted(x) for x in ast.walk(st.test) if isinstance(x, ast.Attribute)}
                        # a RANK test (ndim / dim() / len(shape)); a test of an EXTENT (size(-2) == 1, shape[-2] == 1) is true for one-dimensional models as well
                        ranky = any((isinstance(x, ast.Attribute) and x.attr == 'ndim') or
                                    (isinstance(x, ast.Call) and isinstance(x.func, ast.Attribute) and x.func.attr in ('dim', 'ndimension') and not x.args) or
                                    (isinstance(x, ast.Call) and isinstance(x.func, ast.Name) and x.func.id == 'len' and x.args and isinstance(x.args[0], ast.Attribute)
                                     and x.args[0].attr == 'shape') for x in ast.walk(st.test))
                        visit(st.body, guards | (g if ranky else set()))
                        visit(st.orelse, guards | (g if ranky else set()))
                        continue
                    for fld in ('body', 'orelse', 'finalbody'):
                        sub = getattr(st, fld, None)
                        if isinstance(sub, list) and sub and isinstance(sub[0], ast.stmt):
                            visit(sub, guards)
                    if isinstance(st, (ast.For, ast.While, ast.With, ast.Try)):
                        continue
                    for c in paths.calls_in(st):
                        if isinstance(c.func, ast.Attribute) and c.func.attr == 'squeeze' and c.args:
                            recv = c.func.value
                            d = dotted(recv)
                            origin = bound.get(d) if isinstance(recv, ast.Name) else (d if d and d.split('.')[-1] in GETTERS and 'system' in d else None)
                            if origin is None:
                                continue
                            n += 1
                            key = d
                            # the matrices of one linearisation share their leading axes: a rank test of a sibling getter of the same system counts
                            sysobj = origin.rsplit('.', 1)[0]
                            ok = key in guards or origin in guards or any((bound.get(g) or g or '').rsplit('.', 1)[0] == sysobj and
                                                                          (bound.get(g) or g or '').split('.')[-1] in GETTERS for g in guards if g)
                            res.inst({'function': f.fq, 'squeeze': src(c)[:50], 'of': origin, 'under a rank test': ok}, (f.fq, src(c)))
                            if not ok:
                                res.add(Finding('C14.SQZ', f, '`%s` squeezes an axis of the linearisation matrix %s unconditionally: with a one-dimensional '
                                                'state (or input) that axis is a model dimension, the matrix degenerates to a vector and the backward '
                                                'recursion fails / broadcasts for batched systems' % (src(c)[:50], origin), node=c))
            visit(f.node.body, set())
    if n == 0:
        res.inst({'squeezes of linearisation matrices': 0})
    return res


@guarded
def rule_dyn(repo):
    """the transition the roll-outs rely on: the LTI/LTV equations (same analysis as C15.EQ, reported for C14: feasibility clause)"""
    from .c15 import rule_eq
    r = rule_eq(repo)
    r.rule = 'C14.DYN'
    r.text = 'the system the roll-out calls obeys x\' = A x + B u + c1, y = C x + D u + c2 with each constant guarded by its own None test ' \
             '(feasibility of the returned trajectory is stated against these equations)'
    for fd in r.findings:
        fd.rule = 'C14.DYN'
    return r


def _expansion_axis(res, f, st, d):
    """the shared cost is repeated along a NEW time axis: the tensor gets a singleton axis just in front of its item axes (unsqueeze(-3) for the [n, n] items of Q,
    unsqueeze(-2) for the [n] items of p) and only that axis is repeated.  Repeating an existing axis (Q.repeat(T, 1, 1) then unflatten) interleaves the
    batch: entry [b, t] becomes Q[(b T + t) mod B]."""
    item = 2 if d.endswith('Q') else 1
    want = -(item + 1)
    calls = [c for c in ast.walk(st.value) if isinstance(c, ast.Call) and (dotted(c.func) or (c.func.attr if isinstance(c.func, ast.Attribute) else '')).split('.')[-1]
             in ('tile', 'expand', 'repeat', 'repeat_interleave', 'broadcast_to')]
    for c in calls:
        func_form = (dotted(c.func) or '').startswith('torch.')
        recv = c.args[0] if func_form else c.func.value
        reps = c.args[1:] if func_form else c.args
        if len(reps) == 1 and isinstance(reps[0], (ast.Tuple, ast.List)):
            reps = reps[0].elts
        uns = [u for u in ast.walk(recv) if isinstance(u, ast.Call) and isinstance(u.func, ast.Attribute) and u.func.attr == 'unsqueeze' and u.args]
        def ival(x):
            if isinstance(x, ast.Constant):
                return x.value
            if isinstance(x, ast.UnaryOp) and isinstance(x.op, ast.USub) and isinstance(x.operand, ast.Constant):
                return -x.operand.value
            return None
        new_axis = any(ival(u.args[0]) == want for u in uns) or any(isinstance(x, ast.Subscript) and isinstance(x.slice, ast.Tuple) and len(x.slice.elts) >= item + 1 and
                                                                     isinstance(x.slice.elts[-(item + 1)], ast.Constant) and x.slice.elts[-(item + 1)].value is None
                                                                     for x in ast.walk(recv))
        pos_ok = None
        if reps:
            vals = [ival(r) for r in reps]
            if len(vals) >= item + 1:
                others = [v for i, v in enumerate(vals) if i != len(vals) + want]
                pos_ok = vals[len(vals) + want] not in (1, -1) and all(v in (1, -1) for v in others)
        ok = new_axis and pos_ok is not False
        res.inst({'function': f.fq, 'expansion': src(c)[:70], 'new time axis in front of the items': new_axis, 'only that axis repeated': pos_ok}, (d, 'axis', src(c)[:70]))
        if not ok:
            res.add(Finding('C14.HORIZON', f, 'the horizon expansion `%s` of %s does not repeat a NEW singleton axis at position %d: repeating an existing axis (the batch) '
                            'and regrouping interleaves the batch elements - step t of problem b gets the cost of another problem whenever the costs differ '
                            'between batch elements' % (src(c)[:60], d, want), node=st, construct='expansion axis of ' + d))


@guarded
def rule_horizon(repo, tier):
    """LQR accepts a shared cost term ([B, n, n] / [B, n]) or a time-varying one ([B, T, n, n] / [B, T, n]) for Q and p INDEPENDENTLY and expands the
    shared ones along the horizon.  Each expansion is decided by the rank of the tensor it expands: an expansion of p nested under the rank test
    of Q leaves a shared p un-expanded whenever Q is already time-varying (and vice versa), and the constructor rejects a documented combination."""
    res = RuleResult('C14.HORIZON', 'LQR.__init__: every horizon expansion (tile / expand / repeat of self.Q or self.p) is guarded by a rank test of the '
                     'very tensor it expands, so the shared / time-varying forms of Q and p can be mixed', floor=2)
    f = repo.func(LQR, 'LQR.__init__')

    def subjects(t):
        out = set()
        for n in ast.walk(t):
            if isinstance(n, ast.Attribute) and n.attr == 'ndim':
                out.add(dotted(n.value) or src(n.value))
            if isinstance(n, ast.Call) and isinstance(n.func, ast.Attribute) and n.func.attr in ('dim', 'ndimension') and not n.args:
                out.add(dotted(n.func.value) or src(n.func.value))
        return out

    def visit(body, guards):
        for st in body:
            if isinstance(st, ast.If):
                visit(st.body, guards + [subjects(st.test)])
                visit(st.orelse, guards + [subjects(st.test)])
            elif isinstance(st, ast.Assign):
                for tg in st.targets:
                    d = dotted(tg)
                    if d in ('self.Q', 'self.p') and any(isinstance(c, ast.Call) and (dotted(c.func) or '').split('.')[-1] in ('tile', 'expand', 'repeat', 'repeat_interleave', 'broadcast_to')
                                                        for c in ast.walk(st.value)):
                        gs = set().union(*guards) if guards else set()
                        ok = gs == {d}
                        res.inst({'function': f.fq, 'expansion': src(st)[:70], 'guarded by the rank of': sorted(gs), 'own rank': ok}, (d, src(st)[:70]))
                        _expansion_axis(res, f, st, d)
                        if not ok:
                            res.add(Finding('C14.HORIZON', f, 'the horizon expansion `%s` is decided by the rank of %s, not by the rank of %s itself: a shared %s together '
                                            'with a time-varying %s is left un-expanded (or a time-varying one is expanded twice) and the documented mixed form fails'
                                            % (src(st)[:60], sorted(gs) or 'nothing', d, d.split('.')[1], 'p' if d.endswith('Q') else 'Q'), node=st,
                                            construct='expansion of %s under %s' % (d, sorted(gs))))
            elif isinstance(st, (ast.For, ast.While, ast.With, ast.Try)):
                visit(getattr(st, 'body', []), guards)
    visit(f.node.body, [])
    return res


# ---------------------------------------------------------------- TIMEIDX: one time index per step of a horizon loop

def _time_loops(f):
    for n in ast.walk(f.node):
        if isinstance(n, ast.For) and isinstance(n.target, ast.Name) and isinstance(n.iter, ast.Call) and dotted(n.iter.func) == 'range':
            yield n


def _time_subscripts(loop):
    """[(subscript, time expr, is_store)]: `X[..., <expr mentioning the loop variable>, :(, :)]` in the loop body"""
    v = loop.target.id
    out = []
    for st in loop.body:
        for n in ast.walk(st):
            if isinstance(n, ast.Subscript) and isinstance(n.slice, ast.Tuple) and len(n.slice.elts) >= 2 and \
                    isinstance(n.slice.elts[0], ast.Constant) and n.slice.elts[0].value is Ellipsis:
                e = n.slice.elts[1]
                if not isinstance(e, ast.Slice) and any(isinstance(x, ast.Name) and x.id == v for x in ast.walk(e)):
                    out.append((n, e, isinstance(n.ctx, ast.Store)))
    return out


def _affine(e, v):
    """e as v + c -> c, or None"""
    if isinstance(e, ast.Name) and e.id == v:
        return 0
    if isinstance(e, ast.BinOp) and isinstance(e.op, (ast.Add, ast.Sub)) and isinstance(e.right, ast.Constant) and isinstance(e.right.value, int):
        c = _affine(e.left, v)
        return None if c is None else c + (e.right.value if isinstance(e.op, ast.Add) else -e.right.value)
    if isinstance(e, ast.BinOp) and isinstance(e.op, ast.Add) and isinstance(e.left, ast.Constant) and isinstance(e.left.value, int):
        c = _affine(e.right, v)
        return None if c is None else c + e.left.value
    return None


@guarded
def rule_timeidx(repo, tier):
    """Within one pass of a horizon loop every per-step table (cost matrices Q_t, p_t, nominal x_t, u_t, gains K_t, k_t) is read at ONE time index, the step the
    pass is about, and written at that index or - the successor state - one after it.  A read at another offset pairs the cost of one step with the dynamics of its
    neighbour (invisible for time-invariant tables).  And every roll-out call system(x, u) in such a loop is given loop-variant arguments: each argument mentions
    the loop variable or a name the loop re-binds (the carried state); an argument fixed before the loop drives every step with the first step's value."""
    res = RuleResult('C14.TIMEIDX', 'horizon loops of LQR / runsys: all per-step tables are read at one time index per pass and written at that index or its successor; '
                     'every argument of a roll-out call system(x, u) in the loop varies with the loop', floor=5)
    for mod, q in ((LQR, 'LQR.lqr_backward'), (LQR, 'LQR.lqr_forward'), ('pypose.module.dynamics', 'runsys')):
        f = repo.func(mod, q)
        loops = list(_time_loops(f))
        if not loops:
            raise AnalysisError('C14.TIMEIDX: %s has no `for t in range(..)` loop any more' % q)
        for loop in loops:
            v = loop.target.id
            subs = _time_subscripts(loop)
            offs = [(n, _affine(e, v), st) for n, e, st in subs]
            loads = sorted({o for n, o, st in offs if not st and o is not None})
            stores = sorted({o for n, o, st in offs if st and o is not None})
            res.inst({'function': f.fq, 'loop': src(loop.iter)[:40], 'indexed reads': sum(1 for x in offs if not x[2]), 'read offsets': loads, 'write offsets': stores},
                     (f.fq, 'loop', src(loop.iter)[:40]))
            for n, o, st in offs:
                if o is None:
                    res.add(Finding('C14.TIMEIDX', f, 'the time index `%s` of `%s` is not the loop variable plus a constant' % (src(n.slice.elts[1]), src(n)[:50]), node=n,
                                    construct='time index form|' + src(n.value)))
            if len(loads) > 1:
                # the minority offset is the deviant one
                cnt = {o: sum(1 for n, oo, st in offs if not st and oo == o) for o in loads}
                major = max(loads, key=lambda o: cnt[o])
                for n, o, st in offs:
                    if not st and o is not None and o != major:
                        res.add(Finding('C14.TIMEIDX', f, '`%s` is read at step %s%+d while the other %d per-step reads of this pass are at %s%+d: the quantities of two '
                                        'different steps are combined (invisible while the table is constant over the horizon)' % (src(n)[:50], v, o, cnt[major], v, major),
                                        node=n, construct='time index|' + src(n.value)))
            if loads:
                major = max(loads, key=lambda o: sum(1 for n, oo, st in offs if not st and oo == o))
                for n, o, st in offs:
                    if st and o is not None and o not in (major, major + 1):
                        res.add(Finding('C14.TIMEIDX', f, '`%s` is written at step %s%+d, the pass reads step %s%+d' % (src(n)[:50], v, o, v, major), node=n,
                                        construct='time index store|' + src(n.value)))
            # roll-out calls
            rebound = set()
            for st in loop.body:
                for n in ast.walk(st):
                    if isinstance(n, ast.Name) and isinstance(n.ctx, ast.Store):
                        rebound.add(n.id)
            for st in loop.body:
                for c in ast.walk(st):
                    if isinstance(c, ast.Call) and (dotted(c.func) or '') in ('system', 'self.system', 'self.model'):
                        for i, a in enumerate(c.args):
                            names = {x.id for x in ast.walk(a) if isinstance(x, ast.Name)}
                            ok = v in names or bool(names & rebound)
                            res.inst({'function': f.fq, 'roll-out call': src(c)[:60], 'argument': i, 'varies with the loop': ok}, (f.fq, 'call', src(c)[:60], i))
                            if not ok:
                                res.add(Finding('C14.TIMEIDX', f, 'argument %d (`%s`) of the roll-out call `%s` is fixed before the loop (it mentions neither `%s` nor a name '
                                                'the loop re-binds): every step is driven by the first step\'s value' % (i, src(a)[:40], src(c)[:50], v), node=c,
                                                construct='rollout argument|%d' % i))
    return res


def _rules_core(repo, tier):
    from ..stale import rule_stale
    from ..effects import rule_pure
    from ..fresh import rule_fresh
    return [__import__('sa.rules.c15', fromlist=['x']).rule_adv(repo, 'C14.ADV'), rule_horizon(repo, tier), rule_timeidx(repo, tier), rule_pure(repo, 'C14.PURE', 'LQR / MPC do not write in place into x_init, the nominal input trajectory or the cost tensors they are given',
                      [(LQR, 'LQR.forward'), (LQR, 'LQR.lqr_backward'), (LQR, 'LQR.lqr_forward'), ('pypose.module.mpc', 'MPC.forward'),
                       ('pypose.module.dynamics', 'runsys'), ('pypose.module.dynamics', 'toBTN')]),
            rule_fresh(repo, 'C14.FRESH', 'the roll-out buffers and the cost accumulator of a solve are allocated by that solve: nothing written in place '
                       'in lqr_forward / lqr_backward / MPC.forward is loaded from the controller object', 
                       [(LQR, 'LQR.lqr_forward'), (LQR, 'LQR.lqr_backward'), ('pypose.module.mpc', 'MPC.forward'), ('pypose.module.dynamics', 'runsys')]),
            rule_clk(repo, tier), rule_sqz(repo, tier), rule_feas_cost(repo, tier), rule_gain(repo, tier), rule_best(repo, tier), rule_dyn(repo),
            rule_stale(repo, 'C14.STALE', [(LQR, 'LQR.lqr_backward'), (LQR, 'LQR.lqr_forward'), ('pypose.module.mpc', 'MPC.forward'), ('pypose.module.dynamics', 'runsys')])]


def rules(repo, tier):
    from ..memo import rule_memo
    from ..optional import rule_optional
    from ..mode import mode_rules
    from ..callsig import rule_callsig
    from ..docsig import rule_docsig
    from ..restore import rule_restore
    return list(_rules_core(repo, tier)) + __import__('sa.core', fromlist=['x']).reid([__import__('sa.rules.c15', fromlist=['x']).rule_own_hook(repo)], 'C14') + [rule_memo(repo, 'C14.MEMO', 'history independence: nothing computed from the contents of a tensor argument is kept '
                                                      'under the identity, address or version of that tensor, in module-level storage, or published from a generator '
                                                      'before it is complete - a later call with the same object and other contents must not be answered from it',
                                                      ['pypose.module.lqr', 'pypose.module.mpc', 'pypose.module.dynamics'], floor=3),
            rule_optional(repo, 'C14.OPT', ['pypose.module.lqr', 'pypose.module.mpc', 'pypose.module.dynamics'])] + mode_rules(repo, 'C14', ['pypose.module.lqr', 'pypose.module.mpc', 'pypose.module.dynamics']) + [rule_callsig(repo, 'C14.SIG', ['pypose.module.lqr', 'pypose.module.mpc', 'pypose.module.dynamics']), rule_docsig(repo, 'C14.DOC', ['pypose.module.lqr', 'pypose.module.mpc', 'pypose.module.dynamics'])] + [
            rule_restore(repo, 'C14.TEMP', ['pypose.module.lqr', 'pypose.module.mpc'])]
