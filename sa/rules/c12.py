"""C12 - cumulative products: structural clauses."""
import ast, copy
from ..core import RuleResult, Finding, AnalysisError, dotted, src, norm_construct, guarded, guarded_list
from ..expr import inline_straight, returns_of, dump, rv, Inliner
from ..kinds import kind, INT_DTYPES
from .. import paths

OPS = 'pypose.basics.ops'
LT = 'pypose.lietensor.lietensor'


# ---------------------------------------------------------------- KI (shared with C16.DEP)

def int_range_sites(finfo):
    """(call, bounds) for every integer-dtype torch.arange and builtin range in the function (nested defs excluded)."""
    out = []
    for c in paths.calls_in(finfo.node):
        d = dotted(c.func)
        if d == 'range':
            out.append((c, list(c.args)))
        elif d in ('torch.arange',):
            dt = [k.value for k in c.keywords if k.arg == 'dtype']
            if dt and dotted(dt[0]) in INT_DTYPES:
                out.append((c, list(c.args)))
    return out


def ki_check(finfo, res, rule):
    sites = int_range_sites(finfo)
    if not sites:
        return
    inl = None
    for c, bounds in sites:
        # environment just before the statement containing the call
        inl = inl or _StmtEnvs(finfo)
        kinds = []
        for b in bounds:
            kinds.append(kind(inl.value_at(c, b)))
        res.inst({'function': finfo.fq, 'site': src(c)[:80], 'kinds': kinds, 'line': c.lineno},
                 (finfo.fq, norm_construct(c, finfo.node)))
        for b, k in zip(bounds, kinds):
            if k == 'float':
                res.add(Finding(rule, finfo, 'bound `%s` of an integer range/arange has float kind (%s): a non-integral '
                                'value yields a wrong element count' % (src(b), src(inl.value_at(c, b))[:80]),
                                node=c, construct=norm_construct(c, finfo.node)))
            elif k == 'unknown':
                res.unresolved += 1


class _StmtEnvs:
    """inlined value of an expression at the statement containing a given node"""

    def __init__(self, finfo):
        self.inl = inline_straight(finfo.node)
        self.fnode = finfo.node

    def value_at(self, node, e):
        from ..expr import subst
        for st, env in self.inl.log:
            if any(n is node for n in ast.walk(st if not isinstance(st, (ast.For, ast.While, ast.If, ast.With, ast.Try)) else _header(st))):
                return subst(e, env)
        return subst(e, self.inl.env)


def _header(st):
    if isinstance(st, ast.For):
        return ast.Tuple([st.iter, st.target], ast.Load())
    if isinstance(st, (ast.While, ast.If)):
        return st.test
    if isinstance(st, ast.With):
        return ast.Tuple([i.context_expr for i in st.items], ast.Load())
    return ast.Tuple([], ast.Load())


@guarded
def rule_ki(repo, tier):
    res = RuleResult('C12.KI', 'every bound of an integer-dtype torch.arange / builtin range is of integer kind', floor=2)
    mods = [OPS] if tier == 'quick' else sorted(repo.modules)
    for m in mods:
        for f in repo.functions_view(m):
            ki_check(f, res, 'C12.KI')
    # the two aranges of cumops_ are the anchor
    f = repo.func(OPS, 'cumops_')
    if len(int_range_sites(f)) < 2:
        raise AnalysisError('C12.KI: cumops_ no longer has its two integer aranges')
    return res


# ---------------------------------------------------------------- ROLE / SB

def lambda_role(repo, finfo, e):
    """(op, first operand index, second operand index) of a binary scan operation given as lambda or def"""
    if isinstance(e, ast.Lambda):
        ps = [a.arg for a in e.args.args]
        body = e.body
    else:
        r = repo.resolve_expr(finfo, e)
        if not r or r[0] != 'func':
            return None
        ps = r[1].pos_params
        rets = returns_of(r[1].node)
        if len(rets) != 1:
            return None
        body = inline_straight(r[1].node, upto=rets[0]).value(rets[0].value)
    if len(ps) != 2:
        return None
    if isinstance(body, ast.BinOp) and isinstance(body.left, ast.Name) and isinstance(body.right, ast.Name) \
            and {body.left.id, body.right.id} == set(ps):
        return (type(body.op).__name__, ps.index(body.left.id), ps.index(body.right.id))
    d = dotted(body.func) if isinstance(body, ast.Call) else None
    if d in ('torch.matmul', 'torch.mul') and len(body.args) == 2 and all(isinstance(a, ast.Name) for a in body.args):
        return ('MatMult' if d == 'torch.matmul' else 'Mult', ps.index(body.args[0].id), ps.index(body.args[1].id))
    return None


def branch_calls(finfo):
    """-> {True: call, False: call} for the `if left:` / else structure (also accepts `not left`, IfExp,
    `left is True` ...).  Returns None when the shape is not recognised."""
    fn = finfo.node
    out = {}
    pths, _ = paths.function_paths(fn, limit=64)
    for ev, ex in pths:
        truth = None
        ret = None
        inl = Inliner()
        for e in ev:
            if e[0] == 'assume':
                t = _left_truth(e[1], e[2])
                if t is not None:
                    truth = t
            if e[0] == 'stmt' and isinstance(e[1], ast.Return):
                ret = inl.value(e[1].value) if e[1].value is not None else None
            elif e[0] == 'stmt':
                inl.feed(e[1])
        if ex != 'return' or ret is None:
            continue
        if isinstance(ret, ast.IfExp):
            t = _left_truth(ret.test, True)
            if t is not None:
                out[t] = ret.body
                out[not t] = ret.orelse
                continue
        # f(input, dim, op_a if left else op_b): the conditional sits on one argument of the delegate call
        if isinstance(ret, ast.Call):
            conds = [(i, a) for i, a in enumerate(ret.args) if isinstance(a, ast.IfExp) and _left_truth(a.test, True) is not None] + \
                    [(k.arg, k.value) for k in ret.keywords if isinstance(k.value, ast.IfExp) and _left_truth(k.value.test, True) is not None]
            if len(conds) == 1:
                pos, ife = conds[0]
                t = _left_truth(ife.test, True)
                for truth_, alt in ((t, ife.body), (not t, ife.orelse)):
                    c2 = copy.deepcopy(ret)
                    if isinstance(pos, int):
                        c2.args[pos] = alt
                    else:
                        for k in c2.keywords:
                            if k.arg == pos:
                                k.value = alt
                    out[truth_] = c2
                continue
        if truth is None:
            return None
        out[truth] = ret
    return out if set(out) == {True, False} else None


def _left_truth(test, taken):
    if isinstance(test, ast.Name) and test.id == 'left':
        return taken
    if isinstance(test, ast.UnaryOp) and isinstance(test.op, ast.Not):
        t = _left_truth(test.operand, taken)
        return None if t is None else (not t)
    if isinstance(test, ast.Compare) and isinstance(test.left, ast.Name) and test.left.id == 'left' and len(test.ops) == 1 \
            and isinstance(test.comparators[0], ast.Constant) and isinstance(test.comparators[0].value, bool):
        v = test.comparators[0].value
        if isinstance(test.ops[0], (ast.Is, ast.Eq)):
            return taken if v else (not taken)
        if isinstance(test.ops[0], (ast.IsNot, ast.NotEq)):
            return (not taken) if v else taken
    return None


WRAPPERS = {'cummul': ('Mult', 'cumops'), 'cummul_': ('Mult', 'cumops_'), 'cumprod': ('MatMult', 'cumops'),
            'cumprod_': ('MatMult', 'cumops_')}


@guarded
def rule_role(repo, tier):
    res = RuleResult('C12.ROLE', 'left => lambda returns later o earlier (b o a), else a o b, with o = * for cummul and @ '
                     'for cumprod; cumops_ hands the earlier (index - stride) selection first and writes at index', floor=9)
    roles = {}
    for name, (op, target) in WRAPPERS.items():
        f = repo.func(OPS, name)
        bc = branch_calls(f)
        if bc is None:
            raise AnalysisError('C12.ROLE: %s no longer has a recognisable left/right branch' % name)
        for left, callx in bc.items():
            if not isinstance(callx, ast.Call) or len(callx.args) + len(callx.keywords) < 3:
                raise AnalysisError('C12.ROLE: %s branch left=%s is not a call with (input, dim, ops)' % (name, left))
            tgt = repo.resolve_call(f, callx)[0]
            opsarg = callx.args[2] if len(callx.args) >= 3 else [k.value for k in callx.keywords if k.arg == 'ops'][0]
            role = lambda_role(repo, f, opsarg)
            roles[(name, left)] = (role, tgt[0].name if tgt else None, callx.args[0] if callx.args else None)
            res.inst({'function': f.fq, 'left': left, 'role': role, 'delegates_to': tgt[0].name if tgt else None})
            if role is None:
                # a product of the two operands wrapped in something else: the partial products are post-processed between the passes
                if isinstance(opsarg, ast.Lambda) and isinstance(opsarg.body, ast.Call) and any(
                        isinstance(x, ast.BinOp) and isinstance(x.op, (ast.Mult, ast.MatMult)) and {dotted(x.left), dotted(x.right)} == {a.arg for a in opsarg.args.args}
                        for a_ in list(opsarg.body.args) + [opsarg.body.func.value if isinstance(opsarg.body.func, ast.Attribute) else None] if a_ is not None for x in ast.walk(a_)):
                    res.add(Finding('C12.ROLE', f, 'the operation %s(left=%s) hands to the scan is `%s`: every partial product is post-processed (`%s`) before it is combined '
                                    'again, so position i no longer holds exactly x_i o ... o x_1 - whatever the wrapper does to an item (re-normalise, round, clamp) is '
                                    'applied log2(L) times and to layouts it may not fit' % (name, left, src(opsarg)[:50], src(opsarg.body.func)[:30]), node=callx,
                                    construct='scan operation wrapped|%s|%s' % (name, left)))
                    continue
                res.unresolved += 1
                raise AnalysisError('C12.ROLE: cannot read the scan operation of %s(left=%s): %s' % (name, left, src(opsarg)))
            want = (op, 1, 0) if left else (op, 0, 1)
            if role != want:
                res.add(Finding('C12.ROLE', f, '%s(left=%s) combines as %s, documented order needs %s (a=earlier, b=later)'
                                % (name, left, _fmt(role), _fmt(want)), node=callx))
            if not tgt or tgt[0].name != target or tgt[0].module.name != OPS:
                res.add(Finding('C12.CLONE' if name in ('cummul', 'cumprod') else 'C12.ROLE', f,
                                '%s must delegate to %s, calls %s' % (name, target, tgt[0].fq if tgt else src(callx.func)), node=callx))
    # cumops_: ops(earlier, later) and destination index
    f = repo.func(OPS, 'cumops_')
    inl = inline_straight(f.node)
    found = 0
    for c in paths.calls_in(f.node):
        if isinstance(c.func, ast.Attribute) and c.func.attr == 'index_copy_':
            found += 1
            stenv = _StmtEnvs(f)
            if len(c.args) < 3:
                raise AnalysisError('C12.ROLE: index_copy_ call shape changed')
            dst_idx = stenv.value_at(c, c.args[1])
            val = stenv.value_at(c, c.args[2])
            ok = False
            detail = ''
            if isinstance(val, ast.Call) and isinstance(val.func, ast.Name) and val.func.id in f.pos_params and len(val.args) == 2:
                sel = [_sel_index(a) for a in val.args]
                if None not in sel:
                    first, second = sel
                    # first = second - stride ; second = destination
                    if isinstance(first, ast.BinOp) and isinstance(first.op, ast.Sub) and dump(first.left) == dump(second) \
                            and dump(second) == dump(dst_idx) and _is_start_of(second, first.right):
                        ok = True
                    else:
                        detail = 'ops(%s, %s) written at %s' % (src(first)[:60], src(second)[:60], src(dst_idx)[:60])
                else:
                    detail = 'operands are not index selections: ' + src(val)[:100]
            else:
                detail = 'value is not ops(sel, sel): ' + src(val)[:100]
            res.inst({'function': f.fq, 'site': 'index_copy_', 'ok': ok})
            if not ok:
                res.add(Finding('C12.ROLE', f, 'cumops_ must write ops(v[index - stride], v[index]) at index; ' + detail, node=c))
    if not found:
        raise AnalysisError('C12.ROLE: cumops_ has no index_copy_ any more')
    return res


def _sel_index(e):
    """index expression of  X.index_select(dim, IDX) / torch.index_select(X, dim, IDX) / X[IDX]"""
    if isinstance(e, ast.Call) and isinstance(e.func, ast.Attribute) and e.func.attr == 'index_select' and len(e.args) == 2:
        return e.args[1]
    if isinstance(e, ast.Call) and dotted(e.func) == 'torch.index_select' and len(e.args) == 3:
        return e.args[2]
    return None


def _is_start_of(idx, stride):
    """idx = torch.arange(stride, L, ...): positions >= stride"""
    return isinstance(idx, ast.Call) and dotted(idx.func) == 'torch.arange' and idx.args and dump(idx.args[0]) == dump(stride)


def _fmt(role):
    if role is None:
        return '?'
    names = 'ab'
    sym = {'Mult': '*', 'MatMult': '@'}.get(role[0], role[0])
    return '%s %s %s' % (names[role[1]], sym, names[role[2]])


@guarded
def rule_sb(repo, tier):
    res = RuleResult('C12.SB', 'each in-place scan wrapper and its out-of-place twin pass identical operations', floor=4)
    for a, b in (('cummul', 'cummul_'), ('cumprod', 'cumprod_')):
        fa, fb = repo.func(OPS, a), repo.func(OPS, b)
        ba, bb = branch_calls(fa), branch_calls(fb)
        if ba is None or bb is None:
            raise AnalysisError('C12.SB: branch shape lost in %s/%s' % (a, b))
        for left in (True, False):
            ra = lambda_role(repo, fa, ba[left].args[2]) if len(ba[left].args) >= 3 else None
            rb = lambda_role(repo, fb, bb[left].args[2]) if len(bb[left].args) >= 3 else None
            res.inst({'pair': (a, b), 'left': left, 'roles': (ra, rb)})
            if ra != rb:
                res.add(Finding('C12.SB', fa, '%s and %s disagree for left=%s: %s vs %s' % (a, b, left, _fmt(ra), _fmt(rb)),
                                node=ba[left], construct='%s/%s left=%s' % (a, b, left)))
    return res


FRESH_SELECT = {'index_select', 'clone', 'gather', 'take', 'masked_select'}


@guarded
def rule_clone_alias(repo, tier):
    res = RuleResult('C12.CLONE', 'cumops hands a clone to cumops_; index_copy_ source is computed from copying selections', floor=2)
    f = repo.func(OPS, 'cumops')
    rets = returns_of(f.node)
    ok = False
    for r in rets:
        v = inline_straight(f.node, upto=r).value(r.value)
        if isinstance(v, ast.Call):
            tgt = repo.resolve_call(f, v)[0]
            if tgt and tgt[0].name == 'cumops_' and v.args:
                a0 = v.args[0]
                ok = isinstance(a0, ast.Call) and isinstance(a0.func, ast.Attribute) and a0.func.attr == 'clone' \
                    and isinstance(a0.func.value, ast.Name) and a0.func.value.id == f.pos_params[0]
        res.inst({'function': f.fq, 'return': src(v)[:100], 'clones': ok})
        if not ok:
            res.add(Finding('C12.CLONE', f, 'cumops must run the in-place scan on a clone of its input; returns %s' % src(v)[:100], node=r))
    # ALIAS
    g = repo.func(OPS, 'cumops_')
    for c in paths.calls_in(g.node):
        if isinstance(c.func, ast.Attribute) and c.func.attr == 'index_copy_' and len(c.args) >= 3:
            val = _StmtEnvs(g).value_at(c, c.args[2])
            dest = dotted(c.func.value)
            bad = []
            if isinstance(val, ast.Call):
                for a in val.args:
                    if not (isinstance(a, ast.Call) and isinstance(a.func, ast.Attribute) and a.func.attr in FRESH_SELECT) \
                            and not (isinstance(a, ast.Call) and dotted(a.func) in ('torch.index_select', 'torch.gather')):
                        bad.append(src(a)[:80])
            res.inst({'function': g.fq, 'site': 'index_copy_ source', 'views': bad})
            for b in bad:
                res.add(Finding('C12.ALIAS', g, 'operand %s handed to the scan operation may be a view of the destination `%s` '
                                'that index_copy_ overwrites' % (b, dest), node=c))
    return res


@guarded
def rule_deleg(repo, tier):
    res = RuleResult('C12.DELEG', 'LieType.cum* and LieTensor.cum* delegate to the same-named function', floor=12)
    for n in ('cumops', 'cummul', 'cumprod', 'cumops_', 'cummul_', 'cumprod_'):
        f = repo.func(LT, 'LieType.' + n)
        rets = returns_of(f.node)
        tgt = None
        v0 = rv(f.node, rets[0]) if len(rets) == 1 else None
        if isinstance(v0, ast.Call):
            t = repo.resolve_call(f, v0, by_name=False)[0]
            tgt = t[0] if t else None
        ok = tgt is not None and tgt.module.name == OPS and tgt.name == n
        # arguments forwarded in order
        if ok:
            args = [a.id if isinstance(a, ast.Name) else None for a in v0.args]
            ok = args == f.pos_params[1:1 + len(args)] and len(args) == 3
        res.inst({'function': f.fq, 'target': tgt.fq if tgt else None})
        if not ok:
            res.add(Finding('C12.DELEG', f, 'LieType.%s must return %s(X, dim, ...) of pypose.basics.ops with its arguments in order' % (n, n),
                            node=rets[0] if rets else None))
        g = repo.func(LT, 'LieTensor.' + n)
        rets = returns_of(g.node)
        ok = False
        v0 = rv(g.node, rets[0]) if len(rets) == 1 else None
        if isinstance(v0, ast.Call):
            c = v0
            ok = dotted(c.func) == 'self.ltype.' + n and [dotted(a) for a in c.args] == ['self'] + g.pos_params[1:]
        res.inst({'function': g.fq, 'ok': ok})
        if not ok:
            res.add(Finding('C12.DELEG', g, 'LieTensor.%s must return self.ltype.%s(self, ...)' % (n, n), node=rets[0] if rets else None))
    return res


@guarded
def rule_ext(repo, tier):
    res = RuleResult('C12.EXT', 'cumops_: the number of doubling strides and the index range of every stride are derived from one and the same '
                     'extent, the size of the scanned dimension', floor=2)
    f = repo.func(OPS, 'cumops_')
    env = _StmtEnvs(f)
    sizes = []
    p0, dimname = f.pos_params[0], f.pos_params[1]
    want = '%s.shape[%s]' % (p0, dimname)

    def atoms_of(v, out):
        """outermost size expressions only: an extent written as input.shape[<normalised dim>] is ONE extent, whatever its index contains"""
        if isinstance(v, ast.Subscript) and isinstance(v.value, ast.Attribute) and v.value.attr == 'shape':
            if dotted(v.value.value) == p0 and dimname in {n.id for n in ast.walk(v.slice) if isinstance(n, ast.Name)}:
                out.add(want)
            else:
                out.add(src(v).replace(' ', ''))
            return
        if isinstance(v, ast.Call) and (dotted(v.func) == 'len' or (isinstance(v.func, ast.Attribute) and v.func.attr in ('size', 'numel'))):
            if isinstance(v.func, ast.Attribute) and v.func.attr == 'size' and dotted(v.func.value) == p0 and len(v.args) == 1 and \
                    dimname in {n.id for n in ast.walk(v.args[0]) if isinstance(n, ast.Name)}:
                out.add(want)
            else:
                out.add(src(v).replace(' ', ''))
            return
        for ch in ast.iter_child_nodes(v):
            atoms_of(ch, out)
    for c, bounds in int_range_sites(f):
        atoms = set()
        for b in bounds:
            atoms_of(env.value_at(c, b), atoms)
        sizes.append((c, atoms))
        res.inst({'function': f.fq, 'site': src(c)[:60], 'extent_atoms': sorted(atoms)}, norm_construct(c, f.node))
    allatoms = set().union(*[a for _, a in sizes]) if sizes else set()
    if len(allatoms) > 1 or (allatoms and want not in allatoms):
        res.add(Finding('C12.EXT', f, 'the stride schedule and the index ranges of cumops_ are bounded by different extents %s; both must follow '
                        'the size of the scanned dimension `%s`' % (sorted(allatoms), want), construct='extent atoms %s' % sorted(allatoms)))
    return res


# storage-preserving tensor methods: the result is ALWAYS a view of the receiver (contiguous / reshape / flatten / to / clone may copy)
MUST_VIEW = {'movedim', 'moveaxis', 'transpose', 'permute', 'view', 'view_as', 'unsqueeze', 'squeeze', 'swapaxes', 'swapdims', 'narrow', 'select',
             'expand', 'expand_as', 'as_strided', 'unflatten', 'detach', 'tensor', 'diagonal', 'unfold', 'requires_grad_'}
MUST_VIEW_ATTRS = {'T', 'mT', 'data', 'real'}


def _view_root(repo, f, e, inl, depth=0):
    """name of the parameter of f whose storage the value of e is guaranteed to share (None: may be a copy / unknown)"""
    e = inl.value(e) if inl is not None else e
    while True:
        if isinstance(e, ast.Name):
            return e.id if e.id in f.params else None
        if isinstance(e, ast.Attribute) and e.attr in MUST_VIEW_ATTRS:
            e = e.value
            continue
        if isinstance(e, ast.Subscript):
            sl = e.slice
            elts = sl.elts if isinstance(sl, ast.Tuple) else [sl]
            if all(isinstance(x, ast.Slice) or (isinstance(x, ast.Constant) and (x.value is Ellipsis or x.value is None or isinstance(x.value, int)))
                   for x in elts):
                e = e.value
                continue
            return None
        if isinstance(e, ast.Call):
            if isinstance(e.func, ast.Attribute) and e.func.attr in MUST_VIEW:
                e = e.func.value
                continue
            if isinstance(e.func, ast.Attribute) and e.func.attr.endswith('_') and not e.func.attr.startswith('_'):
                e = e.func.value          # in-place methods return their receiver
                continue
            if depth < 2:
                tg, how = repo.resolve_call(f, e, by_name=False)
                if len(tg) == 1 and how in ('direct', 'self'):
                    g = tg[0]
                    rets = returns_of(g.node)
                    roots = set()
                    for r in rets:
                        roots.add(_view_root(repo, g, r.value, inline_straight(g.node, upto=r), depth + 1))
                    if len(roots) == 1 and None not in roots:
                        pname = roots.pop()
                        gp = g.pos_params
                        skip = 1 if how == 'self' else 0
                        if pname in gp:
                            k = gp.index(pname) - skip
                            if 0 <= k < len(e.args):
                                e = e.args[k]
                                continue
                            for kw in e.keywords:
                                if kw.arg == pname:
                                    e = kw.value
                                    break
                            else:
                                return None
                            continue
            return None
        return None


@guarded
def rule_inplace(repo, tier):
    res = RuleResult('C12.INPLACE', 'the in-place scans overwrite their input: the destination of every in-place write in cumops_ and the value it returns '
                     'are guaranteed views of the `input` argument (no possibly-copying step in between), and cummul_/cumprod_ pass their own input through',
                     floor=4)
    g = repo.func(OPS, 'cumops_')
    p0 = g.pos_params[0]
    n = 0
    envs = _StmtEnvs(g)
    for c in paths.calls_in(g.node):
        if isinstance(c.func, ast.Attribute) and c.func.attr.endswith('_') and not c.func.attr.startswith('_') and \
                c.func.attr in ('index_copy_', 'copy_', 'index_put_', 'scatter_', 'index_add_', 'mul_', 'add_'):
            recv = envs.value_at(c, c.func.value)
            root = _view_root(repo, g, recv, None)
            n += 1
            res.inst({'function': g.fq, 'in-place write': src(c)[:70], 'destination shares storage with': root})
            if root != p0:
                res.add(Finding('C12.INPLACE', g, '`%s` writes into `%s`, which is not guaranteed to share storage with the argument `%s` (a possibly-copying '
                                'step such as contiguous/reshape/clone lies between): the caller\'s tensor is left unchanged whenever that step copies'
                                % (src(c)[:60], src(recv)[:60], p0), node=c))
    if n == 0:
        raise AnalysisError('C12.INPLACE: no in-place write found in cumops_')
    for r in returns_of(g.node):
        if r.value is None:
            res.add(Finding('C12.INPLACE', g, 'cumops_ has a bare `return`: that path returns None, not the overwritten argument `%s`' % p0, node=r,
                            construct='bare return'))
            continue
        root = _view_root(repo, g, r.value, inline_straight(g.node, upto=r))
        res.inst({'function': g.fq, 'returns': src(r.value)[:60], 'shares storage with': root})
        if root != p0:
            res.add(Finding('C12.INPLACE', g, 'cumops_ returns `%s`, not guaranteed to be the overwritten argument `%s`' % (src(r.value)[:60], p0), node=r))
    for wn in ('cummul_', 'cumprod_'):
        w = repo.func(OPS, wn)
        for r in returns_of(w.node):
            v = rv(w.node, r)
            ok = isinstance(v, ast.Call) and repo.resolve_call(w, v)[0] and repo.resolve_call(w, v)[0][0].name == 'cumops_' and v.args \
                and _view_root(repo, w, v.args[0], None) == w.pos_params[0]
            res.inst({'function': w.fq, 'return': src(r.value)[:60], 'passes its own input': bool(ok)})
            if not ok:
                res.add(Finding('C12.INPLACE', w, '%s does not hand its own `%s` to cumops_ (%s)' % (wn, w.pos_params[0], src(r.value)[:60]), node=r))
    return res


def _negdim_uses(fnode, dim='dim'):
    """arithmetic / counting uses of the axis parameter that are only right for a non-negative value, made before any normalisation"""
    normalised_at = None
    for n in ast.walk(fnode):
        if isinstance(n, ast.Assign) and any(isinstance(t, ast.Name) and t.id == dim for t in n.targets):
            v = n.value
            if (isinstance(v, ast.BinOp) and isinstance(v.op, ast.Mod)) or (isinstance(v, ast.IfExp)) or \
                    (isinstance(v, ast.BinOp) and isinstance(v.op, ast.Add) and any(isinstance(x, ast.Call) for x in ast.walk(v))):
                normalised_at = min(normalised_at or n.lineno, n.lineno)
        if isinstance(n, ast.If) and any(isinstance(x, ast.Name) and x.id == dim for x in ast.walk(n.test)) and \
                any(isinstance(a, (ast.AugAssign, ast.Assign)) and any(isinstance(x, ast.Name) and x.id == dim for x in ast.walk(a)) for a in n.body):
            normalised_at = min(normalised_at or n.lineno, n.lineno)
    out = []
    for n in ast.walk(fnode):
        ln = getattr(n, 'lineno', 0)
        if normalised_at is not None and ln > normalised_at:
            continue
        if isinstance(n, ast.BinOp) and isinstance(n.op, (ast.Mult, ast.Add, ast.Sub)) and not isinstance(n.op, ast.Mod):
            for a, b in ((n.left, n.right), (n.right, n.left)):
                if isinstance(a, ast.Name) and a.id == dim and isinstance(b, (ast.Tuple, ast.List)):
                    out.append((n, 'a tuple is repeated `%s` times' % dim))
                elif isinstance(a, ast.Name) and a.id == dim and isinstance(n.op, ast.Mult) and isinstance(b, ast.Name) is False and not isinstance(b, ast.Constant):
                    if any(isinstance(x, (ast.Tuple, ast.List)) for x in ast.walk(b)):
                        out.append((n, 'a tuple is repeated `%s` times' % dim))
        elif isinstance(n, ast.Call) and isinstance(n.func, ast.Name) and n.func.id == 'range' and any(isinstance(x, ast.Name) and x.id == dim for a in n.args for x in ast.walk(a)):
            out.append((n, '`range` counts up to `%s`' % dim))
        elif isinstance(n, ast.Slice) and any(isinstance(b, ast.Name) and b.id == dim for b in (n.lower, n.upper) if b is not None):
            out.append((n, 'a shape / index tuple is sliced at `%s`' % dim))
    return out


def _dim_guards(fnode):
    """[(node, test, positive)]: asserts (positive: the test must hold) and `if test: raise` guards (negative) that mention the axis parameter"""
    out = []
    for n in ast.walk(fnode):
        if isinstance(n, ast.Assert) and any(isinstance(x, ast.Name) and x.id == 'dim' for x in ast.walk(n.test)):
            out.append((n, n.test, True))
        elif isinstance(n, ast.If) and n.body and isinstance(n.body[0], ast.Raise) and any(isinstance(x, ast.Name) and x.id == 'dim' for x in ast.walk(n.test)):
            out.append((n, n.test, False))
    return out


def _eval_guard(e, axis, d, r):
    """evaluate an axis guard for dim = d on a tensor of rank r; ValueError when the guard mentions anything but dim, the rank and integers"""
    if isinstance(e, ast.Constant) and isinstance(e.value, (int, bool)):
        return e.value
    if isinstance(e, ast.Name) and e.id == axis:
        return d
    if isinstance(e, ast.Attribute) and e.attr == 'ndim':
        return r
    if isinstance(e, ast.Call) and isinstance(e.func, ast.Attribute) and e.func.attr in ('dim', 'ndimension') and not e.args:
        return r
    if isinstance(e, ast.Call) and isinstance(e.func, ast.Name) and e.func.id == 'len' and e.args and isinstance(e.args[0], ast.Attribute) and e.args[0].attr == 'shape':
        return r
    if isinstance(e, ast.Call) and isinstance(e.func, ast.Name) and e.func.id == 'len' and e.args and isinstance(e.args[0], ast.Attribute) and e.args[0].attr == 'lshape':
        return r - 1                                     # the LieTensor shape without the last (item) dimension
    if isinstance(e, ast.BinOp) and isinstance(e.op, ast.Mod):
        a, b = _eval_guard(e.left, axis, d, r), _eval_guard(e.right, axis, d, r)
        if b == 0:
            raise ValueError('modulo zero')
        return a % b
    if isinstance(e, ast.UnaryOp) and isinstance(e.op, ast.USub):
        return -_eval_guard(e.operand, axis, d, r)
    if isinstance(e, ast.UnaryOp) and isinstance(e.op, ast.Not):
        return not _eval_guard(e.operand, axis, d, r)
    if isinstance(e, ast.BinOp) and isinstance(e.op, (ast.Add, ast.Sub)):
        a, b = _eval_guard(e.left, axis, d, r), _eval_guard(e.right, axis, d, r)
        return a + b if isinstance(e.op, ast.Add) else a - b
    if isinstance(e, ast.BoolOp):
        vs = [_eval_guard(v, axis, d, r) for v in e.values]
        return all(vs) if isinstance(e.op, ast.And) else any(vs)
    if isinstance(e, ast.Compare):
        vals = [_eval_guard(x, axis, d, r) for x in [e.left] + e.comparators]
        ops = {ast.Lt: lambda a, b: a < b, ast.LtE: lambda a, b: a <= b, ast.Gt: lambda a, b: a > b, ast.GtE: lambda a, b: a >= b,
               ast.Eq: lambda a, b: a == b, ast.NotEq: lambda a, b: a != b}
        out = True
        for op, a, b in zip(e.ops, vals, vals[1:]):
            if type(op) not in ops:
                raise ValueError('operator')
            out = out and ops[type(op)](a, b)
        return out
    raise ValueError('outside the guard language: ' + ast.dump(e)[:40])


def _ifexp_alternatives(e):
    """all expressions obtained by choosing one arm of every conditional expression in e"""
    import itertools
    if isinstance(e, ast.IfExp):
        return _ifexp_alternatives(e.body) + _ifexp_alternatives(e.orelse)
    if not isinstance(e, ast.AST):
        return [e]
    fields, choices = [], []
    for name, val in ast.iter_fields(e):
        fields.append(name)
        if isinstance(val, list):
            per = [_ifexp_alternatives(x) for x in val]
            choices.append([list(c) for c in itertools.product(*per)] if per else [[]])
        else:
            choices.append(_ifexp_alternatives(val))
    out = []
    for combo in itertools.islice(itertools.product(*choices), 64):
        out.append(ast.copy_location(type(e)(**dict(zip(fields, combo))), e) if hasattr(e, 'lineno') else type(e)(**dict(zip(fields, combo))))
    return out


def _dim_rebindings(fnode):
    """[(source, {(rank, dim): value | None})] for every `dim = <expr>` of the function, local integer names substituted, every arm of a conditional
    expression taken as an alternative"""
    from ..expr import inline_straight
    out = []
    for n in ast.walk(fnode):
        if isinstance(n, ast.Assign) and len(n.targets) == 1 and isinstance(n.targets[0], ast.Name) and n.targets[0].id == 'dim':
            try:
                v = inline_straight(fnode, upto=n).value(n.value)
            except Exception:
                v = n.value
            for alt in _ifexp_alternatives(v):
                vals = {}
                for r in (2, 3, 4):
                    for d in range(-r, r):
                        try:
                            vals[(r, d)] = _eval_guard(alt, 'dim', d, r)
                        except (ValueError, TypeError):
                            vals[(r, d)] = None
                out.append((src(alt), vals))
    return out


class _NoSched(Exception):
    pass


def _sched_eval(e, L):
    """value of the pass-count expression for the sequence length L: integers, + - * //, int(), math.log2 / ceil / floor, (..).bit_length(), the name L"""
    import math
    if isinstance(e, ast.Constant) and isinstance(e.value, (int, float)):
        return e.value
    if isinstance(e, ast.Name) and e.id == 'L':
        return L
    if isinstance(e, ast.Subscript) and isinstance(e.value, ast.Attribute) and e.value.attr == 'shape':
        return L                                           # the extent of the scanned axis
    if isinstance(e, ast.Call) and isinstance(e.func, ast.Attribute) and e.func.attr == 'size' and len(e.args) == 1:
        return L
    if isinstance(e, ast.BinOp):
        a, b = _sched_eval(e.left, L), _sched_eval(e.right, L)
        if isinstance(e.op, ast.Add):
            return a + b
        if isinstance(e.op, ast.Sub):
            return a - b
        if isinstance(e.op, ast.Mult):
            return a * b
        if isinstance(e.op, ast.FloorDiv) and b != 0:
            return a // b
        if isinstance(e.op, ast.Div) and b != 0:
            return a / b
    if isinstance(e, ast.UnaryOp) and isinstance(e.op, ast.USub):
        return -_sched_eval(e.operand, L)
    if isinstance(e, ast.Call):
        d = dotted(e.func) or ''
        if d in ('int', 'math.floor', 'math.ceil', 'math.log2', 'max', 'min') and e.args:
            vs = [_sched_eval(a, L) for a in e.args]
            if d == 'math.log2':
                if vs[0] <= 0:
                    raise _NoSched('log2 of %r' % vs[0])
                return math.log2(vs[0])
            return {'int': lambda: int(vs[0]), 'math.floor': lambda: math.floor(vs[0]), 'math.ceil': lambda: math.ceil(vs[0]), 'max': lambda: max(vs), 'min': lambda: min(vs)}[d]()
        if isinstance(e.func, ast.Attribute) and e.func.attr == 'bit_length' and not e.args:
            v = _sched_eval(e.func.value, L)
            if isinstance(v, int):
                return v.bit_length()
    raise _NoSched(src(e)[:40])


@guarded
def rule_sched(repo, tier):
    """The index schedule of the doubling scan depends on L only: pass k combines item j with item j - 2^k.  With n(L) passes the scan is the fold of all L items
    iff 2^n >= L, and every pass has something to combine iff 2^(n-1) < L - so n(L) = ceil(log2 L) exactly (0 passes for L = 1).  The pass-count expression is
    read from the source and evaluated for every L in 1..4096 (the whole range the property quantifies over).  One pass too few leaves the tail folded over a
    window; one pass too many calls the user's operation with two EMPTY operands (stride >= L), which item-wise operations (a Python loop / torch.stack over
    the items) cannot take."""
    res = RuleResult('C12.SCHED', 'cumops_: the number of doubling passes read from the source equals ceil(log2 L) for every L in 1..4096 (no missing pass, no pass with an '
                     'empty index range)', floor=1)
    f = repo.func(OPS, 'cumops_')
    loops = [n for n in ast.walk(f.node) if isinstance(n, ast.For)]
    counts = []
    for lp in loops:
        it = inline_straight(f.node, upto=lp).value(lp.iter)
        for c in ast.walk(it):
            if isinstance(c, ast.Call) and dotted(c.func) in ('torch.arange', 'range') and c.args:
                counts.append((lp, c.args[0] if len(c.args) == 1 else None, c))
    counts = [(lp, e, c) for lp, e, c in counts if e is not None]
    if not counts:
        raise AnalysisError('C12.SCHED: the pass count of the doubling loop was not found')
    lp, e, c = counts[0]
    # the length variable: the name bound to input.shape[dim]
    lname = None
    for n in ast.walk(f.node):
        if isinstance(n, ast.Assign):
            for t, v in (zip(n.targets[0].elts, n.value.elts) if isinstance(n.targets[0], ast.Tuple) and isinstance(n.value, ast.Tuple) else [(n.targets[0], n.value)]):
                if isinstance(t, ast.Name) and isinstance(v, ast.Subscript) and isinstance(v.value, ast.Attribute) and v.value.attr == 'shape':
                    lname = t.id
    class Ren(ast.NodeTransformer):
        def visit_Name(self, n):
            return ast.Name('L', n.ctx) if n.id == lname else n
    import copy, math
    e2 = Ren().visit(copy.deepcopy(e))
    few = many = None
    try:
        for L in range(1, 4097):
            n = _sched_eval(e2, L)
            want = (L - 1).bit_length()
            if n < want and few is None:
                few = (L, n, want)
            if n > want and many is None:
                many = (L, n, want)
    except _NoSched as ex:
        raise AnalysisError('C12.SCHED: the pass count `%s` could not be evaluated (%s)' % (src(e)[:50], ex))
    res.inst({'function': f.fq, 'pass count': src(e)[:60], 'first L with a missing pass': few, 'first L with an empty pass': many}, (f.fq, 'sched'))
    if few:
        res.add(Finding('C12.SCHED', f, 'the doubling loop makes %d passes for L = %d, ceil(log2 L) = %d are needed: items beyond position 2^%d are folded over a window, not '
                        'over the whole prefix' % (few[1], few[0], few[2], few[1]), node=c, construct='too few doubling passes'))
    if many:
        res.add(Finding('C12.SCHED', f, 'the doubling loop makes %d passes for L = %d (ceil(log2 L) = %d): the last pass has stride >= L, an EMPTY index range, and still calls '
                        'the operation with two zero-length operands - an associative operation written item by item (a loop / torch.stack over the items) raises for '
                        'exactly these lengths (every power of two)' % (many[1], many[0], many[2]), node=c, construct='doubling pass with an empty range'))
    return res


@guarded
def rule_order(repo, tier):
    """The doubling scan combines item j with item j - s for the strides s = 1, 2, 4, ... IN THAT ORDER: after the pass with stride s every item holds the fold of
    the 2s items ending at it.  The iterable of the stride loop is therefore an ordered, ascending sequence (a tensor / list / range built from an increasing
    range); a set has hash order (ascending only for few small powers of two), a reversed / descending sequence combines the wrong partial folds."""
    res = RuleResult('C12.ORDER', 'cumops_: the strides of the doubling passes are visited in ascending order - the loop iterates an ordered sequence (never a set / dict / '
                     'reversed sequence)', floor=1)
    f = repo.func(OPS, 'cumops_')
    loops = [n for n in ast.walk(f.node) if isinstance(n, ast.For) and any(isinstance(c, ast.Call) and isinstance(c.func, ast.Attribute) and c.func.attr in ('index_copy_', 'copy_', 'index_select')
                                                                        or isinstance(c, ast.Subscript) and isinstance(c.ctx, ast.Store) for b in n.body for c in ast.walk(b))]
    if not loops:
        raise AnalysisError('C12.ORDER: the doubling loop of cumops_ was not found')
    for lp in loops:
        it = lp.iter
        v = inline_straight(f.node, upto=lp).value(it) if not isinstance(it, (ast.Set, ast.SetComp)) else it
        bad = None
        for x in ast.walk(v):
            if isinstance(x, (ast.Set, ast.SetComp, ast.Dict, ast.DictComp)):
                bad = 'a set / dict (hash order)'
            elif isinstance(x, ast.Call) and (dotted(x.func) or '') in ('set', 'frozenset', 'dict.fromkeys'):
                bad = 'a set (hash order)'
            elif isinstance(x, ast.Call) and ((dotted(x.func) or '').split('.')[-1] in ('reversed', 'flip') or (isinstance(x.func, ast.Attribute) and x.func.attr in ('flip', 'reverse'))):
                bad = 'a reversed sequence'
            elif isinstance(x, ast.Call) and (dotted(x.func) or '') == 'sorted' and any(k.arg == 'reverse' and isinstance(k.value, ast.Constant) and k.value.value for k in x.keywords):
                bad = 'a descending sequence'
            elif isinstance(x, ast.Slice) and isinstance(x.step, ast.UnaryOp) and isinstance(x.step.op, ast.USub):
                bad = 'a reversed slice'
        res.inst({'function': f.fq, 'stride iterable': src(v)[:70], 'ordered ascending': bad is None}, (f.fq, src(it)[:60]))
        if bad:
            res.add(Finding('C12.ORDER', f, 'the strides of the doubling scan are iterated from `%s`, %s: the passes must run with stride 1, 2, 4, ... in this order (each '
                            'pass doubles the length of the folded segment); in another order items are combined with the wrong partial folds for every non-commutative '
                            'operation' % (src(v)[:60], bad), node=lp, construct='stride order'))
    return res


@guarded
def rule_negdim(repo, tier):
    res = RuleResult('C12.NEGDIM', 'the scans accept every dimension in either sign ("every dimension"): the axis argument is handed to torch as it is, or '
                     'normalised (dim % rank) before it is used as a count or an offset - (slice(None),) * dim is empty for a negative dim', floor=3)
    for q in ('cumops_', 'cumops', 'cummul_', 'cumprod_', 'cummul', 'cumprod'):
        f = repo.func(OPS, q)
        if 'dim' not in f.params:
            continue
        uses = _negdim_uses(f.node)
        res.inst({'function': f.fq, 'count / offset uses of dim before normalisation': [why for _, why in uses]}, f.fq)
        for node, why in uses:
            res.add(Finding('C12.NEGDIM', f, '`%s`: %s without normalising it first; for a negative dim (as valid as its non-negative twin) the count is '
                            'empty / the offset is wrong and the scan runs along another dimension' % (src(node)[:60], why), node=node))
        # a normalisation of the axis keeps torch's meaning: the rebound value is dim modulo the RANK OF THE STORAGE (so dim = -2 of a (B, F, 4) LieTensor
        # stays the frame axis); counting negative axes against lshape / rank - 1 silently moves every negative dim one axis to the left
        for alt_src, vals in _dim_rebindings(f.node):
            bad = [(r, d, v) for (r, d), v in sorted(vals.items()) if v is not None and v % r != d % r]
            res.inst({'function': f.fq, 'axis normalisation': alt_src[:60], 'equals dim modulo the rank': not bad}, (f.fq, 'norm', alt_src[:60]))
            if bad:
                r, d, v = bad[0]
                res.add(Finding('C12.NEGDIM', f, 'the axis normalisation `%s` maps dim = %d of a rank-%d tensor to axis %d: torch (and every caller that passes a negative '
                                'axis, e.g. cumprod(w, dim=-2) on a (B, F, 4) LieTensor) means axis %d' % (alt_src[:60], d, r, v, d % r), construct='axis normalisation changes the axis'))
        # range guards on the axis: an assert (or `if ...: raise`) that compares dim with the rank must admit the whole range [-rank, rank - 1]
        for node, test, positive in _dim_guards(f.node):
            verdicts = {}
            for r in (1, 3):
                for d in (-r, r - 1, 0):
                    try:
                        v = _eval_guard(test, 'dim', d, r)
                    except ValueError:
                        v = None
                    verdicts[(r, d)] = v
            if any(v is None for v in verdicts.values()):
                continue
            rejected = sorted(k for k, v in verdicts.items() if v != positive)
            res.inst({'function': f.fq, 'axis guard': src(test)[:60], 'admits -rank .. rank-1': not rejected}, (f.fq, 'guard', src(test)[:60]))
            if rejected:
                r, d = rejected[0]
                res.add(Finding('C12.NEGDIM', f, 'the axis guard `%s` rejects dim = %d for a tensor of rank %d: every dimension from -rank to rank - 1 is a valid '
                                'axis (dim = -rank is the first one)' % (src(test)[:60], d, r), node=node, construct='axis guard rejects a valid dim'))
    fg = ast.parse('def f(v, dim):\n    assert -v.dim() < dim < v.dim()\ndef g(v, dim):\n    assert -v.dim() <= dim < v.ndim\n').body
    okg = [[_eval_guard(t, 'dim', -3, 3) for _, t, _ in _dim_guards(x)] for x in fg]
    if okg != [[False], [True]]:
        raise AnalysisError('C12.NEGDIM: guard fixtures no longer classified (%r)' % okg)
    fr = ast.parse('def f(v, dim):\n    n = len(v.lshape) if hasattr(v, "lshape") else v.dim()\n    dim = dim % n\ndef g(v, dim):\n    dim = dim % v.dim()\n').body
    cls = [[any(v is not None and v % r != d % r for (r, d), v in vals.items()) for _, vals in _dim_rebindings(x)] for x in fr]
    if cls != [[True, False], [False]]:
        raise AnalysisError('C12.NEGDIM: normalisation fixtures no longer classified (%r)' % cls)
    fx = ast.parse('def f(v, dim):\n    s = (slice(None),) * dim + (1,)\n    return v[s]\ndef g(v, dim):\n    dim = dim % v.dim()\n    s = (slice(None),) * dim + (1,)\n    return v[s]\n').body
    if len(_negdim_uses(fx[0])) != 1 or len(_negdim_uses(fx[1])) != 0:
        raise AnalysisError('C12.NEGDIM: fixtures no longer classified')
    return res


@guarded
def rule_memo12(repo, tier):
    from ..memo import rule_memo
    return rule_memo(repo, 'C12.MEMO', 'the scans are functions of their arguments: nothing computed from tensor contents is kept beyond the call, and no '
                     'cache entry is published before it is complete', [OPS], floor=6)


@guarded
def rule_ret(repo, tier):
    """The in-place variants are documented as the in-place VERSIONS of the functions: they return the scanned tensor.  Every path that does not
    raise ends in `return <value>`; a path that falls off the end (or a bare return) hands None to `y = x.cumprod_(dim)` and to the LieTensor
    methods built on them."""
    res = RuleResult('C12.RET', 'every non-raising path of cumops_ / cummul_ / cumprod_ (and of the LieType / LieTensor methods of the same names) '
                     'returns a value: the in-place variants return the scanned tensor, never None', floor=3)
    targets = [(OPS, n) for n in ('cumops_', 'cummul_', 'cumprod_', 'cumops', 'cummul', 'cumprod')]
    for cname in ('LieType', 'LieTensor'):
        ci = repo.cls('pypose.lietensor.lietensor', cname)
        for mname in ('cumops_', 'cummul_', 'cumprod_', 'cumops', 'cummul', 'cumprod'):
            if mname in ci.methods:
                targets.append(('pypose.lietensor.lietensor', cname + '.' + mname))
    for mod, q in targets:
        f = repo.func(mod, q)
        pths, _ = paths.function_paths(f.node, limit=256, strict=False)
        bad = None
        n = 0
        for ev, ex in pths:
            if ex == 'raise':
                continue
            n += 1
            last = next((e[1] for e in reversed(ev) if e[0] == 'stmt'), None)
            if ex == 'fall' or (ex == 'return' and isinstance(last, ast.Return) and
                                (last.value is None or (isinstance(last.value, ast.Constant) and last.value.value is None))):
                bad = last if last is not None else f.node
        res.inst({'function': f.fq, 'non_raising_paths': n, 'all_return_a_value': bad is None}, f.fq)
        if bad is not None:
            res.add(Finding('C12.RET', f, '%s has a path that ends without returning a value (after `%s`): the scan then returns None instead of '
                            'the scanned tensor' % (q, src(bad)[:60]), node=bad, construct='path returns None'))
    return res


@guarded
def rule_opview(repo, tier):
    """cumops_ overwrites its buffer while it scans it.  The two operands handed to the user's operation at each doubling step are therefore COPIES of the
    earlier / later blocks (index_select, clone, gather): "any associative operation" includes operations that return one of their operands (first, last,
    a conditional select), and a returned view of the live buffer makes the write-back an overlapping self-copy (an error) or, worse, reads positions the
    same step has already overwritten."""
    res = RuleResult('C12.OPVIEW', 'cumops_: the operands passed to the user operation are copies of the selected blocks (index_select / clone / gather), not views '
                     '(narrow / slices / select) of the buffer that the same step writes', floor=1)
    f = repo.func(OPS, 'cumops_')
    opname = f.pos_params[2] if len(f.pos_params) > 2 else 'ops'
    defs = {}
    for n in ast.walk(f.node):
        if isinstance(n, ast.Assign):
            tg = n.targets[0]
            if isinstance(tg, ast.Name):
                defs[tg.id] = n.value
            elif isinstance(tg, ast.Tuple) and isinstance(n.value, ast.Tuple) and len(tg.elts) == len(n.value.elts):
                for t_, v_ in zip(tg.elts, n.value.elts):
                    if isinstance(t_, ast.Name):
                        defs[t_.id] = v_
    calls = [c for c in ast.walk(f.node) if isinstance(c, ast.Call) and isinstance(c.func, ast.Name) and c.func.id == opname]
    if not calls:
        raise AnalysisError('C12.OPVIEW: cumops_ never calls its operation')
    VIEWS = {'narrow', 'select', 'view', 'transpose', 'unbind', 'split', 'chunk', 'unfold', 'diagonal', 'expand', 'squeeze', 'unsqueeze', 'movedim', 'permute', 'as_strided'}
    COPIES = {'index_select', 'clone', 'gather', 'take', 'take_along_dim', 'masked_select', 'repeat', 'detach_clone'}
    for c in calls:
        for a in c.args:
            e = a
            for _ in range(3):
                if isinstance(e, ast.Name) and e.id in defs:
                    e = defs[e.id]
            kind = 'unknown'
            if isinstance(e, ast.Call) and isinstance(e.func, ast.Attribute):
                kind = 'copy' if e.func.attr in COPIES else ('view' if e.func.attr in VIEWS else 'unknown')
            elif isinstance(e, ast.Call) and (dotted(e.func) or '').split('.')[-1] in COPIES:
                kind = 'copy'
            elif isinstance(e, ast.Subscript):
                kind = 'view' if not any(isinstance(x, (ast.List, ast.Call)) for x in ast.walk(e.slice)) else 'copy'
            res.inst({'function': f.fq, 'operand': src(a)[:40], 'defined as': src(e)[:50], 'kind': kind}, (src(c)[:40], src(a)[:40]))
            if kind == 'view':
                res.add(Finding('C12.OPVIEW', f, 'the operation receives `%s` = `%s`, a VIEW of the buffer the same step overwrites: an associative operation that returns one '
                                'of its operands (first / last / select) makes the write-back an overlapping self-copy' % (src(a)[:30], src(e)[:50]), node=c,
                                construct='operand is a view|' + src(e)[:40]))
    return res


def rules(repo, tier):
    from ..optional import rule_optional
    from ..mode import mode_rules
    from ..callsig import rule_callsig
    from ..docsig import rule_docsig
    from ..axisdefault import rule_axisdefault
    from ..stale import rule_stale
    return [rule_ki(repo, tier), rule_sched(repo, tier), rule_order(repo, tier), rule_role(repo, tier), rule_ret(repo, tier), rule_opview(repo, tier), rule_sb(repo, tier), rule_clone_alias(repo, tier), rule_deleg(repo, tier), rule_ext(repo, tier), rule_inplace(repo, tier), rule_negdim(repo, tier), rule_memo12(repo, tier),
            rule_stale(repo, 'C12.STALE', [(OPS, 'cumops_')]), rule_optional(repo, 'C12.OPT', [OPS])] + mode_rules(repo, 'C12', [OPS]) + [rule_callsig(repo, 'C12.SIG', [OPS]), rule_docsig(repo, 'C12.DOC', [OPS])] + [
            rule_axisdefault(repo, 'C12.AXDEF', [OPS])]
