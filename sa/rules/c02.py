"""C02 - Log: structural clauses (mask partitions, guarded divisions, layout typing, Exp/Log pairing, dispatch)."""
from .lie_common import *   # noqa

LOG_TARGETS = [(OP, 'SO3_Log.forward'), (OP, 'so3_Jl_inv'), (OP, 'rxso3_Ws')]
# documented exception of the guarded-division rule: under idx3 (|v| <= eps) a unit quaternion has |w| ~ 1
GD_EXCEPTIONS = {('SO3_Log.forward', 'Slice(Constant(3))'): ('|v|<=eps on a unit quaternion implies |w|~1, division by w is safe', "'norm'")}


@guarded
def rule_pair(repo):
    res = RuleResult('C02.PAIR', 'inverse pairing per family: where Exp applies coupling helper H to the translation slot, Log applies '
                     'the paired inverse (H_inv(.) or H(.).inverse()) to the translation slot, evaluated at the family\'s own rotation '
                     '(-scale) Log output; the scale slot uses exp <-> log', floor=3)
    for G, rot in (('SE3', 'SO3'), ('Sim3', 'RxSO3')):
        g = ALG[G]
        fe, fl = repo.func(OP, g + '_Exp.forward'), repo.func(OP, G + '_Log.forward')
        re_ = returns_of(fe.node)
        rl = returns_of(fl.node)
        if len(re_) != 1 or len(rl) != 1:
            raise AnalysisError('C02.PAIR: %s Exp/Log forward no longer have single returns' % G)
        ve = inline_straight(fe.node, upto=re_[0]).value(re_[0].value)
        vl = inline_straight(fl.node, upto=rl[0]).value(rl[0].value)
        he = _coupling(ve)
        hl = _coupling(vl)
        if he is None or hl is None:
            raise AnalysisError('C02.PAIR: coupling matrix product not found in %s Exp/Log' % G)
        (hname_e, harg_e, inv_e), (hname_l, harg_l, inv_l) = he, hl
        rotlog = rot + '_Log.apply'
        arg_is_log = isinstance(harg_l, ast.Call) and dotted(harg_l.func) == rotlog
        arg_returned = any(dump(n) == dump(harg_l) for n in ast.walk(vl) if n is not harg_l) if arg_is_log else False
        paired = (hname_l == hname_e + '_inv' and not inv_l) or (hname_l == hname_e and inv_l)
        res.inst({'family': G, 'exp_helper': hname_e, 'log_helper': hname_l + ('.inverse()' if inv_l else ''),
                  'log_helper_at': src(harg_l)[:60], 'paired': paired, 'at_own_log': arg_is_log}, G)
        if inv_e:
            res.add(Finding('C02.PAIR', fe, '%s_Exp applies an inverted coupling matrix' % g, construct='exp inverse'))
        if not paired:
            res.add(Finding('C02.PAIR', fl, '%s_Log applies %s%s to the translation, the inverse of %s used by %s_Exp is required'
                            % (G, hname_l, '.inverse()' if inv_l else '', hname_e, g), construct='helper pairing'))
        if not arg_is_log:
            res.add(Finding('C02.PAIR', fl, '%s_Log evaluates its coupling matrix at `%s`, not at the output of %s'
                            % (G, src(harg_l)[:60], rotlog), construct='helper argument'))
        elif not arg_returned:
            res.add(Finding('C02.PAIR', fl, '%s_Log evaluates its coupling matrix at a Log value that is not the one it returns' % G,
                            construct='helper argument returned'))
    # scale slot: exp <-> log
    fe, fl = repo.func(OP, 'rxso3_Exp.forward'), repo.func(OP, 'RxSO3_Log.forward')
    ve = inline_straight(fe.node, upto=returns_of(fe.node)[0]).value(returns_of(fe.node)[0].value)
    vl = inline_straight(fl.node, upto=returns_of(fl.node)[0]).value(returns_of(fl.node)[0].value)
    e_ok = any((isinstance(n, ast.Call) and (dotted(n.func) == 'torch.exp' or (isinstance(n.func, ast.Attribute) and n.func.attr == 'exp')))
               for n in ast.walk(ve))
    l_ok = any((isinstance(n, ast.Call) and (dotted(n.func) == 'torch.log' or (isinstance(n.func, ast.Attribute) and n.func.attr == 'log')))
               for n in ast.walk(vl))
    res.inst({'family': 'RxSO3', 'scale_exp': e_ok, 'scale_log': l_ok}, 'RxSO3')
    if not e_ok:
        res.add(Finding('C02.PAIR', fe, 'rxso3_Exp does not exponentiate the log-scale slot', construct='scale exp'))
    if not l_ok:
        res.add(Finding('C02.PAIR', fl, 'RxSO3_Log does not take the logarithm of the scale slot', construct='scale log'))
    return res


def _coupling(v):
    """first  (H(arg)[.inverse()] @ x.unsqueeze(-1))  in v -> (helper name, arg expr, inverted?)"""
    for n in ast.walk(v):
        if isinstance(n, ast.BinOp) and isinstance(n.op, ast.MatMult):
            m = n.left
            inv = False
            if isinstance(m, ast.Call) and dotted(m.func) in ('torch.linalg.inv', 'torch.inverse', 'torch.linalg.pinv', 'torch.pinverse') and m.args:
                m, inv = m.args[0], True
            elif isinstance(m, ast.Call) and isinstance(m.func, ast.Attribute) and m.func.attr in ('inverse', 'inv', 'pinverse'):
                m, inv = m.func.value, True
            if isinstance(m, ast.Call) and isinstance(m.func, ast.Name) and m.args:
                return m.func.id, m.args[0], inv
    return None


@guarded
def rule_wparity(repo):
    """q and -q are the same rotation and must get the same Log: Log(q) = factor(|v|, w) v, so factor(|v|, -w) (-v) = factor(|v|, w) v, i.e. every branch of
    the factor is an ODD function of the real part w.  Parity is computed syntactically: w is odd; |w|, w^2, |v| and constants are even; products and
    quotients multiply parities; odd functions (atan, tan, sin, asin, pm / sign) preserve, even functions (cos, abs, square) make even; a sum needs equal
    parities.  `atan(|v| / |w|)` is even in w: for w < 0 it returns the Log of the inverse rotation."""
    res = RuleResult('C02.WPAR', 'SO3_Log.forward: every branch of the factor multiplying the vector part is an odd function of the real part w (q and -q get the same '
                     'Log)', floor=3)
    f = repo.func(OP, 'SO3_Log.forward')
    groups, guards, inl = masks.analyse_function(f.node)
    # the real part: input[..., 3:] / input[..., 3] / input[..., -1:]
    def is_w(e):
        if isinstance(e, ast.Subscript) and isinstance(e.value, ast.Name) and e.value.id == f.pos_params[0]:
            sl = src(e.slice).replace(' ', '').strip('()')
            return sl in ('...,3:', '...,3', '...,-1:', '...,-1', '...,3:4')
        return False
    ODD_F = {'atan', 'arctan', 'tan', 'sin', 'asin', 'arcsin', 'sinh', 'tanh', 'pm', 'sign', 'sgn', 'nan_to_num', 'clone', 'squeeze', 'unsqueeze', 'neg'}
    EVEN_F = {'cos', 'abs', 'square', 'cosh', 'norm'}

    def par(e):
        """'o' / 'e' / None (mixed or unknown)"""
        if is_w(e):
            return 'o'
        if isinstance(e, ast.Constant):
            return 'e'
        if isinstance(e, ast.Attribute) and e.attr in ('pi', 'eps'):
            return 'e'
        if isinstance(e, ast.UnaryOp):
            return par(e.operand)
        if isinstance(e, ast.BinOp):
            if isinstance(e.op, (ast.Mult, ast.Div, ast.MatMult)):
                a, b = par(e.left), par(e.right)
                if a is None or b is None:
                    return None
                return 'e' if a == b else 'o'
            if isinstance(e.op, (ast.Add, ast.Sub)):
                a, b = par(e.left), par(e.right)
                # an even ZERO-free sum with a constant: 1/w - v^2/(3 w^3) both odd -> odd
                return a if a == b else None
            if isinstance(e.op, ast.Pow) and isinstance(e.right, ast.Constant) and isinstance(e.right.value, int):
                a = par(e.left)
                return None if a is None else ('e' if e.right.value % 2 == 0 or a == 'e' else 'o')
            return None
        if isinstance(e, ast.Call):
            d = dotted(e.func) or ''
            nm = d.split('.')[-1] if d else (e.func.attr if isinstance(e.func, ast.Attribute) else '')
            arg = e.func.value if isinstance(e.func, ast.Attribute) and not d.startswith(('torch.', 'math.')) and d != 'pm' else (e.args[0] if e.args else None)
            if arg is None:
                return 'e'
            a = par(arg)
            if nm in EVEN_F:
                return 'e' if a is not None else None
            if nm in ODD_F:
                return a
            return None
        if isinstance(e, ast.Subscript):
            return par(e.value) if not is_w(e) else 'o'
        if isinstance(e, ast.Name):
            return 'e'                                    # the argument itself / other tensors: even (independent of the sign flip of w alone is NOT assumed: see is_w first)
        return None
    sg = [g for g in groups if g.kind == 'sum']
    if not sg:
        raise AnalysisError('C02.WPAR: the masked sum of SO3_Log.forward was not found')
    for i, m in enumerate(sg[0].members):
        val = None
        for x in m[1]:
            if isinstance(x, tuple):
                val = ast.BinOp(val if val is not None else ast.Constant(1.0), ast.Div(), x[1])
            else:
                val = x if val is None else ast.BinOp(val, ast.Mult(), x)
        pw = par(val) if val is not None else None
        res.inst({'function': f.fq, 'branch': src(val)[:70] if val is not None else None, 'parity in w': {'o': 'odd', 'e': 'even', None: 'mixed / unknown'}[pw]}, (f.fq, i))
        if pw == 'e':
            res.add(Finding('C02.WPAR', f, 'the branch `%s` of the Log factor is EVEN in the real part w: the quaternions q and -q (one rotation) get opposite logarithms, and '
                            'for w < 0 Exp(Log(X)) is the inverse of X' % src(val)[:70], construct='branch even in w|%d' % i))
        elif pw is None:
            raise AnalysisError('C02.WPAR: parity of the branch `%s` could not be determined' % (src(val)[:60] if val is not None else '?'))
    return res


def _rules_core(repo, tier):
    out = rule_masks(repo, 'C02.MP', 'C02.GD', LOG_TARGETS, floor=5, exceptions=GD_EXCEPTIONS)
    out.append(rule_layout(repo, 'C02.LT', [
        ('SO3_Log', ['SO3'], 'so3'), ('SE3_Log', ['SE3'], 'se3'), ('RxSO3_Log', ['RxSO3'], 'rxso3'), ('Sim3_Log', ['Sim3'], 'sim3')], floor=4))
    out.append(rule_pair(repo))
    out.append(rule_range(repo))
    out.append(rule_wparity(repo))
    from ..limits import rule_limit
    out.append(rule_limit(repo, 'C02.LIMIT', LOG_TARGETS, floor=11, decided_floor=11))
    out.append(rule_dtype(repo, 'C02.DTYPE', LOG_TARGETS + [(OP, 'SE3_Log.forward'), (OP, 'Sim3_Log.forward'), (OP, 'RxSO3_Log.forward')], floor=6))
    out.append(rule_dispatch(repo, 'C02.DT', 'Log', GROUPS, lambda G: G + '_Log', lambda G: ALG[G] + '_type', floor=6, wrapper='Log'))
    return out


# ---------------------------------------------------------------- RANGE: interval analysis of the rotation angle returned by SO3_Log

import math   # noqa: E402
PI = math.pi


def _interval(e, env):
    """closed interval (lo, hi) containing the values of e, or None if unknown.  env: name dump -> interval"""
    d = dump(e)
    if d in env:
        return env[d]
    if isinstance(e, ast.Constant) and isinstance(e.value, (int, float)):
        return (float(e.value), float(e.value))
    if isinstance(e, ast.Attribute) and dotted(e) in ('torch.pi', 'math.pi'):
        return (PI, PI)
    if isinstance(e, ast.UnaryOp) and isinstance(e.op, ast.USub):
        i = _interval(e.operand, env)
        return None if i is None else (-i[1], -i[0])
    if isinstance(e, ast.Call):
        fn = dotted(e.func) or ''
        name = fn.split('.')[-1] if fn else (e.func.attr if isinstance(e.func, ast.Attribute) else '')
        args = list(e.args)
        if isinstance(e.func, ast.Attribute) and not fn.startswith(('torch.', 'math.')):
            args = [e.func.value] + args
        if name in ('atan', 'arctan'):
            return (-PI / 2, PI / 2)
        if name in ('atan2', 'arctan2') and len(args) >= 2:
            y = _interval(args[0], env)
            if y is not None and y[0] >= 0:
                return (0.0, PI)
            if y is not None and y[1] <= 0:
                return (-PI, 0.0)
            return (-PI, PI)
        if name in ('acos', 'arccos'):
            return (0.0, PI)
        if name in ('asin', 'arcsin'):
            return (-PI / 2, PI / 2)
        if name in ('pm', 'sign', 'sgn'):
            return (-1.0, 1.0)
        if name in ('nan_to_num', 'clone') and args:
            return _interval(args[0], env)
        if name == 'abs' and args:
            i = _interval(args[0], env)
            return None if i is None else (0.0, max(abs(i[0]), abs(i[1])))
        if name in ('norm',):
            return (0.0, float('inf'))
        return None
    if isinstance(e, ast.BinOp):
        a, b = _interval(e.left, env), _interval(e.right, env)
        if a is None or b is None:
            return None
        if isinstance(e.op, ast.Add):
            return (a[0] + b[0], a[1] + b[1])
        if isinstance(e.op, ast.Sub):
            return (a[0] - b[1], a[1] - b[0])
        if isinstance(e.op, ast.Mult):
            ps = [x * y for x in a for y in b if not (math.isinf(x) and y == 0) and not (math.isinf(y) and x == 0)]
            return (min(ps), max(ps)) if ps else None
        return None
    return None


@guarded
def rule_range(repo):
    res = RuleResult('C02.RANGE', 'principal range by interval analysis: in every branch of SO3_Log whose factor is ANGLE / |v| the numerator '
                     'ANGLE lies in [-pi, pi] (atan in (-pi/2, pi/2), atan2 of a non-negative first argument in [0, pi], pm in [-1, 1]), so the '
                     'rotation part of Log(X) has norm at most pi', floor=2)
    f = repo.func(OP, 'SO3_Log.forward')
    rets = returns_of(f.node)
    v = inline_straight(f.node, upto=rets[0]).value(rets[0].value)
    # |v| : every norm(...) call is non-negative
    env = {}
    for n in ast.walk(v):
        if isinstance(n, ast.Call) and (dotted(n.func) or '').split('.')[-1] == 'norm':
            env[dump(n)] = (0.0, float('inf'))
    n_terms = 0
    for n in ast.walk(v):
        if isinstance(n, ast.BinOp) and isinstance(n.op, ast.Div):
            den = masks.strip(n.right)
            if isinstance(den, ast.Call) and (dotted(den.func) or '').split('.')[-1] == 'norm':
                num = n.left
                iv = _interval(num, env)
                # only numerators that are angles (built from an inverse trigonometric function or pi)
                is_angle = any((isinstance(x, ast.Call) and (dotted(x.func) or '').split('.')[-1] in ('atan', 'atan2', 'arctan', 'arctan2', 'acos', 'asin'))
                               or (isinstance(x, ast.Attribute) and dotted(x) in ('torch.pi', 'math.pi')) for x in ast.walk(num))
                if not is_angle:
                    continue
                n_terms += 1
                ok = iv is not None and iv[0] >= -PI - 1e-12 and iv[1] <= PI + 1e-12
                res.inst({'function': f.fq, 'angle': src(num)[:60], 'interval': iv, 'within_pi': ok}, dump(num))
                if iv is None:
                    res.unresolved += 1
                elif not ok:
                    res.add(Finding('C02.RANGE', f, 'the rotation angle `%s` ranges over [%.4f, %.4f], beyond the principal range [-pi, pi]: '
                                    'Log returns a rotation vector longer than pi for part of the quaternion sphere' % (src(num)[:60], iv[0], iv[1]),
                                    construct='angle range ' + src(num)[:60]))
    if n_terms < 2:
        raise AnalysisError('C02.RANGE: found %d angle/|v| terms in SO3_Log.forward, expected 2' % n_terms)
    return res


def rules(repo, tier):
    from ..memo import rule_memo
    from ..optional import rule_optional
    from ..mode import mode_rules
    from ..callsig import rule_callsig
    from ..docsig import rule_docsig
    from ..axisdefault import rule_axisdefault
    from ..effects import rule_pure
    return list(_rules_core(repo, tier)) + [rule_pure(repo, 'C02.PURE', 'Log and its coefficient helpers write neither into their argument nor into tensors that '
                                                      'outlive the call (cached limits / constants filled in place): the value for one input never leaks into a later call',
                                                      LOG_TARGETS + [(OP, 'SE3_Log.forward'), (OP, 'Sim3_Log.forward'), (OP, 'RxSO3_Log.forward')]), rule_memo(repo, 'C02.MEMO', 'history independence: nothing computed from the contents of a tensor argument is kept '
                                                      'under the identity, address or version of that tensor, in module-level storage, or published from a generator '
                                                      'before it is complete - a later call with the same object and other contents must not be answered from it',
                                                      ['pypose.lietensor.lietensor', 'pypose.lietensor.operation', 'pypose.lietensor.basics', 'pypose.lietensor.utils'], floor=3),
            rule_optional(repo, 'C02.OPT', ['pypose.lietensor.lietensor', 'pypose.lietensor.operation', 'pypose.lietensor.basics', 'pypose.lietensor.utils'])] + mode_rules(repo, 'C02', ['pypose.lietensor.lietensor', 'pypose.lietensor.operation', 'pypose.lietensor.basics', 'pypose.lietensor.utils']) + [rule_callsig(repo, 'C02.SIG', ['pypose.lietensor.lietensor', 'pypose.lietensor.operation', 'pypose.lietensor.basics', 'pypose.lietensor.utils']), rule_docsig(repo, 'C02.DOC', ['pypose.lietensor.lietensor', 'pypose.lietensor.operation', 'pypose.lietensor.basics', 'pypose.lietensor.utils'])] + [
            rule_axisdefault(repo, 'C02.AXDEF', ['pypose.lietensor.lietensor', 'pypose.lietensor.operation', 'pypose.lietensor.basics', 'pypose.lietensor.utils', 'pypose.lietensor.convert', 'pypose.basics.ops']), __import__('sa.axisdefault', fromlist=['x']).rule_frontaxis(repo, 'C02.BAX', ['pypose.lietensor.lietensor', 'pypose.lietensor.operation', 'pypose.lietensor.basics', 'pypose.lietensor.utils', 'pypose.lietensor.convert']), __import__('sa.axisdefault', fromlist=['x']).rule_regroup(repo, 'C02.REGROUP', ['pypose.lietensor.lietensor', 'pypose.lietensor.operation', 'pypose.lietensor.basics', 'pypose.lietensor.utils', 'pypose.lietensor.convert']), __import__('sa.axisdefault', fromlist=['x']).rule_zerocmp(repo, 'C02.ZEROCMP', ['pypose.lietensor.lietensor', 'pypose.lietensor.operation', 'pypose.lietensor.basics', 'pypose.lietensor.utils', 'pypose.lietensor.convert']), __import__('sa.axisdefault', fromlist=['x']).rule_batchbranch(repo, 'C02.BIF', ['pypose.lietensor.lietensor', 'pypose.lietensor.operation', 'pypose.lietensor.basics', 'pypose.basics.ops'])]
