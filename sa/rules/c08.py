"""C08 - LM accept/reject bookkeeping: typestate over the paths of step(), strategy clamps and branch roles."""
import ast
from ..core import RuleResult, Finding, AnalysisError, dotted, src, norm_construct, guarded, guarded_list
from ..expr import dump
from .. import paths

OPT = 'pypose.optim.optimizer'
STRAT = 'pypose.optim.strategy'


def _relevant(n):
    if isinstance(n, ast.Attribute):
        return n.attr in ('update_parameter', 'loss', 'last', 'solver', 'reject_count', 'reject', 'update', 'strategy')
    return False


def step_paths(f):
    pths, trunc = paths.function_paths(f.node, limit=20000, strict=False, relevant=_relevant,
                                       unroll=lambda l: 1 if isinstance(l, ast.For) else 2)
    if trunc:
        raise AnalysisError('C08: path bound exceeded in %s' % f.fq)
    return pths


def _upd_call(c):
    """(params expr, step expr) of a self.update_parameter(...) call"""
    if isinstance(c.func, ast.Attribute) and c.func.attr == 'update_parameter' and dotted(c.func.value) == 'self':
        kw = {k.arg: k.value for k in c.keywords}
        params = kw.get('params', c.args[0] if c.args else None)
        step = kw.get('step', c.args[1] if len(c.args) > 1 else None)
        return params, step
    return None


def _signed(e):
    """(sign, core expr) stripping unary minus"""
    s = 1
    while isinstance(e, ast.UnaryOp) and isinstance(e.op, (ast.USub, ast.UAdd)):
        if isinstance(e.op, ast.USub):
            s = -s
        e = e.operand
    if isinstance(e, ast.BinOp) and isinstance(e.op, ast.Mult):
        for a, b in ((e.left, e.right), (e.right, e.left)):
            if isinstance(a, ast.Constant) and a.value in (-1, -1.0):
                return -s, b
            if isinstance(a, ast.UnaryOp) and isinstance(a.op, ast.USub) and isinstance(a.operand, ast.Constant) and a.operand.value in (1, 1.0):
                return -s, b
    if isinstance(e, ast.Call) and isinstance(e.func, ast.Attribute) and e.func.attr == 'neg' and not e.args:
        return -s, e.func.value
    return s, e


def _loss_value_state(v, st):
    """state of the value assigned to self.loss given current (p, l, last)"""
    p, l, last = st
    if isinstance(v, ast.Call) and dotted(v.func) == 'self.model.loss':
        return p if p in ('B', 'T') else 'X'
    if dotted(v) == 'self.last':
        return last
    if dotted(v) == 'self.loss':
        return l
    if isinstance(v, ast.IfExp):
        a, b = _loss_value_state(v.body, st), _loss_value_state(v.orelse, st)
        return a if a == b else 'X'
    return 'X'


def _assign_pairs(st):
    """[(target, value)] of an Assign with tuple unpacking and chained targets expanded"""
    out = []
    if isinstance(st, ast.Assign):
        for t in st.targets:
            if isinstance(t, (ast.Tuple, ast.List)) and isinstance(st.value, (ast.Tuple, ast.List)) and len(t.elts) == len(st.value.elts):
                out += list(zip(t.elts, st.value.elts))
            else:
                out.append((t, st.value))
    elif isinstance(st, ast.AugAssign):
        out.append((st.target, ast.BinOp(st.target, st.op, st.value)))
    return out


class TS:
    """typestate runner over one path"""

    def __init__(self, f, while_loop):
        self.f, self.loop = f, while_loop
        self.p, self.l, self.last = 'B', 'B', 'unset'     # entry: parameters as given; a cached self.loss (if any) belongs to them
        self.D = None
        self.problems = []
        self.trials = 0
        self.alias = {}        # local name -> 'self.loss' | 'self.last' (plain copies of the fields)

    def problem(self, node, msg):
        self.problems.append((node, msg))

    def stmt(self, st):
        # calls first (evaluation order inside one statement: RHS before the store)
        for c in paths.calls_in(st):
            u = _upd_call(c)
            if u is not None:
                params, step = u
                sign, core = _signed(step)
                if self.p == 'B' and sign > 0:
                    self.p, self.D = 'T', dump(core)
                    self.trials += 1
                elif self.p == 'T' and sign < 0 and dump(core) == self.D:
                    self.p, self.D = 'B', None
                else:
                    self.problem(c, 'update_parameter(%s) in state parameters=%s: neither a trial step from the base point nor the '
                                    'exact negation of the pending trial step' % (src(step)[:30], self.p))
                    self.p = 'X'
        for t, v in _assign_pairs(st):
            d = dotted(t)
            if isinstance(t, ast.Name):
                if dotted(v) in ('self.loss', 'self.last'):
                    self.alias[t.id] = (dotted(v), self.l if dotted(v) == 'self.loss' else self.last)
                else:
                    self.alias.pop(t.id, None)
            if d == 'self.loss':
                self.l = _loss_value_state(v, (self.p, self.l, self.last))
            elif d == 'self.last':
                self.last = _loss_value_state(v, (self.p, self.l, self.last))
        # chained  self.last = self.loss = X  : both get X's state (handled by _assign_pairs order: evaluate value once)
        if isinstance(st, ast.Assign) and len(st.targets) > 1:
            names = [dotted(t) for t in st.targets]
            if 'self.loss' in names and 'self.last' in names:
                s = _loss_value_state(st.value, (self.p, 'B' if self.l == 'B' else self.l, self.last))
                self.l = self.last = s
        # a write to the variable holding the pending step invalidates the pairing
        if isinstance(st, ast.Assign):
            for t in st.targets:
                for n in ast.walk(t):
                    if isinstance(n, ast.Name) and self.D is not None and dump(ast.Name(n.id, ast.Load())) == self.D:
                        self.D = 'overwritten'


@guarded
def rule_ts(repo, tier):
    res = RuleResult('C08.TS', 'typestate (parameters, self.loss, self.last) over every path of LevenbergMarquardt.step and '
                     'GaussNewton.step: a trial moves the parameters, self.loss follows the parameters it was evaluated at, a '
                     'rejected trial is undone by the exact negated step and self.loss = self.last; at every loop head the state is '
                     '(base, base); every return has self.loss evaluated at the parameters left behind and self.last at the previous ones',
                     floor=8)
    for cname in ('LevenbergMarquardt', 'GaussNewton'):
        f = repo.func(OPT, cname + '.step')
        whiles = [n for n in ast.walk(f.node) if isinstance(n, ast.While)]
        loop = whiles[0] if whiles else None
        if cname == 'LevenbergMarquardt' and loop is None:
            raise AnalysisError('C08.TS: LevenbergMarquardt.step has no trial loop')
        pths = step_paths(f)
        npaths = 0
        bad = {}
        for ev, ex in pths:
            if ex == 'raise':
                continue
            ts = TS(f, loop)
            entered_for = False
            for e in ev:
                if e[0] == 'iter' and isinstance(e[1], ast.For) and entered_for:
                    # a second parameter group starts from the point the first one left: new base
                    if ts.p == 'T' and ts.l == 'T':
                        ts.p, ts.l = 'B', 'B'
                if e[0] == 'iter' and isinstance(e[1], ast.For):
                    entered_for = True
                if e[0] == 'stmt':
                    ts.stmt(e[1])
                    if isinstance(e[1], ast.Return):
                        rv = dotted(e[1].value) if e[1].value is not None else None
                        if rv in ts.alias and ts.alias[rv][0] == 'self.loss' and ts.alias[rv][1] == ts.l:
                            rv = 'self.loss'      # `tmp = self.loss; return tmp` with no write to the field in between
                        if rv != 'self.loss':
                            ts.problem(e[1], 'step returns `%s`, not self.loss' % (src(e[1].value) if e[1].value else None))
                        if ts.trials and not (ts.p == ts.l and ts.p in ('B', 'T')):
                            ts.problem(e[1], 'at return the parameters are in state %s but self.loss belongs to state %s: the reported loss '
                                             'is not the loss at the parameters left behind' % (ts.p, ts.l))
                        if ts.trials and ts.p == 'T' and ts.last != 'B':
                            ts.problem(e[1], 'at return self.last (state %s) is not the loss at the previous parameters' % ts.last)
                elif e[0] == 'head' and e[1] is loop:
                    if not (ts.p == 'B' and ts.l == 'B' and ts.last == 'B'):
                        ts.problem(loop, 'at the head of the trial loop the state is (parameters=%s, loss=%s, last=%s), must be '
                                         '(base, base, base): a rejected trial was not fully undone' % (ts.p, ts.l, ts.last))
                elif e[0] == 'cut':
                    break
            npaths += 1
            for node, msg in ts.problems:
                bad.setdefault(msg, node)
        res.inst({'function': f.fq, 'paths': npaths}, f.fq)
        for i in range(3):
            res.inst({'function': f.fq, 'obligation': ['loop-head invariant', 'return consistency', 'restore pairing'][i]}, (f.fq, i))
        for msg, node in bad.items():
            res.add(Finding('C08.TS', f, msg, node=node))
    return res


@guarded
def rule_rej_exc_strat(repo, tier):
    res = RuleResult('C08.REJ', 'reject_count is zeroed before the trial loop and every back edge passes reject_count + 1 under the guard '
                     'reject_count < self.reject (at most reject+1 trials); the solver call sits in a try whose handler path changes '
                     'neither parameters nor loss; strategy.update(pg, last=self.last, loss=self.loss, ..) runs exactly once per '
                     'completed trial, after the loss evaluation and before the accept/reject decision', floor=4)
    f = repo.func(OPT, 'LevenbergMarquardt.step')
    whiles = [n for n in ast.walk(f.node) if isinstance(n, ast.While)]
    if not whiles:
        raise AnalysisError('C08.REJ: no trial loop')
    loop = whiles[0]
    pths = step_paths(f)
    bad = {}
    solver_calls = [c for c in paths.calls_in(loop) if dotted(c.func) == 'self.solver']
    if not solver_calls:
        raise AnalysisError('C08.EXC: solver call not found in the trial loop')
    # EXC (syntactic part): the solver call is inside a try with a handler
    tries = [n for n in ast.walk(loop) if isinstance(n, ast.Try) and any(c is solver_calls[0] for b in n.body for c in ast.walk(b))]
    res.inst({'function': f.fq, 'solver_in_try': bool(tries)}, 'try')
    if not tries:
        res.add(Finding('C08.EXC', f, 'the linear solver is called outside a try block: a raising solver propagates out of step() with the '
                        'trial state half applied', node=solver_calls[0]))
    # the solver is user-supplied: whatever it raises (RuntimeError from torch, ValueError, its own exception class) ends the trial; a handler narrowed to
    # the classes the library's own solvers raise lets everything else out of step() with the trial half applied
    for t in tries:
        types = []
        for h in t.handlers:
            if h.type is None:
                types.append('BaseException')
            else:
                types += [dotted(x) or src(x) for x in (h.type.elts if isinstance(h.type, ast.Tuple) else [h.type])]
        wide = any(x in ('Exception', 'BaseException') for x in types)
        res.inst({'function': f.fq, 'handler catches': types, 'every exception of a user solver': wide}, 'handler-types')
        if t.handlers and not wide:
            res.add(Finding('C08.EXC', f, 'the handler around the solver call catches %s only: a user-supplied solver that raises anything else (RuntimeError, ValueError, '
                            'its own class) leaves step() through the exception with the parameters and loss of a half-applied trial' % ', '.join(types), node=t,
                            construct='solver handler narrower than Exception'))
    n_back = 0
    for ev, ex in pths:
        zeroed = False
        in_iter = False
        guard = inc = False
        upd = lossw = strat = 0
        decided = False
        handler = False
        for e in ev:
            if e[0] == 'head' and e[1] is loop:
                if not in_iter and not zeroed:
                    bad.setdefault('reject_count is not reset to 0 on a path entering the trial loop', loop)
                in_iter, guard, inc, upd, lossw, strat, decided, handler = True, False, False, 0, 0, 0, False, False
            elif e[0] == 'except':
                handler = True
            elif e[0] == 'stmt':
                st = e[1]
                for t, v in _assign_pairs(st):
                    if dotted(t) == 'self.reject_count':
                        if isinstance(v, ast.Constant) and v.value == 0:
                            zeroed = True
                        elif isinstance(v, ast.BinOp) and isinstance(v.op, ast.Add) and dotted(v.left) == 'self.reject_count' \
                                and isinstance(v.right, ast.Constant) and v.right.value == 1:
                            inc = True
                        else:
                            bad.setdefault('reject_count is written with `%s`' % src(v)[:40], st)
                    if dotted(t) == 'self.loss' and in_iter:
                        lossw += 1
                        if handler:
                            bad.setdefault('self.loss is written on the handler path of a failed solve', st)
                for c in paths.calls_in(st):
                    if _upd_call(c) is not None and in_iter:
                        upd += 1
                        if handler:
                            bad.setdefault('parameters are updated on the handler path of a failed solve', st)
                    if isinstance(c.func, ast.Attribute) and c.func.attr == 'update' and dotted(c.func.value) == 'self.strategy' and in_iter:
                        strat += 1
                        kw = {k.arg: dotted(k.value) for k in c.keywords}
                        if kw.get('last') != 'self.last' or kw.get('loss') != 'self.loss':
                            bad.setdefault('strategy.update is not given last=self.last, loss=self.loss', c)
                        if upd != 1 or lossw < 1:
                            bad.setdefault('strategy.update runs before the trial step was applied and its loss evaluated', c)
                        if decided:
                            bad.setdefault('strategy.update runs after the accept/reject decision', c)
            elif e[0] == 'assume' and in_iter:
                if any(dotted(n) == 'self.reject_count' for n in ast.walk(e[1])):
                    # the guard  reject_count < self.reject  as a conjunct of the taken branch
                    if e[2] and _has_conjunct(e[1], lambda c: isinstance(c, ast.Compare) and len(c.ops) == 1 and (
                            (isinstance(c.ops[0], ast.Lt) and dotted(c.left) == 'self.reject_count' and dotted(c.comparators[0]) == 'self.reject') or
                            (isinstance(c.ops[0], ast.Gt) and dotted(c.left) == 'self.reject' and dotted(c.comparators[0]) == 'self.reject_count'))):
                        guard = True
                if any(dotted(n) == 'self.last' for n in ast.walk(e[1])) and e[1] is not loop.test and upd:
                    decided = True
                    if upd == 1 and strat != 1:
                        bad.setdefault('strategy.update is called %d times before the accept/reject decision of a completed trial (must be once)' % strat, e[1])
            elif e[0] == 'back' and e[1] is loop:
                n_back += 1
                if handler:
                    bad.setdefault('the handler path of a failed solve takes the back edge of the trial loop: after the solver raised the call goes on with another, more '
                                   'damped trial instead of ending with the parameters and the loss as they were before that trial', loop)
                if not (guard and inc):
                    bad.setdefault('a path takes the back edge of the trial loop without passing `reject_count < self.reject` and '
                                   'incrementing reject_count: the number of trials per call is not bounded by reject+1', loop)
                in_iter = False
    res.inst({'function': f.fq, 'back_edges_checked': n_back, 'paths': len(pths)}, 'rej')
    res.inst({'function': f.fq, 'obligation': 'handler path leaves state untouched'}, 'exc')
    res.inst({'function': f.fq, 'obligation': 'strategy.update once per trial, between loss evaluation and decision'}, 'strat')
    if n_back == 0:
        raise AnalysisError('C08.REJ: no path takes the back edge of the trial loop')
    for msg, node in bad.items():
        rid = 'C08.EXC' if 'handler' in msg else 'C08.STRAT' if 'strategy' in msg else 'C08.REJ'
        res.add(Finding(rid, f, msg, node=node))
    return res


def _has_conjunct(test, pred):
    if isinstance(test, ast.BoolOp) and isinstance(test.op, ast.And):
        return any(_has_conjunct(v, pred) for v in test.values)
    return pred(test)


# ------------------------------------------------------------------ strategies

def _pg_key(t):
    if isinstance(t, ast.Subscript) and isinstance(t.value, ast.Name) and isinstance(t.slice, ast.Constant) and isinstance(t.slice.value, str):
        return t.slice.value
    return None


class _PgSubst(ast.NodeTransformer):
    def __init__(self, env, pgname):
        self.env, self.pg = env, pgname

    def visit_Subscript(self, n):
        k = _pg_key(n)
        if k is not None and n.value.id == self.pg and isinstance(n.ctx, ast.Load) and k in self.env:
            import copy
            return copy.deepcopy(self.env[k])
        return self.generic_visit(n)


def _strip_clamp(e):
    """(inner, clamped?)  for  max(lo, min(x, hi)) / min(max(x, lo), hi) / torch.clamp forms with self.min / self.max"""
    def is_min(x): return dotted(x) == 'self.min'
    def is_max(x): return dotted(x) == 'self.max'
    if isinstance(e, ast.Call) and dotted(e.func) == 'max' and len(e.args) == 2:
        for a, b in ((e.args[0], e.args[1]), (e.args[1], e.args[0])):
            if is_min(a) and isinstance(b, ast.Call) and dotted(b.func) == 'min' and len(b.args) == 2:
                for c, d in ((b.args[0], b.args[1]), (b.args[1], b.args[0])):
                    if is_max(d):
                        return c, True
    if isinstance(e, ast.Call) and dotted(e.func) == 'min' and len(e.args) == 2:
        for a, b in ((e.args[0], e.args[1]), (e.args[1], e.args[0])):
            if is_max(a) and isinstance(b, ast.Call) and dotted(b.func) == 'max' and len(b.args) == 2:
                for c, d in ((b.args[0], b.args[1]), (b.args[1], b.args[0])):
                    if is_min(d):
                        return c, True
    return e, False


def _factors(e, pg):
    """multiset of symbolic factors of a product expression over pg[...] / self.* / 1/x"""
    out = []
    def rec(x, inv):
        if isinstance(x, ast.BinOp) and isinstance(x.op, ast.Mult):
            rec(x.left, inv); rec(x.right, inv)
        elif isinstance(x, ast.BinOp) and isinstance(x.op, ast.Div):
            rec(x.left, inv); rec(x.right, not inv)
        elif isinstance(x, ast.Constant) and x.value in (1, 1.0):
            pass
        else:
            k = _pg_key(x)
            name = ('pg.' + k) if k is not None else (dotted(x) or src(x))
            out.append(('1/' if inv else '') + name)
    rec(e, False)
    return sorted(out)


def _quality_region(test, truth, qname):
    """('high'|'low', bool above?) for  quality > pg['high'] style tests"""
    if isinstance(test, ast.UnaryOp) and isinstance(test.op, ast.Not):
        return _quality_region(test.operand, not truth, qname)
    if isinstance(test, ast.Compare) and len(test.ops) == 1:
        l, r, op = test.left, test.comparators[0], test.ops[0]
        if isinstance(l, ast.Name) and l.id == qname and _pg_key(r) in ('high', 'low'):
            above = isinstance(op, (ast.Gt, ast.GtE))
            return _pg_key(r), (above if truth else not above)
        if isinstance(r, ast.Name) and r.id == qname and _pg_key(l) in ('high', 'low'):
            above = isinstance(op, (ast.Lt, ast.LtE))
            return _pg_key(l), (above if truth else not above)
    return None


class _SP(tuple):
    """(region, env, stores) with the flag `nan`: the path an UNORDERED quality (0/0 of a zero step: every comparison False) takes"""
    def __new__(cls, t, nan):
        o = tuple.__new__(cls, t)
        o.nan = nan
        return o


def _nan_truth(test, qname):
    """truth value of a branch test when the quality is NaN (None: does not depend on it / unknown)"""
    if isinstance(test, ast.Compare) and len(test.ops) == 1:
        if any(isinstance(x, ast.Name) and x.id == qname for x in ast.walk(test)):
            return isinstance(test.ops[0], ast.NotEq)
        return None
    if isinstance(test, ast.UnaryOp) and isinstance(test.op, ast.Not):
        v = _nan_truth(test.operand, qname)
        return None if v is None else not v
    if isinstance(test, ast.BoolOp):
        vs = [_nan_truth(v, qname) for v in test.values]
        if any(v is None for v in vs):
            return None
        return all(vs) if isinstance(test.op, ast.And) else any(vs)
    return None


def strategy_paths(f):
    """per path: (region, final pg env (inlined over the initial pg values), ordered store list)"""
    pgname = f.pos_params[1]
    pths, _ = paths.function_paths(f.node, limit=512)
    out = []
    # name of the quality variable: the one compared against pg['high']
    qname = None
    for n in ast.walk(f.node):
        if isinstance(n, ast.Compare) and isinstance(n.left, ast.Name) and _pg_key(n.comparators[0]) in ('high', 'low'):
            qname = n.left.id
        elif isinstance(n, ast.Compare) and len(n.comparators) == 1 and isinstance(n.comparators[0], ast.Name) and _pg_key(n.left) in ('high', 'low'):
            qname = n.comparators[0].id                            # pg['high'] < quality
    for ev, ex in pths:
        if ex == 'raise':
            continue
        env, stores, facts = {}, [], {}
        for e in ev:
            if e[0] == 'stmt' and isinstance(e[1], ast.Assign):
                import copy
                for t, v in _assign_pairs(e[1]):
                    k = _pg_key(t)
                    if k is not None and t.value.id == pgname:
                        val = _PgSubst(env, pgname).visit(copy.deepcopy(v))
                        env[k] = val
                        stores.append((k, val, e[1]))
            elif e[0] == 'assume' and qname:
                r = _quality_region(e[1], e[2], qname)
                if r:
                    facts[r[0]] = r[1]
        nan_path = True
        for e in ev:
            if e[0] == 'assume' and qname:
                tv = _nan_truth(e[1], qname)
                if tv is not None and bool(e[2]) != tv:
                    nan_path = False
        if facts.get('high') is True:
            region = 'high'
        elif facts.get('high') is False and facts.get('low') is True:
            region = 'mid'
        elif facts.get('low') is False:
            region = 'low'
        else:
            region = None
        out.append(_SP((region, env, stores), nan_path))
    return out, pgname


@guarded
def rule_strategy(repo, tier):
    res = RuleResult('C08.CLAMP', 'strategies: the last write to damping (Adaptive) / radius and down (TrustRegion) on every path is clamped '
                     'to [self.min, self.max], TrustRegion damping is the reciprocal of the clamped radius, Constant leaves damping as it '
                     'is; branch roles follow the documented hyper-parameters (quality above high: damping*down / radius*up; between: '
                     'unchanged; below low: damping*up / radius*down and down*factor)', floor=7)
    # Constant
    f = repo.func(STRAT, 'Constant.update')
    sp, pg = strategy_paths(f)
    for region, env, stores in sp:
        ok = all(k == 'damping' and _pg_key(v) == 'damping' for k, v, st in stores)
        res.inst({'function': f.fq, 'stores': [(k, src(v)[:40]) for k, v, st in stores], 'ok': ok}, f.fq)
        if not ok:
            res.add(Finding('C08.ROLE', f, 'Constant.update changes the damping: %s' % [(k, src(v)[:40]) for k, v, st in stores], construct='constant'))
    # Adaptive
    f = repo.func(STRAT, 'Adaptive.update')
    sp, pg = strategy_paths(f)
    want = {'high': ['pg.damping', 'pg.down'], 'mid': ['pg.damping'], 'low': ['pg.damping', 'pg.up']}
    seen_regions = set()
    for region, env, stores in sp:
        seen_regions.add(region)
        v = env.get('damping')
        inner, clamped = _strip_clamp(v) if v is not None else (None, False)
        fac = _factors(inner, pg) if inner is not None else None
        res.inst({'function': f.fq, 'region': region, 'damping': src(v)[:70] if v is not None else None, 'clamped': clamped, 'factors': fac},
                 (f.fq, region))
        if v is None or not clamped:
            res.add(Finding('C08.CLAMP', f, 'Adaptive.update: on the path for quality region %s the final damping `%s` is not clamped to '
                            '[self.min, self.max]' % (region, src(v)[:60] if v is not None else None), construct='adaptive clamp %s' % region))
        if region in want and fac is not None and fac != sorted(want[region]):
            res.add(Finding('C08.ROLE', f, 'Adaptive.update: for quality region %s the damping becomes %s, documented %s'
                            % (region, '*'.join(fac), '*'.join(sorted(want[region]))), construct='adaptive role %s' % region))
    if seen_regions - {None} != {'high', 'mid', 'low'}:
        res.add(Finding('C08.ROLE', f, 'Adaptive.update does not distinguish the three documented quality regions (found %s)' % sorted(str(x) for x in seen_regions),
                        construct='adaptive regions'))
    # the documented "otherwise" case takes everything that is not above `low`, an unordered quality included (0/0 when the step is exactly zero: a call at
    # the optimum): the path on which every comparison of the quality fails must be the low-quality action
    for sp_ in sp:
        if getattr(sp_, 'nan', False):
            v = sp_[1].get('damping')
            inner, _c = _strip_clamp(v) if v is not None else (None, False)
            fac = _factors(inner, pg) if inner is not None else None
            okn = fac == sorted(want['low'])
            res.inst({'function': f.fq, 'path of an unordered (NaN) quality': src(v)[:60] if v is not None else None, 'is the "otherwise" action': okn}, (f.fq, 'nan'))
            if not okn:
                res.add(Finding('C08.ROLE', f, 'Adaptive.update: a quality that compares False with everything (0/0 of a zero step) leaves the damping as %s; the documented '
                                'three-way rule sends everything that is not above `low` to damping*up' % ('*'.join(fac) if fac else 'it is'), construct='adaptive unordered quality'))
    # TrustRegion
    f = repo.func(STRAT, 'TrustRegion.update')
    sp, pg = strategy_paths(f)
    wantr = {'high': ['1/pg.damping', 'pg.up'], 'mid': ['1/pg.damping'], 'low': ['1/pg.damping', 'pg.down']}
    wantd = {'high': ['self.down'], 'mid': ['self.down'], 'low': ['pg.down', 'pg.factor']}
    seen_regions = set()
    for region, env, stores in sp:
        seen_regions.add(region)
        r, d, dm = env.get('radius'), env.get('down'), env.get('damping')
        ri, rc = _strip_clamp(r) if r is not None else (None, False)
        di, dc = _strip_clamp(d) if d is not None else (None, False)
        fr = _factors(ri, pg) if ri is not None else None
        fd = _factors(di, pg) if di is not None else None
        recip = dm is not None and isinstance(dm, ast.BinOp) and isinstance(dm.op, ast.Div) and isinstance(dm.left, ast.Constant) \
            and dm.left.value in (1, 1.0) and r is not None and dump(dm.right) == dump(r)
        res.inst({'function': f.fq, 'region': region, 'radius_clamped': rc, 'down_clamped': dc, 'radius': fr, 'down': fd,
                  'damping_is_reciprocal_of_clamped_radius': recip}, (f.fq, region))
        if not rc:
            res.add(Finding('C08.CLAMP', f, 'TrustRegion.update: final radius is not clamped to [self.min, self.max] for region %s' % region,
                            construct='tr radius clamp %s' % region))
        if not dc:
            res.add(Finding('C08.CLAMP', f, 'TrustRegion.update: final down factor is not clamped to [self.min, self.max] for region %s' % region,
                            construct='tr down clamp %s' % region))
        if not recip:
            res.add(Finding('C08.CLAMP', f, 'TrustRegion.update: damping is not the reciprocal of the clamped radius for region %s (got %s)'
                            % (region, src(dm)[:50] if dm is not None else None), construct='tr damping %s' % region))
        if region in wantr and fr is not None and fr != sorted(wantr[region]):
            res.add(Finding('C08.ROLE', f, 'TrustRegion.update: for quality region %s the radius becomes %s, documented %s'
                            % (region, '*'.join(fr), '*'.join(sorted(wantr[region]))), construct='tr radius role %s' % region))
        if region in wantd and fd is not None and fd != sorted(wantd[region]):
            res.add(Finding('C08.ROLE', f, 'TrustRegion.update: for quality region %s the down factor becomes %s, documented %s'
                            % (region, '*'.join(fd), '*'.join(sorted(wantd[region]))), construct='tr down role %s' % region))
    if seen_regions - {None} != {'high', 'mid', 'low'}:
        res.add(Finding('C08.ROLE', f, 'TrustRegion.update does not distinguish the three documented quality regions', construct='tr regions'))
    return res


@guarded
def rule_lossall(repo, tier):
    """the loss LM / GN compare and return covers EVERY residual block (same analysis as C09.AXIS/SEL, reported for C08: "the value step returns
    equals the robust loss at the parameters it left behind")"""
    from .c09 import rule_sel_axis
    r = rule_sel_axis(repo, tier)
    keep = [f for f in r.findings if 'loss' in (f.func or '') or 'SEL' in f.rule]
    out = RuleResult('C08.LOSS', 'RobustModel.loss sums the kernelised squared norms of ALL residual blocks: one kernel serves every block, several kernels are '
                     'paired one to one (a zip over a shorter kernel list silently drops the remaining blocks from the loss that trials are judged by)', floor=1)
    out.instances = list(r.instances)
    out.nontrivial = set(r.nontrivial)
    for f in keep:
        out.add(Finding('C08.LOSS', (f.file, f.line, f.func), f.what, construct=f.construct))
    return out


@guarded
def rule_quality(repo, tier):
    """The damping moves "by the ratio of actual to predicted decrease".  The predicted decrease of the linearised model for the step D is
    |R|^2 - |R + J D|^2 = -(J D)^T (2 R + J D): it depends on the residual R (odd parity - the cross term -2 (JD)^T R is what makes it positive for a
    descent step), on J and on D.  A denominator without R, e.g. |J D|^2, equals it only for the undamped Gauss-Newton step.  The numerator is
    last - loss (previous even, new odd).  Adaptive and TrustRegion use the same ratio."""
    from ..expr import parities
    res = RuleResult('C08.QUAL', 'strategies: the step quality is (last - loss) / predicted, the predicted decrease is built from R (odd parity), J and D, and the two '
                     'adaptive strategies use the same expression', floor=2)
    forms = {}
    for cname in ('Adaptive', 'TrustRegion'):
        f = repo.func(STRAT, cname + '.update')
        q = None
        for n in ast.walk(f.node):
            if isinstance(n, ast.Assign) and any(isinstance(t, ast.Name) and t.id == 'quality' for t in n.targets):
                q = n
        if q is None:
            # any assignment whose value is compared with pg['high'] / pg['low']
            cands = [n for n in ast.walk(f.node) if isinstance(n, ast.Assign) and isinstance(n.value, ast.BinOp) and isinstance(n.value.op, ast.Div)]
            q = cands[0] if cands else None
        if q is None or not (isinstance(q.value, ast.BinOp) and isinstance(q.value.op, ast.Div)):
            raise AnalysisError('C08.QUAL: the quality ratio of %s.update was not found' % cname)
        num, den = q.value.left, q.value.right
        pp_ = f.pos_params
        names = {k: (pp_[i] if len(pp_) > i else k) for i, k in ((2, 'last'), (3, 'loss'), (4, 'J'), (5, 'D'), (6, 'R'))}
        isn = lambda nm: (lambda y: isinstance(y, ast.Name) and y.id == names[nm])
        p_last, p_loss = parities(num, isn('last')), parities(num, isn('loss'))
        p_R = parities(den, isn('R'))
        has = {k: any(isn(k)(y) for y in ast.walk(den)) for k in ('R', 'J', 'D')}
        ok = p_last == {0} and p_loss == {1} and all(has.values()) and p_R == {1}
        res.inst({'function': f.fq, 'quality': src(q.value)[:80], 'numerator last - loss': p_last == {0} and p_loss == {1}, 'denominator mentions': has,
                  'parity of R in the predicted decrease': sorted(p_R, key=str), 'ok': ok}, f.fq)
        forms[cname] = dump(q.value)
        if not ok:
            why = []
            if not (p_last == {0} and p_loss == {1}):
                why.append('the numerator is not last - loss')
            for k, v in has.items():
                if not v:
                    why.append('the predicted decrease does not depend on %s' % k)
            if has['R'] and p_R != {1}:
                why.append('R enters the predicted decrease with parity %s (needed: odd, -(J D)^T (2 R + J D))' % sorted(p_R, key=str))
            res.add(Finding('C08.QUAL', f, '%s.update: quality `%s`: %s; the ratio of actual to predicted decrease then misjudges every damped step and the damping moves '
                            'against the documented rule' % (cname, src(q.value)[:70], '; '.join(why)), node=q, construct='quality ratio|' + '; '.join(why)[:80]))
    if len(set(forms.values())) > 1 and not res.findings:
        f = repo.func(STRAT, 'TrustRegion.update')
        res.add(Finding('C08.QUAL', f, 'Adaptive.update and TrustRegion.update compute the step quality by different expressions', construct='quality siblings differ'))
    return res


def _rules_core(repo, tier):
    return [rule_lossall(repo, tier), rule_ts(repo, tier), rule_rej_exc_strat(repo, tier), rule_strategy(repo, tier), rule_quality(repo, tier)]


def rules(repo, tier):
    from ..memo import rule_memo
    from ..optional import rule_optional
    from ..mode import mode_rules
    from ..callsig import rule_callsig
    from ..docsig import rule_docsig
    return list(_rules_core(repo, tier)) + [rule_memo(repo, 'C08.MEMO', 'history independence: nothing computed from the contents of a tensor argument is kept '
                                                      'under the identity, address or version of that tensor, in module-level storage, or published from a generator '
                                                      'before it is complete - a later call with the same object and other contents must not be answered from it',
                                                      ['pypose.optim.optimizer', 'pypose.optim.strategy'], floor=3),
            rule_optional(repo, 'C08.OPT', ['pypose.optim.optimizer', 'pypose.optim.strategy'])] + mode_rules(repo, 'C08', ['pypose.optim.optimizer', 'pypose.optim.strategy']) + [rule_callsig(repo, 'C08.SIG', ['pypose.optim.optimizer', 'pypose.optim.strategy']), rule_docsig(repo, 'C08.DOC', ['pypose.optim.optimizer', 'pypose.optim.strategy'])]
