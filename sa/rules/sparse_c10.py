"""C10 (sparse clause) - index-domain typing of the block CSR x block CSC merge-join and of the layout dispatcher.

The product helper walks two compressed pointer structures.  Every integer in it lives in one of a handful of index
domains that are never interchangeable:

    bM  block rows of the left operand          zA  stored blocks of the left operand  (positions k1)
    bN  inner block index (cols of A = rows B)   zB  stored blocks of the right operand (positions k2)
    bP  block columns of the right operand       cnt:<name>  output blocks counted by a 0-initialised, incremented counter
    M, N, P  element extents;  blk(M|N|P)  block edge lengths

The domains are read off the accessor that produced each array (crow_indices: indexed by bM(+1), holds zA; col_indices:
indexed by zA, holds bN; ccol_indices: indexed by bP(+1), holds zB; row_indices: indexed by zB, holds bN; values: indexed by
zA / zB, blocks (blk M, blk N) / (blk N, blk P)), which operand is the row-compressed one is read off the layout asserts.
The rule: an array is subscripted only by an index of its own index domain, two indices are compared only within one domain,
a CSR row extent is range(ptr[i], ptr[i+1]) on ONE pointer array, gathered blocks multiply with matching inner block edge,
the index pairs handed to the COO constructor have the domains of its `size`, and the outer loop variable is the row of the
emitted pair (the value blocks are produced in loop order while the pairs are sorted row-major).  A mismatch is a definite
bug for every non-square / non-uniform input, whatever the values.  Nothing here decides numerical equality of the product.
"""
import ast
from ..core import as_assert, RuleResult, Finding, AnalysisError, dotted, src, norm_construct, guarded, guarded_list
from .. import paths

OPS = 'pypose.sparse.ops'
ROWC = {'sparse_bsr', 'sparse_csr'}
COLC = {'sparse_bsc', 'sparse_csc'}


class T:
    """abstract value: kind in idx|ext|eext|blk|arr|vals|list|tensor|pairs|pairsT|tuple|col"""
    def __init__(self, kind, **kw):
        self.kind = kind
        self.__dict__.update(kw)

    def __repr__(self):
        return '%s(%s)' % (self.kind, ', '.join('%s=%r' % kv for kv in sorted(self.__dict__.items()) if kv[0] != 'kind'))


def _layout_roles(fnode):
    """{param: 'row'|'col'} from `assert p.layout == torch.sparse_bsr or ...`"""
    roles = {}
    for st in fnode.body:
        tst = as_assert(st)
        if tst is None:
            continue
        seen = {}
        for c in ast.walk(tst):
            if isinstance(c, ast.Compare) and len(c.ops) == 1 and isinstance(c.ops[0], ast.Eq):
                l, r = dotted(c.left) or '', dotted(c.comparators[0]) or ''
                if l.endswith('.layout'):
                    seen.setdefault(l[:-7], set()).add(r.split('.')[-1])
                elif r.endswith('.layout'):
                    seen.setdefault(r[:-7], set()).add(l.split('.')[-1])
        for p, lay in seen.items():
            if lay and lay <= ROWC:
                roles[p] = 'row'
            elif lay and lay <= COLC:
                roles[p] = 'col'
    return roles


class Typer:
    def __init__(self, finfo, res):
        self.f = finfo
        self.res = res
        self.env = {}
        self.loops = []           # stack of (var, dom)
        self.n_sub = self.n_cmp = self.n_rng = self.n_misc = 0
        pp = finfo.pos_params
        if len(pp) != 2:
            raise AnalysisError('C10.IDX: %s no longer takes exactly the two operands' % finfo.fq)
        roles = _layout_roles(finfo.node)
        if roles.get(pp[0]) != 'row' or roles.get(pp[1]) != 'col':
            raise AnalysisError('C10.IDX: layout asserts of %s no longer say (row-compressed, column-compressed): %r' % (finfo.fq, roles))
        self.A, self.B = pp
        self.counters = self._counters()

    def _counters(self):
        init, bad = set(), set()
        for n in ast.walk(self.f.node):
            if isinstance(n, (ast.Assign, ast.AnnAssign)):
                tg = n.targets if isinstance(n, ast.Assign) else [n.target]
                v = n.value
                for t in tg:
                    if isinstance(t, ast.Name):
                        if isinstance(v, ast.Constant) and v.value == 0 and not isinstance(v.value, bool):
                            init.add(t.id)
                        else:
                            bad.add(t.id)
            elif isinstance(n, ast.AugAssign) and isinstance(n.target, ast.Name):
                if not (isinstance(n.op, ast.Add) and isinstance(n.value, ast.Constant) and n.value.value == 1):
                    bad.add(n.target.id)
        return init - bad

    # ------------------------------------------------------------------ reporting
    def bad(self, node, msg):
        self.res.add(Finding('C10.IDX', self.f, msg, node=node, construct=norm_construct(node, self.f.node)))

    # ------------------------------------------------------------------ expressions
    def ev(self, e):
        if isinstance(e, ast.Name):
            return self.env.get(e.id)
        if isinstance(e, ast.Constant):
            return T('const', value=e.value)
        if isinstance(e, ast.Tuple) or isinstance(e, ast.List):
            return T('tuple', elts=[self.ev(x) for x in e.elts])
        if isinstance(e, ast.Call):
            return self.call(e)
        if isinstance(e, ast.Attribute):
            v = self.ev(e.value)
            if e.attr == 'T' and v is not None and v.kind == 'pairs':
                return T('pairsT', doms=v.doms)
            if e.attr == 'shape':
                d = dotted(e.value)
                if d == self.A:
                    return T('shape', dims={-2: T('eext', dom='M'), -1: T('eext', dom='N')})
                if d == self.B:
                    return T('shape', dims={-2: T('eext', dom='N'), -1: T('eext', dom='P')})
                if v is not None and v.kind == 'vals' and v.blk:
                    return T('shape', dims={-2: T('blk', dom=v.blk[0]), -1: T('blk', dom=v.blk[1])})
                if v is not None and v.kind == 'pairsT':
                    return T('shape', dims={-1: T('ext', dom='npairs')})
            return None
        if isinstance(e, ast.Subscript):
            return self.subscript(e)
        if isinstance(e, ast.BinOp):
            l, r = self.ev(e.left), self.ev(e.right)
            if isinstance(e.op, ast.FloorDiv) and l is not None and r is not None and l.kind == 'eext' and r.kind == 'blk':
                self.n_misc += 1
                self.res.inst({'function': self.f.fq, 'extent': src(e), 'domain': 'b' + l.dom if l.dom == r.dom else 'MISMATCH'})
                if l.dom != r.dom:
                    self.bad(e, '`%s` divides the %s extent by the %s block edge: the block count of one dimension is computed from '
                             'another dimension\'s block size' % (src(e), l.dom, r.dom))
                    return None
                return T('ext', dom='b' + l.dom)
            if isinstance(e.op, ast.Mult) and l is not None and r is not None and {l.kind, r.kind} == {'ext', 'blk'}:
                bl, ex = (l, r) if l.kind == 'blk' else (r, l)
                if 'b' + bl.dom != ex.dom:
                    self.bad(e, '`%s` multiplies the %s block count by the %s block edge' % (src(e), ex.dom, bl.dom))
                    return None
                return T('eext', dom=bl.dom)
            if isinstance(e.op, (ast.Add, ast.Sub)):
                if l is not None and l.kind == 'idx' and r is not None and r.kind == 'const':
                    return T('idx', dom=l.dom, off=(r.value if isinstance(e.op, ast.Add) else -r.value), base=getattr(l, 'base', None) or dotted(e.left))
                if r is not None and r.kind == 'idx' and l is not None and l.kind == 'const' and isinstance(e.op, ast.Add):
                    return T('idx', dom=r.dom, off=l.value, base=getattr(r, 'base', None) or dotted(e.right))
            return None
        return None

    def call(self, c):
        fn = c.func
        d = dotted(fn) or ''
        last = d.split('.')[-1]
        if isinstance(fn, ast.Name) and fn.id == 'int' and c.args:
            return self.ev(c.args[0])
        if isinstance(fn, ast.Name) and fn.id == 'list' and not c.args:
            return T('list', doms=[], sites=[])
        if isinstance(fn, ast.Attribute):
            recv = dotted(fn.value)
            if fn.attr in ('item', 'long', 'int', 'cpu', 'contiguous', 'clone', 'detach') or fn.attr == 'to':
                return self.ev(fn.value)
            if fn.attr in ('crow_indices', 'col_indices', 'ccol_indices', 'row_indices', 'values') and recv in (self.A, self.B):
                isA = recv == self.A
                legal = ('crow_indices', 'col_indices', 'values') if isA else ('ccol_indices', 'row_indices', 'values')
                if fn.attr not in legal:
                    self.bad(c, '`%s` asks the %s-compressed operand for the other layout\'s index array' % (src(c), 'row' if isA else 'column'))
                    return None
                z = 'zA' if isA else 'zB'
                if fn.attr == 'crow_indices':
                    return T('arr', index='bM', value=z, ptr=True, name=src(c))
                if fn.attr == 'ccol_indices':
                    return T('arr', index='bP', value=z, ptr=True, name=src(c))
                if fn.attr in ('col_indices', 'row_indices'):
                    return T('arr', index=z, value='bN', ptr=False, name=src(c))
                return T('vals', index=z, blk=('M', 'N') if isA else ('N', 'P'))
            if fn.attr == 'view':
                v = self.ev(fn.value)
                if v is not None and v.kind == 'tensor' and len(c.args) == 2 and isinstance(c.args[1], ast.Constant):
                    k = c.args[1].value
                    if v.doms and len(v.doms) != k:
                        self.bad(c, '`%s` regroups a list built from %d appends per match into rows of %d' % (src(c), len(v.doms), k))
                        return None
                    return T('pairs', doms=v.doms)
                return None
            if fn.attr in ('unsqueeze', 'expand_as', 'expand'):
                return self.ev(fn.value)
            if fn.attr == 'scatter_add_':
                self.scatter(c, self.ev(fn.value))
                return None
        if last == 'tensor' and c.args:
            v = self.ev(c.args[0])
            if v is not None and v.kind == 'list':
                return T('tensor', doms=list(v.doms))
            return None
        if last == 'bmm' and len(c.args) == 2:
            a, b = self.ev(c.args[0]), self.ev(c.args[1])
            if a is not None and b is not None and a.kind == b.kind == 'vals':
                self.n_misc += 1
                self.res.inst({'function': self.f.fq, 'block product': src(c)[:80], 'blocks': '%s x %s' % (a.blk, b.blk)})
                if a.blk[1] != b.blk[0]:
                    self.bad(c, '`%s` multiplies blocks of edge %s with blocks of edge %s: the inner block edges differ' % (src(c)[:80], a.blk, b.blk))
                    return None
                return T('vals', index=None, blk=(a.blk[0], b.blk[1]))
            return None
        if last in ('zeros', 'empty', 'zeros_like') and c.args:
            v = self.ev(c.args[0])
            if v is not None and v.kind == 'tuple' and len(v.elts) == 3 and all(x is not None for x in v.elts):
                n, r, cc = v.elts
                if n.kind in ('idx', 'ext') and r.kind == cc.kind == 'blk':
                    return T('vals', index=n.dom, blk=(r.dom, cc.dom))
            if v is not None and v.kind in ('ext', 'idx'):
                return T('arr', index=v.dom, value=None, ptr=False, name=src(c))
            return None
        if last == 'sparse_coo_tensor':
            self.coo(c)
            return None
        if last in ('sparse_bsr_tensor', 'sparse_csr_tensor'):
            self.bsr(c)
            return None
        if last == 'range':
            return None
        return None

    def subscript(self, e):
        base = self.ev(e.value)
        if base is None:
            return None
        sl = e.slice
        if base.kind == 'shape' and isinstance(sl, (ast.Constant, ast.UnaryOp)):
            try:
                k = ast.literal_eval(sl)
            except ValueError:
                return None
            return base.dims.get(k)
        if base.kind == 'pairs' and isinstance(sl, ast.Tuple) and len(sl.elts) == 2 and isinstance(sl.elts[1], ast.Constant) \
                and isinstance(sl.elts[0], ast.Slice):
            k = sl.elts[1].value
            if base.doms and 0 <= k < len(base.doms):
                return T('col', dom=base.doms[k])
            return None
        if base.kind in ('arr', 'vals'):
            i = self.ev(sl)
            if i is None or i.kind not in ('idx', 'col') or base.index is None:
                return T('idx', dom=base.value) if base.kind == 'arr' and base.value and not isinstance(sl, ast.Slice) else None
            self.n_sub += 1
            ok = i.dom == base.index
            off = getattr(i, 'off', 0)
            if ok and off and not (getattr(base, 'ptr', False) and off == 1):
                ok = False
            self.res.inst({'function': self.f.fq, 'subscript': src(e)[:70], 'array index domain': base.index, 'index domain': i.dom, 'ok': ok},
                          'sub|%s|%s' % (base.index, i.dom))
            if not ok:
                if i.dom != base.index:
                    self.bad(e, '`%s` subscripts an array indexed by %s with an index that ranges over %s' % (src(e)[:70], _dn(base.index), _dn(i.dom)))
                else:
                    self.bad(e, '`%s` reads at offset %+d an array that has no entry past the last index of %s' % (src(e)[:70], off, _dn(base.index)))
            if base.kind == 'vals':
                return T('vals', index=None, blk=base.blk)
            return T('idx', dom=base.value, ptrsrc=(base.name, dotted(sl) if not off else getattr(i, 'base', None), off)) if base.value else None
        return None

    # ------------------------------------------------------------------ constructors
    def scatter(self, c, dest):
        if dest is None or dest.kind != 'vals' or len(c.args) < 3:
            return
        idx, srcv = self.ev(c.args[1]), self.ev(c.args[2])
        self.n_misc += 1
        self.res.inst({'function': self.f.fq, 'scatter': src(c)[:80], 'into': repr(dest), 'index': repr(idx), 'source': repr(srcv)})
        if idx is not None and idx.kind == 'tensor' and idx.doms and dest.index is not None:
            if len(idx.doms) != 1 or idx.doms[0] != dest.index:
                self.bad(c, '`%s`: the scatter index holds %s but the destination is indexed by %s' % (src(c)[:80], [_dn(d) for d in idx.doms], _dn(dest.index)))
        if srcv is not None and srcv.kind == 'vals' and srcv.blk != dest.blk:
            self.bad(c, '`%s`: blocks of edge %s are accumulated into blocks of edge %s' % (src(c)[:80], srcv.blk, dest.blk))

    def _kw(self, c, name, pos):
        for k in c.keywords:
            if k.arg == name:
                return k.value
        return c.args[pos] if len(c.args) > pos else None

    def coo(self, c):
        ind, size = self._kw(c, 'indices', 0), self._kw(c, 'size', 2)
        if ind is None or size is None:
            return
        iv, sv = self.ev(ind), self.ev(size)
        if iv is None or sv is None or iv.kind != 'pairsT' or sv.kind != 'tuple':
            return
        self.n_misc += 1
        got = list(iv.doms)
        want = [x.dom if x is not None and x.kind == 'ext' else None for x in sv.elts]
        self.res.inst({'function': self.f.fq, 'coo': src(c)[:80], 'index rows': got, 'size': want})
        if len(got) == len(want) and all(w is not None for w in want) and got != want:
            self.bad(c, '`%s`: the index rows range over %s but the declared size is %s' % (src(c)[:80], [_dn(g) for g in got], [_dn(w) for w in want]))
        # sorted row-major by coalesce(): the emitted row must be the OUTER loop variable, else the value blocks (loop order) mismatch
        self.pair_doms = got

    def bsr(self, c):
        vals, size = self._kw(c, 'values', 2), self._kw(c, 'size', 3)
        if vals is None or size is None:
            return
        vv, sv = self.ev(vals), self.ev(size)
        if vv is None or sv is None or vv.kind != 'vals' or sv.kind != 'tuple':
            return
        self.n_misc += 1
        want = [x.dom if x is not None and x.kind == 'eext' else None for x in sv.elts]
        self.res.inst({'function': self.f.fq, 'result': src(c)[:80], 'block edges': vv.blk, 'size': want})
        if all(w is not None for w in want) and tuple(want) != tuple(vv.blk):
            self.bad(c, '`%s`: value blocks have edges %s but the declared size is over %s' % (src(c)[:60], vv.blk, want))
        pd = getattr(self, 'pair_doms', None)
        if pd and all(w is not None for w in want) and ['b' + w for w in want] != pd:
            self.bad(c, '`%s`: the block pattern was built over %s but the declared size is over %s' % (src(c)[:60], pd, want))

    # ------------------------------------------------------------------ statements
    def assign(self, target, value_t, node):
        if isinstance(target, ast.Name):
            if target.id in self.counters:
                self.env[target.id] = T('idx', dom='cnt:' + target.id)
            else:
                self.env[target.id] = value_t
        elif isinstance(target, ast.Tuple) and value_t is not None and value_t.kind == 'tuple' and len(value_t.elts) == len(target.elts):
            for t, v in zip(target.elts, value_t.elts):
                self.assign(t, v, node)

    def compare(self, e):
        for c in ast.walk(e):
            if isinstance(c, ast.Compare) and len(c.ops) == 1:
                l, r = self.ev(c.left), self.ev(c.comparators[0])
                if l is None or r is None or l.kind != 'idx' or r.kind != 'idx':
                    continue
                self.n_cmp += 1
                ok = l.dom == r.dom
                self.res.inst({'function': self.f.fq, 'comparison': src(c)[:70], 'domains': [l.dom, r.dom], 'ok': ok}, 'cmp|%s|%s' % (l.dom, r.dom))
                if not ok:
                    self.bad(c, '`%s` compares an index over %s with an index over %s' % (src(c)[:70], _dn(l.dom), _dn(r.dom)))
            elif isinstance(c, ast.Subscript):
                pass

    def walk(self, body):
        for st in body:
            self.stmt(st)

    def stmt(self, st):
        if isinstance(st, ast.Assign):
            v = self.ev(st.value)
            for t in st.targets:
                self.assign(t, v, st)
        elif isinstance(st, ast.AnnAssign) and st.value is not None:
            self.assign(st.target, self.ev(st.value), st)
        elif isinstance(st, ast.AugAssign):
            self.ev(st.value)
        elif isinstance(st, ast.For):
            self.for_(st)
        elif isinstance(st, ast.While):
            self.compare(st.test)
            self._ev_subs(st.test)
            self.walk(st.body)
        elif isinstance(st, ast.If):
            self.compare(st.test)
            self._ev_subs(st.test)
            self.walk(st.body)
            self.walk(st.orelse)
        elif isinstance(st, ast.Expr):
            self.expr_stmt(st)
        elif isinstance(st, ast.Return) and st.value is not None:
            self.ev(st.value)
        elif isinstance(st, ast.Assert):
            pass

    def _ev_subs(self, e):
        # subscripts inside a test that are not operands of a typed comparison still get their index checked (compare() evaluates
        # operands itself, so only count the rest once)
        pass

    def for_(self, st):
        it = st.iter
        dom = None
        if isinstance(it, ast.Call) and isinstance(it.func, ast.Name) and it.func.id == 'range' and isinstance(st.target, ast.Name):
            self.n_rng += 1
            if len(it.args) == 1:
                v = self.ev(it.args[0])
                if v is not None and v.kind == 'ext':
                    dom = v.dom
                self.res.inst({'function': self.f.fq, 'loop': 'for %s in %s' % (st.target.id, src(it)), 'domain': dom})
            elif len(it.args) == 2:
                a, b = self.ev(it.args[0]), self.ev(it.args[1])
                if a is not None and b is not None and a.kind == b.kind == 'idx':
                    pa, pb = getattr(a, 'ptrsrc', None), getattr(b, 'ptrsrc', None)
                    ok = a.dom == b.dom and pa is not None and pb is not None and pa[0] == pb[0] and pa[1] == pb[1] and pa[2] == 0 and pb[2] == 1
                    self.res.inst({'function': self.f.fq, 'loop': 'for %s in %s' % (st.target.id, src(it)[:70]), 'domain': a.dom,
                                   'row extent idiom ptr[i]..ptr[i+1]': ok})
                    if not ok:
                        self.bad(it, '`%s` is not the extent [ptr[i], ptr[i+1]) of one pointer array: the positions scanned for this row/column '
                                 'are not its stored blocks' % src(it)[:70])
                    dom = a.dom
            if dom is not None:
                self.env[st.target.id] = T('idx', dom=dom)
                self.loops.append((st.target.id, dom))
                self.walk(st.body)
                self.loops.pop()
                return
        self.walk(st.body)

    def expr_stmt(self, st):
        c = st.value
        if isinstance(c, ast.Call) and isinstance(c.func, ast.Attribute) and c.func.attr == 'append' and len(c.args) == 1 \
                and isinstance(c.func.value, ast.Name):
            lst = self.env.get(c.func.value.id)
            v = self.ev(c.args[0])
            if lst is not None and lst.kind == 'list':
                lst.doms.append(v.dom if v is not None and v.kind == 'idx' else None)
                lst.sites.append((c, dotted(c.args[0]), [l[0] for l in self.loops]))
            return
        self.ev(c)


def _dn(d):
    return {'bM': 'block rows of the left operand', 'bN': 'the inner block index', 'bP': 'block columns of the right operand',
            'zA': 'stored blocks of the left operand', 'zB': 'stored blocks of the right operand'}.get(d, str(d))


@guarded
def rule_idx(repo, tier):
    res = RuleResult('C10.IDX', 'block CSR x block CSC merge-join: every pointer/index array is subscripted by an index of its own domain, indices '
                     'are compared within one domain, row extents are [ptr[i], ptr[i+1]), block edges and declared sizes agree', floor=20)
    f = repo.func(OPS, 'bsr_bsc_matmul')
    ty = Typer(f, res)
    ty.walk(f.node.body)
    if ty.n_sub < 8 or ty.n_cmp < 3 or ty.n_rng < 3 or ty.n_misc < 6:
        raise AnalysisError('C10.IDX: typed only %d subscripts, %d comparisons, %d loops, %d constructors in %s - the merge-join is no longer '
                            'recognised' % (ty.n_sub, ty.n_cmp, ty.n_rng, ty.n_misc, f.fq))
    # order clause: pairs are sorted row-major downstream, value blocks are produced in loop order
    for name, lst in ty.env.items():
        pass
    for name, t in list(ty.env.items()):
        pass
    _order_clause(ty, res, f)
    _flag_clause(ty, res, f)
    return res


def _flag_clause(ty, res, f):
    """one output block per (i, j) that had a match: the counter the scatter index is filled with is incremented exactly under a boolean
    flag that (a) is cleared in the body of the loop the increment sits in, before the scan, and (b) is raised next to every append of the
    counter.  A flag cleared outside that loop stays raised for later (i, j) without a match; an append without raising loses a block."""
    flags = set()
    for n in ast.walk(f.node):
        if isinstance(n, (ast.Assign, ast.AnnAssign)):
            tg = n.targets if isinstance(n, ast.Assign) else [n.target]
            if isinstance(n.value, ast.Constant) and isinstance(n.value.value, bool):
                flags |= {t.id for t in tg if isinstance(t, ast.Name)}
    n_ok = 0

    def assigns_const(st, name, val):
        tg = st.targets if isinstance(st, ast.Assign) else [st.target] if isinstance(st, ast.AnnAssign) else []
        return any(isinstance(t, ast.Name) and t.id == name for t in tg) and isinstance(st.value, ast.Constant) and st.value.value is val

    def visit_loop(loop):
        nonlocal n_ok
        for k, st in enumerate(loop.body):
            if isinstance(st, ast.If) and isinstance(st.test, ast.Name) and st.test.id in flags:
                incs = [a for a in ast.walk(st) if isinstance(a, ast.AugAssign) and isinstance(a.target, ast.Name) and a.target.id in ty.counters]
                if not incs:
                    continue
                flag, ctr = st.test.id, incs[0].target.id
                cleared = any(assigns_const(b, flag, False) for b in loop.body[:k])
                scans = [b for b in loop.body[:k] if isinstance(b, (ast.For, ast.While))]
                cleared_before_scan = cleared and all(
                    any(assigns_const(b, flag, False) for b in loop.body[:loop.body.index(sc)]) for sc in scans)
                # every append of the counter raises the flag in the same block
                raised_ok, n_app = True, 0
                for blk in ast.walk(loop):
                    body = getattr(blk, 'body', None)
                    if not isinstance(body, list):
                        continue
                    for b in body + (getattr(blk, 'orelse', None) or []):
                        if isinstance(b, ast.Expr) and isinstance(b.value, ast.Call) and isinstance(b.value.func, ast.Attribute) \
                                and b.value.func.attr == 'append' and b.value.args and dotted(b.value.args[0]) == ctr:
                            n_app += 1
                            holder = body if b in body else blk.orelse
                            if not any(assigns_const(x, flag, True) for x in holder):
                                raised_ok = False
                                res.add(Finding('C10.IDX', f, 'the output-block counter `%s` is recorded for a match without raising `%s`: the block is '
                                                'never counted and later blocks are scattered into its slot' % (ctr, flag), node=b, construct='flag-raise|' + ctr))
                n_ok += 1
                res.inst({'function': f.fq, 'counter': ctr, 'flag': flag, 'cleared per iteration before the scan': cleared_before_scan,
                          'raised at every recorded match': raised_ok, 'matches recorded': n_app})
                if not cleared_before_scan:
                    res.add(Finding('C10.IDX', f, 'the flag `%s` guarding `%s += 1` is not cleared in the body of the loop over `%s` before the scan: once '
                                    'raised it stays raised, so output blocks without any match are counted' % (flag, ctr, src(loop.target)),
                                    node=st, construct='flag-clear|' + flag))
                if n_app == 0:
                    res.add(Finding('C10.IDX', f, 'the counter `%s` is never recorded for a match' % ctr, node=st, construct='flag-noappend|' + ctr))
                # the pattern pair is emitted under the same guard as the increment
                apps = [a for a in ast.walk(st) if isinstance(a, ast.Call) and isinstance(a.func, ast.Attribute) and a.func.attr == 'append']
                if not apps:
                    res.add(Finding('C10.IDX', f, 'the (row, column) pair is not emitted under the guard that counts the output block', node=st,
                                    construct='flag-pair|' + flag))
        for st in ast.walk(loop):
            if isinstance(st, ast.For) and st is not loop:
                pass

    for n in ast.walk(f.node):
        if isinstance(n, ast.For):
            visit_loop(n)
    if n_ok == 0:
        raise AnalysisError('C10.IDX: the flag-guarded output-block counter of %s was not found' % f.fq)


def _order_clause(ty, res, f):
    """the list whose appends are (outer loop var, inner loop var) feeds the COO pattern; coalesce()/to_sparse_csr() sort it by the first
    component, so the first component must be the OUTER loop variable or the counter-ordered value blocks are attached to the wrong pairs"""
    n = 0
    for node in ast.walk(f.node):
        if not isinstance(node, ast.For):
            continue
    lists = {}
    for node in ast.walk(f.node):
        if isinstance(node, ast.Call) and isinstance(node.func, ast.Attribute) and node.func.attr == 'append' and isinstance(node.func.value, ast.Name):
            lists.setdefault(node.func.value.id, []).append(node)
    loopvars = []

    def collect(body, stack):
        for st in body:
            if isinstance(st, ast.For) and isinstance(st.target, ast.Name):
                collect(st.body, stack + [st.target.id])
            elif isinstance(st, (ast.If, ast.While)):
                collect(st.body, stack)
                collect(st.orelse, stack)
            elif isinstance(st, ast.Expr) and isinstance(st.value, ast.Call) and isinstance(st.value.func, ast.Attribute) \
                    and st.value.func.attr == 'append' and isinstance(st.value.func.value, ast.Name) and st.value.args:
                loopvars.append((st.value.func.value.id, dotted(st.value.args[0]), list(stack), st.value))
    collect(f.node.body, [])
    by = {}
    for lname, arg, stack, call in loopvars:
        by.setdefault(lname, []).append((arg, stack, call))
    for lname, items in by.items():
        if len(items) == 2 and all(a in s for a, s, _ in items) and items[0][0] != items[1][0]:
            (a0, s0, c0), (a1, s1, c1) = items
            n += 1
            ok = s0.index(a0) < s0.index(a1)
            res.inst({'function': f.fq, 'pattern list': lname, 'emitted pair': [a0, a1], 'loop nest': s0, 'row is outer loop': ok})
            if not ok:
                res.add(Finding('C10.IDX', f, 'the pattern pairs (%s, %s) are emitted with the INNER loop variable first: they are sorted by their '
                                'first component downstream while the value blocks stay in loop order, so blocks are attached to the wrong '
                                'positions' % (a0, a1), node=c0, construct='order|' + lname))
    if n == 0:
        raise AnalysisError('C10.IDX: the (row, column) pattern list of %s was not found' % f.fq)


# ---------------------------------------------------------------------------------------------------------------- dispatcher

@guarded
def rule_dispatch(repo, tier):
    """_sparse_csr_mm(mat1, mat2) = mat1 @ mat2 for every layout pair: every delegation keeps the operand order, addmm is called with
    alpha = 1 and beta = 0 on (zero, mat1', mat2'), the helper for the block pair is called under guards that match its own layout asserts"""
    res = RuleResult('C10.DISP', 'sparse product dispatcher: every branch delegates with the operands in product order (a matrix product does '
                     'not commute), addmm with beta=0/alpha=1, the block helper is reached only under the layouts it asserts', floor=5)
    f = repo.func(OPS, '_sparse_csr_mm')
    p1, p2 = f.pos_params[:2]
    helper = repo.func(OPS, 'bsr_bsc_matmul')
    hroles = _layout_roles(helper.node)
    hp = helper.pos_params

    def origin(e):
        names = {n.id for n in ast.walk(e) if isinstance(n, ast.Name)} & {p1, p2}
        return names

    def guards_for(call):
        """layout equalities that hold on the way to `call` (conjunction of enclosing if-tests, positive branch only)"""
        out = {}

        def rec(body, acc):
            for st in body:
                if isinstance(st, ast.If):
                    g = dict(acc)
                    conj = st.test.values if isinstance(st.test, ast.BoolOp) and isinstance(st.test.op, ast.And) else [st.test]
                    for t in conj:
                        if isinstance(t, ast.Compare) and len(t.ops) == 1 and isinstance(t.ops[0], ast.Eq):
                            l, r = dotted(t.left) or '', dotted(t.comparators[0]) or ''
                            if l.endswith('.layout'):
                                g[l[:-7]] = r.split('.')[-1]
                    if any(n is call for n in ast.walk(ast.Module(body=st.body, type_ignores=[]))):
                        out.update(g)
                        rec(st.body, g)
                    elif any(n is call for n in ast.walk(ast.Module(body=st.orelse, type_ignores=[]))):
                        rec(st.orelse, acc)
        rec(f.node.body, {})
        return out

    for c in paths.calls_in(f.node):
        d = dotted(c.func) or ''
        last = d.split('.')[-1]
        if last == 'addmm':
            if len(c.args) < 3:
                continue
            o1, o2 = origin(c.args[1]), origin(c.args[2])
            kw = {k.arg: k.value for k in c.keywords}
            beta, alpha = kw.get('beta'), kw.get('alpha')
            ok_order = o1 == {p1} and o2 == {p2}
            ok_beta = beta is not None and isinstance(beta, ast.Constant) and beta.value == 0
            ok_alpha = alpha is None or (isinstance(alpha, ast.Constant) and alpha.value == 1)
            res.inst({'function': f.fq, 'call': src(c)[:80], 'operand order': ok_order, 'beta=0': ok_beta, 'alpha=1': ok_alpha})
            if not ok_order:
                res.add(Finding('C10.DISP', f, '`%s` multiplies the operands as (%s) @ (%s): not %s @ %s' % (src(c)[:80], sorted(o1), sorted(o2), p1, p2), node=c))
            if not ok_beta and not _is_zeros(f, c.args[0]):
                res.add(Finding('C10.DISP', f, '`%s` adds a non-zero multiple of its first argument to the product' % src(c)[:80], node=c))
            if not ok_alpha:
                res.add(Finding('C10.DISP', f, '`%s` scales the product by alpha != 1' % src(c)[:80], node=c))
        elif last in (f.name, helper.name) and len(c.args) >= 2:
            o1, o2 = origin(c.args[0]), origin(c.args[1])
            ok = o1 == {p1} and o2 == {p2}
            desc = {'function': f.fq, 'call': src(c)[:80], 'operand order': ok}
            if not ok:
                res.add(Finding('C10.DISP', f, '`%s` delegates with the operands as (%s, %s): the product is taken in the other order or of the '
                                'wrong operands' % (src(c)[:80], sorted(o1), sorted(o2)), node=c))
            if last == helper.name:
                g = guards_for(c)
                for k, arg in enumerate(c.args[:2]):
                    an = dotted(arg)
                    lay = g.get(an)
                    role = hroles.get(hp[k])
                    okg = lay is not None and ((role == 'row' and lay in ROWC) or (role == 'col' and lay in COLC))
                    desc['guard %d' % k] = '%s: %s vs helper %s' % (an, lay, role)
                    if not okg:
                        res.add(Finding('C10.DISP', f, '`%s`: argument %d (`%s`) reaches the block helper under layout guard %s, the helper asserts a %s-'
                                        'compressed operand there' % (src(c)[:60], k, an, lay, role), node=c, construct='guard%d|' % k + src(c)))
            res.inst(desc)
        elif last in ('zeros',):
            # result size [mat1.size(0), mat2.size(1)]
            pass
    # ---- every layout pair reaches a branch that can produce the product (exhaustiveness over {bsr, bsc, csr, csc}^2)
    LAYOUTS = ('sparse_bsr', 'sparse_bsc', 'sparse_csr', 'sparse_csc')

    def ev(test, lay):
        """truth value of a dispatcher test for operand layouts lay = {p1: l1, p2: l2}; None = unknown"""
        if isinstance(test, ast.BoolOp):
            vals = [ev(v, lay) for v in test.values]
            if isinstance(test.op, ast.And):
                return False if any(v is False for v in vals) else (None if any(v is None for v in vals) else True)
            return True if any(v is True for v in vals) else (None if any(v is None for v in vals) else False)
        if isinstance(test, ast.UnaryOp) and isinstance(test.op, ast.Not):
            v = ev(test.operand, lay)
            return None if v is None else not v
        if isinstance(test, ast.Call) and dotted(test.func) == 'isinstance':
            return True
        if isinstance(test, ast.Compare) and len(test.ops) == 1 and isinstance(test.ops[0], (ast.Eq, ast.NotEq)):
            l, r = dotted(test.left) or '', dotted(test.comparators[0]) or ''
            if l.endswith('.layout') and l[:-7] in lay and r.split('.')[-1] in LAYOUTS + ('strided',):
                eq = lay[l[:-7]] == r.split('.')[-1]
                return eq if isinstance(test.ops[0], ast.Eq) else not eq
        if isinstance(test, ast.Attribute) and test.attr.startswith('is_sparse_') and dotted(test.value) in lay:
            return lay[dotted(test.value)] == 'sparse_' + test.attr[len('is_sparse_'):]
        return None

    def conv(arg, lay):
        # layout of an argument expression: p / p.to_sparse_xxx()
        d = dotted(arg)
        if d in lay:
            return lay[d]
        if isinstance(arg, ast.Call) and isinstance(arg.func, ast.Attribute) and arg.func.attr.startswith('to_sparse_') and dotted(arg.func.value) in lay:
            return 'sparse_' + arg.func.attr[len('to_sparse_'):]
        return None

    def run(body, lay, depth=0):
        """-> (outcome, node): 'helper' | 'addmm-csr' | 'raise' | 'fallthrough' | 'unknown'"""
        for st in body:
            if isinstance(st, ast.If):
                t = ev(st.test, lay)
                if t is True or t is None:
                    r = run(st.body, lay, depth)
                    if r is not None:
                        return r
                    if t is True:
                        continue      # the branch ended without returning: execution goes on after the if (as in the source)
                if t is False or t is None:
                    r = run(st.orelse, lay, depth)
                    if r is not None:
                        return r
            elif isinstance(st, ast.Raise):
                return ('raise', st)
            elif isinstance(st, ast.Return):
                v = st.value
                if isinstance(v, ast.Name):          # `_ret = call(...); return _ret`
                    from ..expr import inline_straight
                    v = inline_straight(f.node, upto=st).value(v)
                if isinstance(v, ast.Call):
                    nm = (dotted(v.func) or '').split('.')[-1]
                    if nm == helper.name:
                        return ('helper', st)
                    if nm == f.name and depth < 3:
                        l1, l2 = conv(v.args[0], lay), conv(v.args[1], lay)
                        if l1 and l2:
                            return run(f.node.body, {p1: l1, p2: l2}, depth + 1)
                        return ('unknown', st)
                    if nm == 'addmm':
                        both_csr = lay[p1] == lay[p2] == 'sparse_csr'
                        return ('addmm-csr', st) if both_csr else ('fallthrough', st)
                return ('unknown', st)
        return None
    bad_pairs = {}
    for l1 in LAYOUTS:
        for l2 in LAYOUTS:
            r = run(f.node.body, {p1: l1, p2: l2}) or ('fallthrough', f.node)
            res.inst({'function': f.fq, 'layout pair': '%s x %s' % (l1[7:], l2[7:]), 'reaches': r[0]}, (f.fq, l1, l2))
            if r[0] in ('raise', 'fallthrough', 'unknown'):
                bad_pairs.setdefault((r[0], getattr(r[1], 'lineno', 0)), []).append('%s x %s' % (l1[7:], l2[7:]))
    for (kind, line), prs in sorted(bad_pairs.items()):
        res.add(Finding('C10.DISP', f, 'the layout pairs %s have no branch that forms the product: they end in %s (line %d) - torch.addmm / torch.zeros do not accept '
                        'these layout combinations, so the helper raises instead of returning the dense product' %
                        (', '.join(prs), {'raise': 'an explicit raise', 'fallthrough': 'the generic addmm fall-through', 'unknown': 'an unrecognised return'}[kind], line),
                        construct='layout pairs|%s|%s' % (kind, ';'.join(prs))))
    # `raise NotImplemented` raises TypeError (NotImplemented is not an exception)
    for n in ast.walk(f.node):
        if isinstance(n, ast.Raise) and isinstance(n.exc, ast.Name) and n.exc.id == 'NotImplemented':
            res.add(Finding('C10.DISP', f, '`raise NotImplemented` raises "TypeError: exceptions must derive from BaseException": NotImplemented is a comparison '
                            'sentinel, the exception is NotImplementedError', node=n, construct='raise NotImplemented'))
    # a name bound to a 1-tuple by a trailing comma and then used as a tensor argument
    for n in ast.walk(f.node):
        if isinstance(n, ast.Assign) and isinstance(n.value, ast.Tuple) and len(n.value.elts) == 1 and len(n.targets) == 1 and isinstance(n.targets[0], ast.Name):
            nm = n.targets[0].id
            used = [c for c in paths.calls_in(f.node) if c.lineno > n.lineno and any(isinstance(a, ast.Name) and a.id == nm for a in c.args)]
            if used:
                res.add(Finding('C10.DISP', f, '`%s` ends in a comma: `%s` is a 1-tuple, and `%s` receives the tuple where a tensor is required (TypeError)'
                                % (src(n)[:60], nm, src(used[0])[:50]), node=n, construct='trailing comma|' + norm_construct(n.value, f.node)))
    # size literals
    for n in ast.walk(f.node):
        if isinstance(n, ast.Assign) and isinstance(n.value, ast.List) and len(n.value.elts) == 2:
            a, b = n.value.elts
            sa_, sb_ = src(a).replace(' ', ''), src(b).replace(' ', '')
            if '.size(' in sa_ and '.size(' in sb_:
                ok = sa_ in ('%s.size(0)' % p1, '%s.size(-2)' % p1, '%s.shape[0]' % p1) and sb_ in ('%s.size(1)' % p2, '%s.size(-1)' % p2)
                res.inst({'function': f.fq, 'result size': src(n.value), 'rows of left x cols of right': ok})
                if not ok:
                    res.add(Finding('C10.DISP', f, 'result size `%s` is not [rows of %s, columns of %s]' % (src(n.value), p1, p2), node=n))
    return res


def _is_zeros(f, e):
    if isinstance(e, ast.Name):
        for n in ast.walk(f.node):
            if isinstance(n, ast.Assign) and any(isinstance(t, ast.Name) and t.id == e.id for t in n.targets):
                v = n.value
                if isinstance(v, ast.Tuple) and len(v.elts) == 1:
                    v = v.elts[0]
                if not (isinstance(v, ast.Call) and (dotted(v.func) or '').split('.')[-1] in ('zeros', 'zeros_like')):
                    return False
        return True
    return isinstance(e, ast.Call) and (dotted(e.func) or '').split('.')[-1] in ('zeros', 'zeros_like')
