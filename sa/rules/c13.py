"""C13 - EKF / UKF / PF: provenance clauses."""
import ast
from ..core import RuleResult, Finding, AnalysisError, dotted, src, norm_construct, guarded, guarded_list
from ..expr import inline_straight, returns_of, dump, contains, is_call_to, subst, rv
from .. import paths

EKF = 'pypose.module.ekf'
UKF = 'pypose.module.ukf'
PF = 'pypose.module.pf'


def stmt_values(finfo):
    """[(stmt, env_before)] in source order (straight-line bodies)"""
    return inline_straight(finfo.node).log


def _find_calls(e, meth):
    return [n for n in ast.walk(e) if isinstance(n, ast.Call) and isinstance(n.func, ast.Attribute) and n.func.attr == meth]


def _fn(repo, mod, q):
    """the function the rules read: for EKF.forward the body with its own straight-line helper methods inlined (a split into predict() / update() is the same
    filter), everything else as written"""
    f = repo.func(mod, q)
    if (mod, q) != (EKF, 'EKF.forward') or f.cls is None:
        return f
    from ..expr import flatten_self_calls
    from ..core import FuncInfo
    methods = {n: m.node for n, m in f.cls.methods.items() if n != 'forward'}
    node = flatten_self_calls(f.node, methods)
    if node is f.node:
        return f
    g = FuncInfo(f.module, f.qual, node, cls=f.cls, parent=f.parent)
    return g


@guarded
def rule_innov(repo, tier):
    res = RuleResult('C13.INNOV', 'EKF: the state argument of the observation call forming the innovation derives from the '
                     'result of state_transition (the predicted state)', floor=1)
    f = _fn(repo, EKF, 'EKF.forward')
    inl = inline_straight(f.node)
    n = 0
    for st, env in inl.log:
        if not isinstance(st, (ast.Assign, ast.Return, ast.AugAssign, ast.Expr)):
            continue
        val = getattr(st, 'value', None)
        if val is None:
            continue
        for c in _find_calls(val, 'observation'):
            if not c.args:
                continue
            n += 1
            arg = subst(c.args[0], env)
            ok = bool(_find_calls(arg, 'state_transition'))
            res.inst({'function': f.fq, 'observation_at': src(arg)[:100], 'predicted': ok, 'line': c.lineno},
                     (f.fq, norm_construct(c, f.node)))
            if not ok:
                res.add(Finding('C13.INNOV', f, 'innovation uses observation(%s, ...) - the prior state, not the predicted state '
                                'returned by state_transition (documentation eq. 4; Kalman update on linear systems)' % src(c.args[0]),
                                node=c, construct=norm_construct(c, f.node)))
    if n == 0:
        raise AnalysisError('C13.INNOV: EKF.forward no longer calls model.observation')
    # linearisation point: the documentation takes ALL Jacobians (A, B, C, D) at the prior mean - every set_refpoint of the step receives the state the step
    # was given, never the propagated one (re-linearising C at f(x, u) is another filter: it differs for every nonlinear observation model)
    m = 0
    for st, env in inl.log:
        val = getattr(st, 'value', None) if isinstance(st, (ast.Assign, ast.Return, ast.AugAssign, ast.Expr)) else None
        if val is None:
            continue
        for c in _find_calls(val, 'set_refpoint'):
            kw = {k.arg: k.value for k in c.keywords}
            sarg = kw.get('state', c.args[0] if c.args else None)
            if sarg is None:
                continue
            m += 1
            arg = subst(sarg, env)
            prior = isinstance(arg, ast.Name) and arg.id == f.pos_params[1]
            res.inst({'function': f.fq, 'linearised at': src(arg)[:80], 'the prior mean': prior}, (f.fq, 'refpoint', m))
            if not prior and _find_calls(arg, 'state_transition'):
                res.add(Finding('C13.INNOV', f, 'the model is (re-)linearised at `%s`, the PROPAGATED state: the Jacobians read afterwards (C, D) are not those at the prior '
                                'mean the documented recursion uses - the posterior differs for every nonlinear observation model' % src(arg)[:70], node=c,
                                construct='linearisation at the propagated state'))
    if m == 0:
        raise AnalysisError('C13.INNOV: EKF.forward no longer sets the linearisation point')
    return res


def _gain_side(res, rid, f, Kx, node):
    """side of the inverse: K = (P^- C^T) S^-1 - the innovation covariance S is inverted on the RIGHT of the cross covariance.  `solve(S, X)` is S^-1 X (left);
    it gives the gain only with left=False or as solve(S, X^T)^T (S symmetric).  For diagonal P, Q, R, C all factors commute and the side is invisible."""
    for c in ast.walk(Kx):
        if not isinstance(c, ast.Call):
            continue
        nm = (dotted(c.func) or (c.func.attr if isinstance(c.func, ast.Attribute) else '')).split('.')[-1]
        if nm in ('solve', 'cholesky_solve', 'lu_solve', 'lstsq', 'solve_triangular', 'solve_ex'):
            left_false = any(k.arg == 'left' and isinstance(k.value, ast.Constant) and k.value.value is False for k in c.keywords)
            # transposed as a whole: an enclosing .mT / .transpose(-1, -2) whose value is (a field of) this call
            transposed = False
            for o in ast.walk(Kx):
                inner = None
                if isinstance(o, ast.Attribute) and o.attr in ('mT', 'mH'):
                    inner = o.value
                elif isinstance(o, ast.Call) and isinstance(o.func, ast.Attribute) and o.func.attr in ('transpose', 'swapaxes'):
                    inner = o.func.value
                while isinstance(inner, ast.Attribute) and inner.attr in ('solution',):
                    inner = inner.value
                if isinstance(inner, ast.Subscript):
                    inner = inner.value
                if inner is c:
                    transposed = True
            okside = left_false or transposed
            res.inst({'function': f.fq, 'gain solve': src(c)[:60], 'inverse applied on the right (left=False or transposed)': okside}, ('gain-side', src(c)[:60]))
            if not okside:
                res.add(Finding(rid, f, 'the gain is `%s` = S^-1 (P C^T): the innovation covariance is inverted on the LEFT; the Kalman gain is (P C^T) S^-1 '
                                '(solve(.., left=False) or solve(S, (P C^T)^T)^T) - equal only when all factors commute (diagonal P, Q, R, C)' % src(c)[:60],
                                node=node, construct='gain inverse on the wrong side'))
        elif nm in ('pinv', 'inv', 'inverse', 'inv_ex', 'cholesky_inverse'):
            # the inverse must be the last factor of the product that forms the gain
            def chain_(n):
                return chain_(n.left) + [n.right] if isinstance(n, ast.BinOp) and isinstance(n.op, ast.MatMult) else [n]
            prods = [n for n in ast.walk(Kx) if isinstance(n, ast.BinOp) and isinstance(n.op, ast.MatMult) and any(x is c for x in chain_(n))]
            if prods:
                top = max(prods, key=lambda n: len(chain_(n)))
                pos = [i for i, x in enumerate(chain_(top)) if x is c][0]
                okpos = pos == len(chain_(top)) - 1 and len(chain_(top)) > 1
                res.inst({'function': f.fq, 'gain product': src(top)[:60], 'inverse is the last factor': okpos}, ('gain-side', src(top)[:60]))
                if not okpos:
                    res.add(Finding(rid, f, 'in the gain `%s` the inverse of the innovation covariance is not the last factor: K = (P C^T) S^-1' % src(top)[:60],
                                    node=node, construct='gain inverse on the wrong side'))


@guarded
def rule_gain(repo, tier):
    res = RuleResult('C13.GAIN', 'EKF: gain and posterior covariance are built from the propagated covariance A P A^T + Q; '
                     'the posterior mean is predicted state + K @ innovation', floor=2)
    f = _fn(repo, EKF, 'EKF.forward')
    rets = returns_of(f.node)
    v0 = rv(f.node, rets[0]) if len(rets) == 1 else None
    if not isinstance(v0, ast.Tuple) or len(v0.elts) != 2:
        raise AnalysisError('C13.GAIN: EKF.forward no longer returns (state, covariance)')
    xp, Pp = v0.elts

    def is_prop(n):
        # A @ P @ A.mT + Q : an Add whose one side mentions Q and whose other side is a product with model.A twice and the prior P
        if not (isinstance(n, ast.BinOp) and isinstance(n.op, ast.Add)):
            return False
        for a, b in ((n.left, n.right), (n.right, n.left)):
            if _mentions_noise(b, 'Q') and sum(1 for x in ast.walk(a) if isinstance(x, ast.Attribute) and x.attr == 'A') >= 2 \
                    and contains(a, lambda x: isinstance(x, ast.Name) and x.id == 'P'):
                return True
        return False
    props = [n for n in ast.walk(Pp) if is_prop(n)]
    res.inst({'function': f.fq, 'posterior_cov_uses_propagated': bool(props)})
    if not props:
        res.add(Finding('C13.GAIN', f, 'returned covariance is not derived from the propagated covariance A P A^T + Q', node=rets[0],
                        construct='posterior covariance'))
        return res
    pd = dump(props[0])
    # gain: the matrix applied to the innovation in the posterior mean
    gains = [c for c in ast.walk(xp) if is_call_to(c, 'bmv') and len(c.args) == 2]
    ok = False
    for g in gains:
        K, e = g.args
        if any(dump(n) == pd for n in ast.walk(K)) and _find_calls(e, 'observation'):
            ok = True
            # raw prior covariance must not appear in the gain outside the propagated term
            stripped = _replace(K, pd)
            if contains(stripped, lambda x: isinstance(x, ast.Name) and x.id == 'P'):
                ok = False
    res.inst({'function': f.fq, 'gain_uses_propagated': ok})
    if not ok:
        res.add(Finding('C13.GAIN', f, 'the Kalman gain applied to the innovation is not built from the propagated covariance only',
                        node=rets[0], construct='gain'))
    for g in gains:
        _gain_side(res, 'C13.GAIN', f, g.args[0], rets[0])
    # posterior covariance: in every matrix product of the update the gain acts from the LEFT on (C P^-) - (I - K C) P^-, P^- - K C P^-, P^- - K S K^T,
    # Joseph form.  P^- K C is a different matrix unless P^- and K C commute (diagonal systems).
    kd = None
    for g in gains:
        if any(dump(n) == pd for n in ast.walk(g.args[0])):
            kd = dump(g.args[0])
    if kd is not None:
        def chain(n):
            return chain(n.left) + [n.right] if isinstance(n, ast.BinOp) and isinstance(n.op, ast.MatMult) else [n]
        tops = []
        def collect(n, parent_is_mm=False):
            if isinstance(n, ast.BinOp) and isinstance(n.op, ast.MatMult):
                if not parent_is_mm:
                    tops.append(n)
                collect(n.left, True)
                collect(n.right, False)
            else:
                for c_ in ast.iter_child_nodes(n):
                    collect(c_, False)
        # do not look inside the gain itself
        class _CutK(ast.NodeTransformer):
            def generic_visit(self, n):
                if dump(n) == kd:
                    return ast.Name('$K', ast.Load())
                return super().generic_visit(n)
        import copy as _copy
        Pk = _CutK().visit(_copy.deepcopy(Pp))
        collect(Pk)
        nchains = 0
        for t_ in tops:
            fs = chain(t_)
            pos = [i for i, x in enumerate(fs) if isinstance(x, ast.Name) and x.id == '$K']
            post = [i for i, x in enumerate(fs) if isinstance(x, (ast.Attribute, ast.Call)) and any(isinstance(y, ast.Name) and y.id == '$K' for y in ast.walk(x))]
            if not pos and not post:
                continue
            nchains += 1
            okc = (not pos or pos[0] == 0) and all(i == len(fs) - 1 for i in post)
            res.inst({'function': f.fq, 'update product': src(t_)[:60].replace('$K', 'K'), 'gain acts from the left': okc}, ('upd', src(t_)[:80]))
            if not okc:
                res.add(Finding('C13.GAIN', f, 'posterior covariance: in the product `%s` the gain K is not the leftmost factor; the Kalman update is P - K C P = (I - K C) P, '
                                'and P K C equals it only when P and K C commute' % src(t_)[:70].replace('$K', 'K'), node=rets[0], construct='gain not leftmost in the covariance update'))
        if nchains == 0:
            res.add(Finding('C13.GAIN', f, 'the posterior covariance does not contain the gain in any matrix product', node=rets[0], construct='covariance update without gain'))
    # posterior mean = predicted + K e
    okm = isinstance(xp, ast.BinOp) and isinstance(xp.op, ast.Add) and any(_find_calls(s, 'state_transition') and not _find_calls(s, 'observation')
                                                                       for s in (xp.left, xp.right))
    res.inst({'function': f.fq, 'posterior_mean_from_predicted': okm})
    if not okm:
        res.add(Finding('C13.GAIN', f, 'posterior mean is not (predicted state) + K @ innovation', node=rets[0], construct='posterior mean'))
    return res


def _mentions_noise(e, name):
    return contains(e, lambda x: (isinstance(x, ast.Name) and x.id == name) or (isinstance(x, ast.Attribute) and x.attr == name))


def _replace(e, target_dump):
    class R(ast.NodeTransformer):
        def generic_visit(self, n):
            if dump(n) == target_dump:
                return ast.Name('$PROP', ast.Load())
            return super().generic_visit(n)
    import copy
    return R().visit(copy.deepcopy(e))


# ------------------------------------------------------------------------------- UKF

def sigma_root(e):
    """the sigma_weight_points call at the root of a points expression: follows $item(S, 0), model calls on their first
    argument and shape-preserving methods; does not pass through reductions."""
    while True:
        if isinstance(e, ast.Call):
            d = dotted(e.func)
            if d == '$item' and isinstance(e.args[0], ast.Call) and isinstance(e.args[0].func, ast.Attribute) \
                    and e.args[0].func.attr == 'sigma_weight_points':
                return e.args[0]
            if isinstance(e.func, ast.Attribute) and e.func.attr in ('state_transition', 'observation') and e.args:
                e = e.args[0]
                continue
            if isinstance(e.func, ast.Attribute) and e.func.attr in ('clone', 'contiguous', 'detach', 'to', 'float', 'double'):
                e = e.func.value
                continue
        return None


def deviation_root(e):
    """e = mean - points (or points - mean): the sigma set the points belong to"""
    if isinstance(e, ast.UnaryOp):
        return deviation_root(e.operand)
    if isinstance(e, ast.BinOp) and isinstance(e.op, ast.Sub):
        roots = [r for r in (sigma_root(e.left), sigma_root(e.right)) if r is not None]
        if len(roots) == 1:
            return roots[0]
    return None


@guarded
def rule_xcov(repo, tier):
    res = RuleResult('C13.XCOV', 'UKF: both deviation arguments of every covariance stem from the same sigma-point set', floor=3)
    f = repo.func(UKF, 'UKF.forward')
    inl = inline_straight(f.node)
    n = 0
    for st, env in inl.log:
        val = getattr(st, 'value', None)
        if val is None:
            continue
        for c in _find_calls(val, 'compute_cov'):
            if len(c.args) < 2:
                continue
            n += 1
            a, b = subst(c.args[0], env), subst(c.args[1], env)
            ra, rb = deviation_root(a), deviation_root(b)
            res.inst({'function': f.fq, 'cov': src(c)[:60], 'sets': [src(r)[:70] if r is not None else None for r in (ra, rb)]},
                     (f.fq, norm_construct(c, f.node)))
            if ra is None or rb is None:
                # not a deviation at all: the sigma points themselves are handed over (one-pass raw-moment form  sum w a b^T - mean_a mean_b^T).  Equal in exact
                # arithmetic, but a difference of numbers of size |x|^2 for a result of size sigma^2: for states far from the origin the covariance loses its digits
                # and its positive semidefiniteness.  The documented form sums outer products of DEVIATIONS from the weighted mean.
                raw = [x for x, r in ((a, ra), (b, rb)) if r is None and sigma_root(x) is not None]
                if raw:
                    res.add(Finding('C13.XCOV', f, 'the covariance `%s` is formed from the sigma points themselves (`%s`), not from their deviations from the weighted mean: the '
                                    'raw-moment form cancels catastrophically for states that are large compared with their spread' % (src(c)[:60], src(raw[0])[:40]), node=c,
                                    construct='raw sigma points|' + norm_construct(c, f.node)))
                    continue
                res.unresolved += 1
                continue
            if dump(ra) != dump(rb):
                res.add(Finding('C13.XCOV', f, 'covariance pairs deviations of two different sigma-point sets: `%s` is taken over %s, '
                                '`%s` over %s' % (src(c.args[0]), src(ra)[:60], src(c.args[1]), src(rb)[:60]), node=c,
                                construct=norm_construct(c, f.node)))
    if n < 3:
        raise AnalysisError('C13.XCOV: UKF.forward has %d compute_cov calls, expected 3' % n)
    if res.unresolved:
        raise AnalysisError('C13.XCOV: %d deviation arguments could not be traced to a sigma set' % res.unresolved)
    return res


TRANSPOSE = {'mT', 'mH', 'T', 'H'}


@guarded
def rule_orient(repo, tier):
    res = RuleResult('C13.ORIENT', 'UKF: sigma offsets stacked along dim -2 are the columns of the matrix square root '
                     '(factor transposed before being added to the row-shaped mean)', floor=1)
    f = repo.func(UKF, 'UKF.sigma_weight_points')
    rets = returns_of(f.node)
    if len(rets) != 1:
        raise AnalysisError('C13.ORIENT: sigma_weight_points has %d returns' % len(rets))
    inl = inline_straight(f.node, upto=rets[0])
    pts = inl.value(rets[0].value.elts[0]) if isinstance(rets[0].value, ast.Tuple) else inl.value(rets[0].value)
    sq = [n for n in ast.walk(pts) if isinstance(n, ast.Call) and dotted(n.func) == 'self.msqrt']
    if not sq:
        raise AnalysisError('C13.ORIENT: sigma points no longer built from self.msqrt')
    # every occurrence of msqrt(...) inside the points must sit directly under a transposition
    parents = {}
    for n in ast.walk(pts):
        for c in ast.iter_child_nodes(n):
            parents[id(c)] = n
    bad = 0
    for s in sq:
        p = parents.get(id(s))
        ok = isinstance(p, ast.Attribute) and p.attr in TRANSPOSE
        if isinstance(p, ast.Attribute) and p.attr in ('transpose', 'swapaxes', 'swapdims', 'adjoint', 'permute'):
            ok = True
        if not ok:
            bad += 1
    cat_dim = [k.value for n in ast.walk(pts) if isinstance(n, ast.Call) and dotted(n.func) in ('torch.cat', 'torch.concat')
               for k in n.keywords if k.arg == 'dim']
    res.inst({'function': f.fq, 'msqrt_occurrences': len(sq), 'untransposed': bad, 'stack_dim': [src(d) for d in cat_dim]})
    if bad and any(isinstance(d, ast.UnaryOp) and isinstance(d.operand, ast.Constant) and d.operand.value == 2 for d in cat_dim):
        res.add(Finding('C13.ORIENT', f, 'rows of msqrt(P) are used as sigma offsets; for the default lower Cholesky factor L '
                        '(P = L L^T) the offsets are the columns of L, i.e. the rows of L^T', node=rets[0],
                        construct='sigma offsets = rows of msqrt'))
    return res


@guarded
def rule_pf(repo, tier):
    res = RuleResult('C13.PF', 'PF: particles ~ N(x, n P) -> model -> weights(y, ye, R) -> resample -> mean / covariance + Q', floor=4)
    f = __import__('sa.core', fromlist=['x']).ifexp_view(repo.func(PF, 'PF.forward'))
    rets = returns_of(f.node)
    v0 = rv(f.node, rets[0]) if len(rets) == 1 else None
    if not isinstance(v0, ast.Tuple) or len(v0.elts) != 2:
        raise AnalysisError('C13.PF: PF.forward no longer returns (state, covariance)')
    x, P = v0.elts

    def chk(name, ok, msg):
        res.inst({'function': f.fq, 'clause': name, 'ok': ok})
        if not ok:
            res.add(Finding('C13.PF', f, msg, node=rets[0], construct=name))
    rs = _find_calls(x, 'resample_particles')
    chk('mean-of-resampled', bool(rs) and isinstance(x, ast.Call) and isinstance(x.func, ast.Attribute) and x.func.attr == 'mean'
        and sigma_like(x.func.value, 'resample_particles'), 'returned state is not the mean of the resampled particles')
    gp = _find_calls(x, 'generate_particles')
    ok = False
    if gp and len(gp[0].args) == 2:
        cov = gp[0].args[1]
        ok = isinstance(gp[0].args[0], ast.Name) and gp[0].args[0].id == 'x' and isinstance(cov, ast.BinOp) and isinstance(cov.op, ast.Mult) \
            and {dump(cov.left), dump(cov.right)} == {dump(ast.Name('P', ast.Load())), dump(ast.parse('x.size(-1)', mode='eval').body)}
    chk('prior-N(x,nP)', ok, 'particles are not drawn from N(x, n P) with n = x.size(-1)')
    rl = _find_calls(x, 'relative_likelihood')
    ok = False
    if rl and len(rl[0].args) == 3:
        y, ye, R = rl[0].args
        ok = isinstance(y, ast.Name) and y.id == 'y' and bool(_find_calls(ye, 'generate_particles')) and _mentions_noise(R, 'R') \
            and not _mentions_noise(R, 'Q')
    chk('weights(y,ye,R)', ok, 'importance weights are not computed from (y, predicted observations of the particles, R)')
    # the Gaussian likelihood uses the WHOLE covariance R (documented: N(y; h(x), R) for any SPD R): a body that reads R only through its diagonal is the
    # likelihood of a different, uncorrelated noise model
    lk = repo.func(PF, 'PF.relative_likelihood')
    rp = lk.pos_params[3] if len(lk.pos_params) > 3 else None
    if rp is not None:
        parents = {}
        for n_ in ast.walk(lk.node):
            for c_ in ast.iter_child_nodes(n_):
                parents[id(c_)] = n_
        uses = [n_ for n_ in ast.walk(lk.node) if isinstance(n_, ast.Name) and n_.id == rp and isinstance(n_.ctx, ast.Load)]
        def diag_only(n_):
            par = parents.get(id(n_))
            if isinstance(par, ast.Attribute) and par.attr in ('diagonal', 'diag'):
                return True
            if isinstance(par, ast.Call) and (dotted(par.func) or '').split('.')[-1] in ('diagonal', 'diag', 'diag_embed') and par.args and par.args[0] is n_:
                return True
            return False
        full = [u for u in uses if not diag_only(u)]
        chk('likelihood uses the full R', bool(uses) and bool(full), 'relative_likelihood reads the observation covariance only through its diagonal: for a correlated R '
            'the importance weights are those of another noise model')
    # the weights are RELATIVE likelihoods: scale-free in R and in the observation dimension.  An absolute constant floor / cap on the un-normalised
    # density (clamp_min(1e-8), + 1e-12, max(q, c)) makes all particles equal as soon as every density is below it - large R, many observations
    floors = [c for c in ast.walk(lk.node) if isinstance(c, ast.Call) and (dotted(c.func) or (c.func.attr if isinstance(c.func, ast.Attribute) else '')).split('.')[-1]
              in ('clamp', 'clamp_min', 'clamp_', 'clamp_min_', 'clip', 'maximum', 'nan_to_num')
              and any(isinstance(a_, ast.Constant) and isinstance(a_.value, (int, float)) and not isinstance(a_.value, bool) for a_ in list(c.args) + [k.value for k in c.keywords])]
    chk('likelihood without an absolute floor', not floors, 'relative_likelihood clamps the un-normalised density with an absolute constant (`%s`): whenever every particle\'s '
        'density lies below it (large R, several observations) the weights become uniform and the measurement is ignored' % (src(floors[0])[:40] if floors else ''))
    # documentation, step 3: q = p(y | x^-_k) - the likelihood is evaluated at the PROPAGATED particle
    ok2 = False
    if rl and len(rl[0].args) == 3:
        ye = rl[0].args[1]
        obs = [n for n in ast.walk(ye) if isinstance(n, ast.Call) and isinstance(n.func, ast.Attribute) and n.func.attr == 'observation']
        for o in obs:
            if o.args and (_find_calls(o.args[0], 'state_transition') or
                           any(isinstance(n, ast.Call) and dotted(n.func) == '$item' and isinstance(n.args[1], ast.Constant) and n.args[1].value == 0
                               and isinstance(n.args[0], ast.Call) and dotted(n.args[0].func) == 'self.model' for n in ast.walk(o.args[0]))):
                ok2 = True
    chk('likelihood-at-propagated-particle', ok2, 'the predicted observation entering the importance weights is not model.observation(<propagated '
        'particles>, ...): System.forward returns the observation of the state it was GIVEN, so the likelihood p(y | x_k) is evaluated at the '
        'particle before the transition, not at x^-_k = f(x_k) as the documented step 3 (and the Kalman update on linear systems) requires')
    # the particles are propagated at the time of THIS step: model.state_transition(particles, u, t) with the caller's t, as the UKF propagates its
    # sigma points.  Calling the model itself (System.forward) evaluates f at the model's own clock, whatever t says, and advances that clock.
    prop_calls = [n for n in ast.walk(x) if isinstance(n, ast.Call) and isinstance(n.func, ast.Attribute) and n.func.attr == 'state_transition']
    via_forward = [n for n in ast.walk(x) if isinstance(n, ast.Call) and dotted(n.func) == 'self.model']
    has_t = lambda e: any(isinstance(y, ast.Name) and y.id == 't' for y in ast.walk(e))      # t itself, or t resolved against None (systime if t is None else t)
    okp = bool(prop_calls) and not via_forward and all((len(c.args) >= 3 and has_t(c.args[2])) or any(k.arg == 't' and has_t(k.value) for k in c.keywords)
                                                       for c in prop_calls)
    chk('propagation-at-t', okp, 'the particles are propagated by %s: the time argument t of the step does not reach f (System.forward uses the model\'s '
        'internal clock and then advances it), so on a time-varying model the particle cloud belongs to another time step than the likelihood, and every '
        'PF step changes model.systime; EKF and UKF call model.state_transition(., u, t)' % ('calling the model, `self.model(...)`' if via_forward else
                                                                                              'a state_transition call without the step\'s t'))
    ok = bool(_find_calls(P, 'resample_particles')) and _mentions_noise(P, 'Q') and bool(_find_calls(P, 'compute_cov'))
    if ok:
        cc = _find_calls(P, 'compute_cov')[0]
        ok = len(cc.args) >= 3 and dump(cc.args[0]) == dump(cc.args[1]) and _mentions_noise(cc.args[2], 'Q') and not _mentions_noise(cc.args[2], 'R')
    chk('cov-of-resampled+Q', ok, 'returned covariance is not cov(resampled deviations) + Q')
    # forward takes the UNWEIGHTED mean / covariance of what resample_particles returns: every return of resample_particles therefore is a selection of the
    # particles by the weights q (an index computed from q).  A path that hands the propagated particles back unchanged (an "effective sample size is large
    # enough, skip resampling" shortcut) drops the measurement: the result is the prior propagated through f.  And every selecting index is bounded by the
    # number of particles.
    fr = repo.func(PF, 'PF.resample_particles')
    qn, xn = fr.pos_params[1], fr.pos_params[2]
    n_ret = 0
    for r in returns_of(fr.node):
        n_ret += 1
        v = inline_straight(fr.node, upto=r).value(r.value) if r.value is not None else None
        uses_q = v is not None and any(isinstance(n, ast.Name) and n.id == qn for n in ast.walk(v))
        selects = isinstance(v, ast.Subscript) or (isinstance(v, ast.Call) and (dotted(v.func) or (v.func.attr if isinstance(v.func, ast.Attribute) else '')).split('.')[-1]
                                                   in ('index_select', 'gather', 'take_along_dim'))
        res.inst({'function': fr.fq, 'return': src(r)[:60], 'selects particles by the weights': bool(uses_q and selects)}, ('resample-return', src(r)[:60]))
        if not (uses_q and selects):
            res.add(Finding('C13.PF', fr, '`%s` returns the particles without selecting them by the weights `%s`: PF.forward averages what comes back with EQUAL weights, so on '
                            'this path the measurement has no effect - the estimate is the propagated prior' % (src(r)[:50], qn), node=r,
                            construct='resample returns unselected particles'))
    if n_ret == 0:
        raise AnalysisError('C13.PF: resample_particles has no return')
    # searchsorted(cumsum(q), r) returns N (one past the end) for every uniform draw above the last cumulative weight; in float32 the cumulative sum of 1e6
    # normalised weights ends at 0.9999x, so a handful of the 1e6 draws index out of bounds.  The index is clamped to N - 1, or the cumulative weights are
    # normalised by their own last entry (then nothing exceeds them), or the draws are scaled by it.
    for c in paths.calls_in(fr.node):
        if (dotted(c.func) or (c.func.attr if isinstance(c.func, ast.Attribute) else '')).split('.')[-1] != 'searchsorted' or len(c.args) < 2:
            continue
        full = None
        for r in returns_of(fr.node):
            if r.value is not None:
                full = inline_straight(fr.node, upto=r).value(r.value)
        seq = inline_straight(fr.node).value(c.args[0]) if isinstance(c.args[0], ast.Name) else c.args[0]
        draws = inline_straight(fr.node).value(c.args[1]) if isinstance(c.args[1], ast.Name) else c.args[1]

        def last_entry(e):
            return any(isinstance(x, ast.Subscript) and any(isinstance(y, ast.UnaryOp) and isinstance(y.op, ast.USub) and isinstance(y.operand, ast.Constant) and y.operand.value == 1
                                                             for y in ast.walk(x.slice)) for x in ast.walk(e))
        normalised = isinstance(seq, ast.BinOp) and isinstance(seq.op, ast.Div) and last_entry(seq.right)
        scaled = isinstance(draws, ast.BinOp) and isinstance(draws.op, ast.Mult) and (last_entry(draws.left) or last_entry(draws.right))
        clamped = full is not None and any(isinstance(x, ast.Call) and (dotted(x.func) or (x.func.attr if isinstance(x.func, ast.Attribute) else '')).split('.')[-1] in
                                           ('clamp', 'clamp_', 'clamp_max', 'clamp_max_', 'clip', 'minimum') and any(y is not None and dump(y) == dump(c) for y in
                                           [x.func.value if isinstance(x.func, ast.Attribute) else None] + list(x.args)) for x in ast.walk(full)) or \
            any(isinstance(x, ast.Call) and (x.func.attr if isinstance(x.func, ast.Attribute) else '') in ('clamp', 'clamp_', 'clamp_max', 'clamp_max_', 'clip') and
                any(y is c for y in ast.walk(x)) for x in ast.walk(fr.node))
        okb = normalised or scaled or clamped
        res.inst({'function': fr.fq, 'index': src(c)[:60], 'bounded by the number of particles': okb}, ('resample-bound', src(c)[:60]))
        if not okb:
            res.add(Finding('C13.PF', fr, '`%s` is used as an index without a bound: for a draw above the last cumulative weight searchsorted returns N, one past the end; the '
                            'float32 cumulative sum of 1e6 normalised weights ends at 0.9999x, so a PF step with many particles raises IndexError now and then' % src(c)[:50],
                            node=c, construct='unbounded resampling index'))
    return res


def sigma_like(e, meth):
    return isinstance(e, ast.Call) and isinstance(e.func, ast.Attribute) and e.func.attr == meth


@guarded
def rule_inverse(repo, tier):
    res = RuleResult('C13.INV', 'the innovation covariance is inverted exactly: pinv / inv without a truncation tolerance (rtol / atol / rcond), '
                     'otherwise measurement directions with small innovation variance are silently ignored; a Cholesky factor used to colour '
                     'row-shaped noise is transposed', floor=2)
    for mod, q in ((EKF, 'EKF.forward'), (UKF, 'UKF.forward')):
        f = _fn(repo, mod, q)
        calls = [c for c in paths.calls_in(f.node) if (dotted(c.func) or '').split('.')[-1] in ('pinv', 'inv', 'inverse', 'solve', 'lstsq')]
        if not calls:
            raise AnalysisError('C13.INV: %s no longer inverts the innovation covariance' % q)
        for c in calls:
            tol = [k.arg for k in c.keywords if k.arg in ('rtol', 'atol', 'rcond', 'tol')] + (['positional tolerance'] if len(c.args) > 1 and
                                                                                           (dotted(c.func) or '').endswith('pinv') else [])
            res.inst({'function': f.fq, 'site': src(c)[:60], 'truncation': tol}, (f.fq, norm_construct(c, f.node)))
            if tol:
                res.add(Finding('C13.INV', f, 'the innovation covariance is inverted with a truncation tolerance (%s): directions whose '
                                'innovation variance is below the tolerance are dropped from the update' % ', '.join(tol), node=c))
    # UKF: K = Pxy Py^-1 - same side obligation as the EKF gain
    fu = repo.func(UKF, 'UKF.forward')
    for a in ast.walk(fu.node):
        if isinstance(a, ast.Assign) and len(a.targets) == 1 and isinstance(a.targets[0], ast.Name) and a.targets[0].id == 'K':
            _gain_side(res, 'C13.INV', fu, a.value, a)
    # Cholesky-coloured noise in the particle filter (expected count zero today: MultivariateNormal is used)
    def chol_defects(fnode):
        out = []
        inl = inline_straight(fnode)
        exprs = [v for v in inl.env.values() if isinstance(v, ast.AST)] + [inline_straight(fnode, upto=r).value(r.value) for r in returns_of(fnode) if r.value is not None]
        for e in exprs:
            for n in ast.walk(e):
                if isinstance(n, ast.BinOp) and isinstance(n.op, ast.MatMult):
                    r = n.right
                    if isinstance(r, ast.Call) and (dotted(r.func) or '').split('.')[-1] == 'cholesky' and \
                            not any(k.arg == 'upper' and isinstance(k.value, ast.Constant) and k.value.value is True for k in r.keywords):
                        out.append(n)
        return out
    fx = ast.parse('def g(x, P, N):\n    L = torch.linalg.cholesky(P)\n    z = torch.randn(N, 3)\n    return x + z @ L\n').body[0]
    if not chol_defects(fx):
        raise AnalysisError('C13.INV: positive fixture (row noise times untransposed Cholesky factor) not recognised')
    pfm = repo.module(PF)
    for q, f in pfm.functions.items():
        ds = chol_defects(f.node)
        res.inst({'function': f.fq, 'untransposed_cholesky_products': len(ds)}, f.fq)
        for n in ds:
            res.add(Finding('C13.INV', f, '`%s`: rows of noise are multiplied by the lower Cholesky factor L itself; the samples then have '
                            'covariance L^T L instead of L L^T = P (needs L.mT)' % src(n)[:60], construct='z @ L'))
    return res


@guarded
def rule_sym(repo, tier):
    from ..expr import triple_products, is_transpose_of
    res = RuleResult('C13.SYM', 'EKF prediction and UKF update build their covariances from congruences X S X^T (outer factors transposes of one '
                     'another), and UKF / PF auto-covariances pair a deviation with itself', floor=2)
    for mod, q, pick in ((EKF, 'EKF.forward', 1), (UKF, 'UKF.forward', 1)):
        f = _fn(repo, mod, q)
        rets = returns_of(f.node)
        v0 = rv(f.node, rets[0]) if len(rets) == 1 else None
        if not isinstance(v0, ast.Tuple) or len(v0.elts) != 2:
            raise AnalysisError('C13.SYM: %s no longer returns (state, covariance)' % q)
        P = v0.elts[pick]
        # inside pseudo-inverses the factors are not covariance terms
        class Strip(ast.NodeTransformer):
            def visit_Call(self, n):
                if (dotted(n.func) or '').split('.')[-1] in ('pinv', 'inv', 'inverse'):
                    return ast.Name('$inv', ast.Load())
                return self.generic_visit(n)
        import copy
        Pn = Strip().visit(copy.deepcopy(P))
        n_ok = 0
        for L_, M_, R_, node in triple_products(Pn):
            if isinstance(L_, ast.Name) and L_.id == '$inv' or isinstance(R_, ast.Name) and R_.id == '$inv':
                continue
            # (I - K C) P  style products have two factors only; K S K^T and A P A^T have three
            ok = is_transpose_of(L_, R_)
            if ok:
                n_ok += 1
                # orientation: a covariance carried through the linear map X (a model Jacobian A / C, a gain K) is X S X^T - the map itself on the left
                isT = lambda z: (isinstance(z, ast.Attribute) and z.attr in ('mT', 'T', 'mH', 'H')) or \
                    (isinstance(z, ast.Call) and isinstance(z.func, ast.Attribute) and z.func.attr in ('transpose', 'swapaxes', 'swapdims', 'adjoint', 't'))
                model_map = any((dotted(x) or '').startswith('self.model.') for x in ast.walk(R_))
                res.inst({'function': f.fq, 'congruence': src(node)[:60], 'map_on_the_left': not (isT(L_) and not isT(R_))}, ('orient', src(node)[:80]))
                if isT(L_) and not isT(R_) and model_map:
                    res.add(Finding('C13.SYM', f, 'covariance term `%s`: a covariance carried through the linear map %s is %s S %s^T; here the TRANSPOSED map is on the '
                                    'left, which propagates the covariance with the adjoint of the dynamics (equal only for a symmetric matrix)'
                                    % (src(node)[:60], src(R_)[:20], src(R_)[:20], src(R_)[:20]), construct='transposed map on the left ' + src(R_)[:30]))
            else:
                # a chain like  P @ C.mT @ $inv  is a gain, not a covariance term: only flag products whose middle factor is a covariance
                mid_cov = any(isinstance(x, ast.Name) and x.id in ('P', 'Q', 'R') for x in ast.walk(M_)) or \
                    any(isinstance(x, ast.Call) and isinstance(x.func, ast.Attribute) and x.func.attr == 'compute_cov' for x in ast.walk(M_))
                if mid_cov and not any(isinstance(x, ast.Name) and x.id == '$inv' for x in ast.walk(node)):
                    res.add(Finding('C13.SYM', f, 'covariance term `%s @ S @ %s`: the outer factors are not transposes of one another' % (src(L_)[:30], src(R_)[:30]),
                                    construct='non-congruence ' + src(L_)[:30] + '|' + src(R_)[:30]))
        res.inst({'function': f.fq, 'congruence_terms': n_ok}, f.fq)
        if n_ok == 0:
            res.add(Finding('C13.SYM', f, 'the returned covariance of %s contains no congruence term X S X^T any more' % q, construct='no congruence'))
    return res


@guarded
def rule_pure13(repo, tier):
    from ..effects import rule_pure
    t = [(EKF, 'EKF.forward'), (UKF, 'UKF.forward'), (UKF, 'UKF.sigma_weight_points'), (UKF, 'UKF.compute_cov'), (PF, 'PF.forward'),
         (PF, 'PF.generate_particles'), (PF, 'PF.relative_likelihood'), (PF, 'PF.resample_particles'), (PF, 'PF.compute_cov')]
    return rule_pure(repo, 'C13.PURE', 'the filter steps do not write in place into the state, covariance or noise tensors they are given: a run of '
                     'consecutive steps that reuses the same Q / R objects sees them unchanged', t)


@guarded
def rule_sigma(repo, tier):
    """UKF: a weighted sample statistic pairs the weights with the sigma points of the SAME draw, and every draw uses the same spread
    parameter.  The points of a draw are spread by sqrt(n + k) and its weights are k/(n+k), 1/(2(n+k)): weights of one draw applied to the
    points of another one scale every covariance by the ratio of the two (n + k)."""
    res = RuleResult('C13.SIGMA', 'UKF.forward: every weighted mean / covariance uses the weights returned by the same sigma_weight_points call as '
                     'the points it weighs, all draws pass the same spread parameter k, and the points handed to the observation model are re-drawn from the predicted covariance', floor=5)
    f = repo.func(UKF, 'UKF.forward')
    tags = {}          # variable -> set of ('p'|'w', draw number)
    draws = []         # (call node, k expression source)
    obs_from, predcov, from_pred, centre = [], set(), {}, {}

    def deps(e):
        out = set()
        for n in ast.walk(e):
            if isinstance(n, ast.Name) and isinstance(n.ctx, ast.Load):
                out |= tags.get(n.id, set())
        return out

    def is_draw(e):
        return isinstance(e, ast.Call) and isinstance(e.func, ast.Attribute) and e.func.attr == 'sigma_weight_points'

    def check_use(node, weight_e, operands, what):
        wt = {t for t in deps(weight_e) if t[0] == 'w'}
        pt = {t[1] for o in operands for t in deps(o) if t[0] == 'p'}
        if not wt or not pt:
            return
        wgen = {t[1] for t in wt}
        ok = wgen == {max(pt)}
        res.inst({'function': f.fq, 'statistic': src(node)[:70], 'weights of draw': sorted(wgen), 'latest points of draw': max(pt), 'same draw': ok},
                 (what, src(node)[:70]))
        if not ok:
            res.add(Finding('C13.SIGMA', f, '`%s` weighs the sigma points of draw %d with the weights of draw %s: the two draws are spread with their own '
                            '(n + k), so the statistic is scaled by the ratio whenever the spread parameters differ' % (src(node)[:70], max(pt), sorted(wgen)),
                            node=node))

    def scan_uses(e):
        for n in ast.walk(e):
            if isinstance(n, ast.BinOp) and isinstance(n.op, ast.Mult):
                for a, b in ((n.left, n.right), (n.right, n.left)):
                    if isinstance(a, ast.Name) and any(t[0] == 'w' for t in tags.get(a.id, ())) and not any(t[0] == 'p' for t in tags.get(a.id, ())):
                        check_use(n, a, [b], 'mean')
            elif isinstance(n, ast.Call) and isinstance(n.func, ast.Attribute) and n.func.attr == 'compute_cov' and len(n.args) >= 3:
                check_use(n, n.args[2], n.args[:2], 'cov')

    def stmts(body):
        for st in body:
            if isinstance(st, ast.Assign):
                scan_uses(st.value)
                for c_ in ast.walk(st.value):
                    if isinstance(c_, ast.Call) and isinstance(c_.func, ast.Attribute) and c_.func.attr == 'observation' and c_.args:
                        obs_from.append((c_, {t[1] for t in deps(c_.args[0]) if t[0] == 'p'}))
                is_pred = isinstance(st.value, ast.Call) and isinstance(st.value.func, ast.Attribute) and st.value.func.attr == 'compute_cov' and \
                    len(st.value.args) >= 4 and any(isinstance(x, ast.Name) and x.id == 'Q' for x in ast.walk(st.value.args[3]))
                for t in st.targets:
                    for el in (t.elts if isinstance(t, ast.Tuple) else [t]):
                        if isinstance(el, ast.Name):
                            (predcov.add if is_pred else predcov.discard)(el.id)
                if is_draw(st.value):
                    k = len(draws) + 1
                    c = st.value
                    from_pred[k] = len(c.args) > 1 and isinstance(c.args[1], ast.Name) and c.args[1].id in predcov
                    # centre of the draw: a weighted mean of propagated points (the predicted mean) or the prior mean parameter
                    centre[k] = (isinstance(c.args[0], ast.Name) and any(t_[0] == 'w' for t_ in tags.get(c.args[0].id, ()))) if c.args else False
                    kexp = c.args[2] if len(c.args) > 2 else next((kw.value for kw in c.keywords if kw.arg == 'k'), None)
                    draws.append((c, src(kexp) if kexp is not None else '<default>'))
                    for t in st.targets:
                        if isinstance(t, ast.Tuple) and len(t.elts) == 2:
                            for el, tag in zip(t.elts, ('p', 'w')):
                                if isinstance(el, ast.Name):
                                    tags[el.id] = {(tag, k)}
                        elif isinstance(t, ast.Name):
                            tags[t.id] = {('p', k), ('w', k)}
                else:
                    d = deps(st.value)
                    for t in st.targets:
                        for el in (t.elts if isinstance(t, ast.Tuple) else [t]):
                            if isinstance(el, ast.Name):
                                tags[el.id] = set(d)
            elif isinstance(st, (ast.Expr, ast.Return)) and st.value is not None:
                scan_uses(st.value)
            elif isinstance(st, (ast.If, ast.For, ast.While, ast.With, ast.Try)):
                for fld in ('body', 'orelse', 'finalbody'):
                    stmts(getattr(st, fld, []) or [])
    stmts(f.node.body)
    if not draws or not obs_from:
        raise AnalysisError('C13.SIGMA: UKF.forward draws %d sigma sets / %d observation calls, anchors lost' % (len(draws), len(obs_from)))
    for c_, ds in obs_from:
        ok = bool(ds) and from_pred.get(max(ds), False)
        res.inst({'function': f.fq, 'observation': src(c_)[:60], 'points of draw': sorted(ds), 'drawn from the predicted covariance (with Q)': ok}, ('obs', src(c_)[:60]))
        okc = bool(ds) and centre.get(max(ds), False)
        res.inst({'function': f.fq, 'observation': src(c_)[:60], 'sigma points centred on the predicted mean': okc}, ('obs-centre', src(c_)[:60]))
        if ok and not okc:
            res.add(Finding('C13.SIGMA', f, 'the sigma points pushed through the observation model are drawn around the PRIOR mean, not around the predicted mean (the weighted '
                            'mean of the propagated points): the predicted observation is h(x) instead of h(x^-), so the posterior mean is wrong for every transition that '
                            'moves the mean', node=c_, construct='observation points centred on the prior mean'))
        if not ok:
            res.add(Finding('C13.SIGMA', f, 'the sigma points pushed through the observation model (`%s`) are not re-drawn from the predicted mean and the predicted '
                            'covariance compute_cov(ex, ex, w, Q): the measurement update then spreads the points with the prior covariance only and the process '
                            'noise Q never reaches the predicted observation, its covariance or the gain' % src(c_)[:60], node=c_, construct='observation points not re-drawn'))
    ks = {k for _, k in draws}
    res.inst({'function': f.fq, 'draws': len(draws), 'spread parameter of each draw': [k for _, k in draws], 'agree': len(ks) == 1}, 'k')
    if len(ks) != 1:
        res.add(Finding('C13.SIGMA', f, 'the sigma draws of one step use different spread parameters %s: the documented filter uses one k for the step'
                        % [k for _, k in draws], node=draws[-1][0], construct='k|' + '|'.join(k for _, k in draws)))
    return res


@guarded
def rule_time(repo, tier):
    """The filters document `t` as the time at which the model is evaluated.  One step hands the model the same time everywhere: the linearisation point
    (set_refpoint), the transition and the observation.  A collaborator call that omits `t` evaluates at the model's internal clock instead, so the
    Jacobians, the predicted mean and the predicted observation belong to different times for a time-varying system."""
    res = RuleResult('C13.TIME', 'EKF / UKF / PF: every call of the model inside one step (set_refpoint, state_transition, observation) receives the step\'s time '
                     'argument t', floor=8)
    for mod, q in ((EKF, 'EKF.forward'), (UKF, 'UKF.forward'), (PF, 'PF.forward')):
        f = _fn(repo, mod, q)
        if 't' not in f.params:
            raise AnalysisError('C13.TIME: %s has no parameter t' % q)
        once = {}
        for a_ in ast.walk(f.node):
            if isinstance(a_, ast.Assign) and len(a_.targets) == 1 and isinstance(a_.targets[0], ast.Name):
                once.setdefault(a_.targets[0].id, []).append(a_.value)

        def mentions_t(e, depth=0):
            # the step's time, possibly through local names bound once (helper parameters after inlining: `predict$t = t`)
            for x in ast.walk(e):
                if isinstance(x, ast.Name):
                    if x.id == 't':
                        return True
                    if depth < 4 and len(once.get(x.id, [])) == 1 and mentions_t(once[x.id][0], depth + 1):
                        return True
            return False
        for c in paths.calls_in(f.node):
            if not (isinstance(c.func, ast.Attribute) and c.func.attr in ('set_refpoint', 'state_transition', 'observation') and
                    (dotted(c.func.value) or '').endswith('model')):
                continue
            has_t = any(k.arg == 't' and mentions_t(k.value) for k in c.keywords) or (len(c.args) >= 3 and mentions_t(c.args[2]))
            res.inst({'function': f.fq, 'call': src(c)[:60], 'receives t': has_t}, (f.fq, src(c)[:70]))
            if not has_t:
                res.add(Finding('C13.TIME', f, '`%s` does not receive the time argument of the step: the model is evaluated / linearised at its internal clock there, at `t` '
                                'elsewhere - for a time-varying system the gain and the mean belong to different times' % src(c)[:60], node=c,
                                construct='model call without t|' + c.func.attr))
        # a docstring that promises "If None, current system time is used" obliges the function to resolve None to the model's clock before the model is called
        doc = ast.get_docstring(f.node) or ''
        import re as _re
        promised = bool(_re.search(r'\bt\b[^\n]*\n?[^\n]*\n?\s*If ``None``, current system time is used', doc))
        if promised:
            resolves = any(isinstance(n, (ast.IfExp, ast.If)) and any(isinstance(c, ast.Compare) and isinstance(c.left, ast.Name) and c.left.id == 't' and
                                                                    any(isinstance(x, ast.Constant) and x.value is None for x in c.comparators) for c in ast.walk(n.test))
                           and any((dotted(x) or '').endswith('systime') or (dotted(x) or '').endswith('._t') for x in ast.walk(n)) for n in ast.walk(f.node))
            res.inst({'function': f.fq, 'documented': 'If None, current system time is used', 'None resolved to the model clock': resolves}, (f.fq, 'none-time'))
            if not resolves:
                res.add(Finding('C13.TIME', f, '%s documents "t: If None, current system time is used" but hands the literal None to the model: a time-varying transition / '
                                'observation function receives t = None and fails (or silently uses a wrong time)' % q, construct='documented None time not resolved'))
    return res


def _rules_core(repo, tier):
    from ..fresh import rule_fresh
    from ..conf import rule_conf
    return [__import__('sa.rules.c15', fromlist=['x']).rule_adv(repo, 'C13.ADV'), rule_pure13(repo, tier), rule_sym(repo, tier), rule_innov(repo, tier), rule_gain(repo, tier), rule_xcov(repo, tier), rule_orient(repo, tier), rule_pf(repo, tier), rule_inverse(repo, tier), rule_sigma(repo, tier), rule_time(repo, tier),
            rule_conf(repo, 'C13.CONF', [(EKF, 'EKF'), (UKF, 'UKF'), (PF, 'PF')]),
            rule_fresh(repo, 'C13.FRESH', 'nothing a filter step writes in place is loaded from the filter object: work tensors are allocated per step',
                       [(EKF, 'EKF.forward'), (UKF, 'UKF.forward'), (UKF, 'UKF.sigma_weight_points'), (UKF, 'UKF.compute_cov'), (PF, 'PF.forward'),
                        (PF, 'PF.generate_particles'), (PF, 'PF.resample_particles')])]


def rules(repo, tier):
    from ..memo import rule_memo
    from ..optional import rule_optional
    from ..mode import mode_rules
    from ..callsig import rule_callsig
    from ..docsig import rule_docsig
    from ..axisdefault import rule_axisdefault
    return list(_rules_core(repo, tier)) + __import__('sa.core', fromlist=['x']).reid([__import__('sa.rules.c15', fromlist=['x']).rule_lin(repo), __import__('sa.rules.c15', fromlist=['x']).rule_pure(repo), __import__('sa.rules.c15', fromlist=['x']).rule_snap(repo)], 'C13') + [rule_memo(repo, 'C13.MEMO', 'history independence: nothing computed from the contents of a tensor argument is kept '
                                                      'under the identity, address or version of that tensor, in module-level storage, or published from a generator '
                                                      'before it is complete - a later call with the same object and other contents must not be answered from it',
                                                      ['pypose.module.ekf', 'pypose.module.ukf', 'pypose.module.pf', 'pypose.module.dynamics'], floor=3),
            rule_optional(repo, 'C13.OPT', ['pypose.module.ekf', 'pypose.module.ukf', 'pypose.module.pf', 'pypose.module.dynamics'])] + mode_rules(repo, 'C13', ['pypose.module.ekf', 'pypose.module.ukf', 'pypose.module.pf', 'pypose.module.dynamics']) + [rule_callsig(repo, 'C13.SIG', ['pypose.module.ekf', 'pypose.module.ukf', 'pypose.module.pf', 'pypose.module.dynamics']), rule_docsig(repo, 'C13.DOC', ['pypose.module.ekf', 'pypose.module.ukf', 'pypose.module.pf', 'pypose.module.dynamics'])] + [
            rule_axisdefault(repo, 'C13.AXDEF', ['pypose.module.ekf', 'pypose.module.ukf', 'pypose.module.pf'])]
