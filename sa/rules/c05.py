"""C05 - Adj / AdjT / Retr / + / Jinvp: structural clauses."""
from .lie_common import *   # noqa
from ..layout import extract_table


def _single_value(f):
    rv = returned_calls(f)
    return rv


@guarded
def rule_fwd(repo):
    res = RuleResult('C05.FWD', 'AdjTXa.forward is AdjXa(Inv(X), a) with both callees of the op\'s own family', floor=4)
    for G in GROUPS:
        f = repo.func(OP, G + '_AdjTXa.forward')
        rv = returned_calls(f)
        ok = False
        if len(rv) == 1:
            v = rv[0][1]
            pp = f.pos_params
            ok = isinstance(v, ast.Call) and dotted(v.func) == G + '_AdjXa.apply' and len(v.args) == 2 \
                and isinstance(v.args[0], ast.Call) and dotted(v.args[0].func) == G + '_Inv.apply' \
                and len(v.args[0].args) == 1 and dotted(v.args[0].args[0]) == pp[0] and dotted(v.args[1]) == pp[1]
        res.inst({'function': f.fq, 'ok': ok}, f.fq)
        if not ok:
            res.add(Finding('C05.FWD', f, '%s_AdjTXa.forward must be %s_AdjXa(%s_Inv(X), a)' % (G, G, G), construct='AdjT forward'))
    return res


def _left_retraction(v, aname, xname):
    """v == <something built from a>.Exp() (*|@) X  with X the plain parameter on the RIGHT"""
    if isinstance(v, ast.BinOp) and isinstance(v.op, (ast.Mult, ast.MatMult)):
        l, r = v.left, v.right
        l_exp = isinstance(l, ast.Call) and isinstance(l.func, ast.Attribute) and l.func.attr == 'Exp' and \
            any(isinstance(n, ast.Name) and n.id == aname for n in ast.walk(l.func.value))
        return l_exp and isinstance(r, ast.Name) and r.id == xname
    return False


@guarded
def rule_retr_add(repo):
    res = RuleResult('C05.RETR', 'Retr(X, a) and every group add_ compute Exp(a) multiplied onto X from the LEFT; add_ slices `other` to '
                     'the manifold dimension of the layout table, wraps it in the family\'s own algebra type and copies the product into '
                     'input; algebra add_ is plain addition of other[..., :manifold]', floor=6)
    table = extract_table(repo)
    f = repo.func(LT, 'LieType.Retr')
    pp = f.pos_params
    rv = returned_calls(f)
    ok = any(_left_retraction(v, pp[2], pp[1]) for r, v in rv)
    res.inst({'function': f.fq, 'left_product': ok}, f.fq)
    if not ok:
        res.add(Finding('C05.RETR', f, 'Retr must return a.Exp() * X (left multiplication); found %s' % [src(v)[:60] for r, v in rv],
                        construct='Retr'))
    for G in GROUPS:
        f = repo.func(LT, G + 'Type.add_')
        pp = f.pos_params     # cls, input, other
        rv = returned_calls(f)
        okc = okl = okn = okt = True
        n_found = t_found = None
        if not rv:
            okc = False
        for r, v in rv:                   # EVERY return path is the one atomic write input.copy_(Exp(other[..., :k]) * input)
            c_ok = l_ok = n_ok = t_ok = False
            if isinstance(v, ast.Call) and isinstance(v.func, ast.Attribute) and v.func.attr == 'copy_' and dotted(v.func.value) == pp[1] and v.args:
                c_ok = True
                prod = v.args[0]
                l_ok = _left_retraction(prod, pp[2], pp[1])
                for n in ast.walk(prod):
                    c = lietensor_ctor(n)
                    if c:
                        data, ltn = c
                        t_found = ltn
                        t_ok = ltn == ALG[G] + '_type'
                        if isinstance(data, ast.Subscript) and dotted(data.value) == pp[2] and isinstance(data.slice, ast.Tuple) \
                                and len(data.slice.elts) == 2 and isinstance(data.slice.elts[1], ast.Slice):
                            sl = data.slice.elts[1]
                            if sl.lower is None and isinstance(sl.upper, ast.Constant):
                                n_found = sl.upper.value
                                n_ok = n_found == table[G]['manifold']
            okc, okl, okn, okt = okc and c_ok, okl and l_ok, okn and n_ok, okt and t_ok
        res.inst({'function': f.fq, 'copy_into_input': okc, 'left_product': okl, 'slice': n_found, 'manifold': table[G]['manifold'],
                  'algebra_type': t_found}, f.fq)
        if not okc:
            res.add(Finding('C05.RETR', f, '%sType.add_ must copy the retraction into its input (input.copy_(...))' % G, construct='copy_'))
        elif not okl:
            res.add(Finding('C05.RETR', f, '%sType.add_ must left-multiply Exp(other) onto input' % G, construct='left product'))
        if okc and not okn:
            res.add(Finding('C05.ADD', f, '%sType.add_ uses other[..., :%s]; the manifold dimension of %s is %d'
                            % (G, n_found, G, table[G]['manifold']), construct='slice bound'))
        if okc and not okt:
            res.add(Finding('C05.ADD', f, '%sType.add_ wraps the increment as %s; the family\'s algebra type is %s_type'
                            % (G, t_found, ALG[G]), construct='algebra type'))
    f = repo.func(LT, 'LieType.add_')
    pp = f.pos_params
    ok = False
    for r, v in returned_calls(f):
        if isinstance(v, ast.Call) and isinstance(v.func, ast.Attribute) and v.func.attr == 'copy_' and dotted(v.func.value) == pp[1] and v.args:
            s = v.args[0]
            if isinstance(s, ast.BinOp) and isinstance(s.op, ast.Add):
                sides = [src(x).replace(' ', '') for x in (s.left, s.right)]
                ok = any(pp[1] in x and '[' not in x for x in sides) and any(pp[2] in x and '[...,:self.manifold[0]]' in x for x in sides)
    res.inst({'function': f.fq, 'plain_addition_of_manifold_slice': ok}, f.fq)
    if not ok:
        res.add(Finding('C05.ADD', f, 'algebra add_ must be input + other[..., :manifold]', construct='algebra add_'))
    return res


@guarded
def rule_jinv(repo):
    res = RuleResult('C05.JINV', 'Jinvp(X, p) is <fam>_Jl_inv(<Fam>_Log.apply(X)) @ p with family-consistent callees, typed so3/se3/...', floor=4)
    for G in GROUPS:
        f = type_method(repo, G, 'Jinvp')
        g = ALG[G]
        ok = False
        lt_ok = False
        for r, v in returned_calls(f):
            c = lietensor_ctor(v)
            if not c:
                continue
            data, ltn = c
            lt_ok = ltn == g + '_type'
            for n in ast.walk(data):
                if isinstance(n, ast.BinOp) and isinstance(n.op, ast.MatMult):
                    m = n.left
                    if isinstance(m, ast.Call) and dotted(m.func) == g + '_Jl_inv' and m.args and isinstance(m.args[0], ast.Call) \
                            and dotted(m.args[0].func) == G + '_Log.apply':
                        ok = True
        res.inst({'function': f.fq, 'formula': ok, 'ltype': lt_ok}, f.fq)
        if not ok:
            res.add(Finding('C05.JINV', f, '%sType.Jinvp must compute %s_Jl_inv(%s_Log.apply(X)) @ p' % (G, g, G), construct='Jinvp formula'))
        elif not lt_ok:
            res.add(Finding('C05.JINV', f, '%sType.Jinvp must return a %s LieTensor' % (G, g), construct='Jinvp ltype'))
    return res


@guarded
def rule_clone(repo):
    res = RuleResult('C05.CLONE', 'LieTensor.add works on a fresh copy of self that already has the BROADCAST batch shape of (self, other) - add_ writes '
                     'in place and cannot grow its destination, so X + a with a larger batch on the a side must expand X first; __add__ delegates to add', floor=2)
    f = repo.func(LT, 'LieTensor.add')
    rv = returned_calls(f)
    inl = inline_straight(f.node)
    ok = bc = False
    for r, v in rv:
        v = inline_straight(f.node, upto=r).value(r.value)
        if isinstance(v, ast.Call) and isinstance(v.func, ast.Attribute) and v.func.attr == 'add_':
            recv = v.func.value
            chain = []
            cur = recv
            while isinstance(cur, ast.Call) and isinstance(cur.func, ast.Attribute):
                chain.append(cur.func.attr)
                cur = cur.func.value
            root_self = dotted(cur) == 'self'
            ok = root_self and ('clone' in chain or 'contiguous' in chain and 'expand' in chain)
            # the copy is taken AFTER self was expanded / broadcast to the common batch shape
            bc = root_self and any(a in chain for a in ('expand', 'expand_as', 'broadcast_to', 'repeat', 'tile')) or \
                any(isinstance(x, ast.Call) and (dotted(x.func) or '').split('.')[-1] in ('broadcast_tensors', 'broadcast_to', 'broadcast_shapes') for x in ast.walk(v))
            # order inside the chain (outermost first): the COPY is the last thing before add_, taken of the already expanded tensor - an expanded view
            # has stride-0 (overlapping) memory and cannot be written in place
            exp_i = [i for i, a in enumerate(chain) if a in ('expand', 'expand_as', 'broadcast_to')]
            cp_i = [i for i, a in enumerate(chain) if a in ('clone', 'contiguous', 'repeat', 'tile')]
            writable = not exp_i or (cp_i and min(cp_i) < min(exp_i))
            res.inst({'function': f.fq, 'method chain before add_ (outermost first)': chain, 'copy taken after the expansion': bool(writable)}, (f.fq, 'order'))
            if ok and bc and not writable:
                res.add(Finding('C05.CLONE', f, 'LieTensor.add expands the copy (`%s`) instead of copying the expansion: the destination of add_ is a stride-0 view, and the '
                                'in-place write raises whenever self has to be broadcast to the batch of `other`' % src(recv)[:60], construct='add expands after clone'))
    res.inst({'function': f.fq, 'clones': ok, 'expanded to the broadcast batch before the in-place add': bc}, f.fq)
    if not ok:
        res.add(Finding('C05.CLONE', f, 'LieTensor.add must apply add_ to a copy of self', construct='add clone'))
    elif not bc:
        res.add(Finding('C05.CLONE', f, 'LieTensor.add applies add_ to `self.clone()` with the batch shape of self: when `other` has the larger batch (X of lshape '
                        '(2,1) plus a of shape (3,6), or an unbatched X plus a batch of increments) the in-place write cannot hold the result and the sum '
                        'raises, although it is documented as Exp(a) @ X, which broadcasts', construct='add broadcast'))
    f = repo.func(LT, 'LieTensor.__add__')
    rv = returned_calls(f)
    ok = any(isinstance(v, ast.Call) and dotted(v.func) == 'self.add' for r, v in rv)
    res.inst({'function': f.fq, 'delegates': ok}, f.fq)
    if not ok:
        res.add(Finding('C05.CLONE', f, '__add__ must delegate to self.add', construct='__add__'))
    # the augmented form: `X += a` is the operator spelling of add_.  Without an __iadd__ of its own the class inherits torch.Tensor.__iadd__, the
    # element-wise sum of the raw coordinates - a non-unit quaternion for an increment of the storage width, a size error for the algebra width
    ci = repo.cls(LT, 'LieTensor')
    has = 'add_' in ci.methods and '__add__' in ci.methods
    ia = ci.methods.get('__iadd__')
    okia = False
    if ia is not None:
        okia = any(isinstance(v, ast.Call) and dotted(v.func) == 'self.add_' for r, v in returned_calls(ia))
    res.inst({'class': ci.fq, '__iadd__ delegates to add_': okia}, (ci.fq, '__iadd__'))
    if has and not okia:
        res.add(Finding('C05.CLONE', ia if ia is not None else f, 'LieTensor overrides + (retraction) and add_ but %s: `X += a` is torch.Tensor.__iadd__, the element-wise '
                        'sum of the raw coordinates, not Exp(a) @ X' % ('its __iadd__ does not delegate to add_' if ia is not None else 'defines no __iadd__'),
                        construct='__iadd__'))
    return res


@guarded
def rule_dt(repo):
    res = RuleResult('C05.DT', 'Adj / AdjT apply the family\'s own AdjXa / AdjTXa and return the family\'s algebra ltype', floor=8)
    for G in GROUPS:
        for meth, op in (('Adj', 'AdjXa'), ('AdjT', 'AdjTXa')):
            f = type_method(repo, G, meth)
            ops, ltn = set(), None
            for r, v in returned_calls(f):
                c = lietensor_ctor(v)
                if c:
                    ltn = c[1]
                    ops |= {dotted(n.func) for n in ast.walk(c[0]) if isinstance(n, ast.Call) and (dotted(n.func) or '').endswith('.apply')}
            ok = ops == {'%s_%s.apply' % (G, op)} and ltn == ALG[G] + '_type'
            res.inst({'function': f.fq, 'ops': sorted(ops), 'ltype': ltn, 'ok': ok}, f.fq)
            if not ok:
                res.add(Finding('C05.DT', f, '%sType.%s must return LieTensor(%s_%s.apply(...), ltype=%s_type); found ops %s ltype %s'
                                % (G, meth, G, op, ALG[G], sorted(ops), ltn), construct=meth))
    return res


@guarded
def rule_jr(repo):
    res = RuleResult('C05.JR', 'so3 Jr: the closed form dividing by the rotation angle is selected only where the angle exceeds eps '
                     '(identity elsewhere); SO3 Jr is Jr of Log(X)', floor=3)
    out = [res]
    g0 = repo.func(LT, 'so3Type.Jr')
    for ret in returns_of(g0.node):
        v = inline_straight(g0.node, upto=ret).value(ret.value)
        guards = masks.guard_atoms([v])
        cds = masks.context_defects(v, guards)
        res.inst({'function': g0.fq, 'guards': len(guards), 'defects': len(cds)}, (g0.fq, ret.lineno))
        for kind, node, msg, root, ctx in cds:
            res.add(Finding('C05.JR', g0, msg, construct='%s %s' % (kind, msg[:100])))
    f = repo.func(LT, 'SO3Type.Jr')
    rets = returns_of(f.node)
    from ..expr import rv as _rv
    ok = len(rets) == 1 and src(_rv(f.node, rets[0])).replace(' ', '') == 'X.Log().Jr()'
    res.inst({'function': f.fq, 'delegates_to_Log_Jr': ok}, f.fq)
    if not ok:
        res.add(Finding('C05.JR', f, 'SO3Type.Jr must be the so3 Jr of Log(X)', construct='SO3 Jr'))
    # Jr(x) is the Jacobian AT x: the vector is not re-parametrised first.  Exp(Log(.)) / a reduction modulo 2 pi gives the same rotation, but the right Jacobian
    # of the wrapped vector is another matrix than the one at x for every |x| > pi
    px = g0.pos_params[1] if len(g0.pos_params) > 1 else g0.pos_params[0]
    for a in ast.walk(g0.node):
        if isinstance(a, ast.Assign) and any(isinstance(t, ast.Name) and t.id == px for t in a.targets):
            wraps = [c for c in ast.walk(a.value) if isinstance(c, ast.Call) and (dotted(c.func) or (c.func.attr if isinstance(c.func, ast.Attribute) else '')).split('.')[-1]
                     in ('Exp', 'Log', 'remainder', 'fmod', 'normalize', 'atan2')] + [b for b in ast.walk(a.value) if isinstance(b, ast.BinOp) and isinstance(b.op, ast.Mod)]
            res.inst({'function': g0.fq, 'argument rebound to': src(a.value)[:50], 're-parametrised': bool(wraps)}, (g0.fq, 'rebind', src(a.value)[:50]))
            if wraps:
                res.add(Finding('C05.JR', g0, 'so3 Jr rebinds its argument to `%s` before the closed form: the right Jacobian is taken at the wrapped (principal-branch) vector, '
                                'which equals Jr(x) only for |x| <= pi' % src(a.value)[:50], node=a, construct='Jr argument re-parametrised'))
    # the fallback branch of the where is the identity
    g = repo.func(LT, 'so3Type.Jr')
    rv = returned_calls(g)
    okw = False
    for r, v in rv:
        if isinstance(v, ast.Call) and dotted(v.func) == 'torch.where' and len(v.args) == 3:
            other = v.args[2]
            okw = any(isinstance(n, ast.Call) and dotted(n.func) == 'torch.eye' for n in ast.walk(other)) and \
                not any(isinstance(n, ast.BinOp) and isinstance(n.op, ast.Div) for n in ast.walk(other))
    res.inst({'function': g.fq, 'identity_fallback': okw}, g.fq + 'I')
    if not okw:
        res.add(Finding('C05.JR', g, 'so3 Jr no longer falls back to the identity matrix where the angle is below eps', construct='Jr fallback'))
    return out


@guarded
def rule_adj(repo):
    from .c04 import orthogonal_families, skew_families
    res = RuleResult('C05.ADJ', 'adjoint builders have the block structure their Lie group dictates: Adj orthogonal (SO3_Adj blocks on the '
                     'diagonal of an identity) and ad skew exactly for SO3 and RxSO3', floor=8)
    orth, skew = orthogonal_families(repo), skew_families(repo)
    for fam in GROUPS:
        want = fam in ('SO3', 'RxSO3')
        f = repo.func(OP, fam + '_Adj')
        res.inst({'function': f.fq, 'orthogonal_structure': orth[fam], 'expected': want}, f.fq)
        if orth[fam] != want:
            res.add(Finding('C05.ADJ', f, '%s_Adj %s the block structure of an orthogonal adjoint, Adj(%s) %s orthogonal' % (
                fam, 'has' if orth[fam] else 'no longer has', fam, 'is' if want else 'is not'), construct='%s_Adj structure' % fam))
        g = repo.func(OP, ALG[fam] + '_adj')
        res.inst({'function': g.fq, 'skew_structure': skew[fam], 'expected': want}, g.fq)
        if skew[fam] != want:
            res.add(Finding('C05.ADJ', g, '%s_adj %s the block structure of a skew-symmetric ad' % (ALG[fam], 'has' if skew[fam] else 'no longer has'),
                            construct='%s_adj structure' % ALG[fam]))
    return res


def _written_blocks(repo, fname):
    """block index patterns (row slice, col slice/int) written into the matrix built by a helper, following one level of
    helper calls whose result is stored into a block or which provide the base matrix"""
    f = repo.func(OP, fname)
    inl = inline_straight(f.node)
    blocks = set()
    for bk, idx, val, st in inl.stores:
        if isinstance(idx, ast.Tuple) and len(idx.elts) == 3:
            blocks.add((src(idx.elts[1]).replace(' ', ''), src(idx.elts[2]).replace(' ', '')))
    return blocks, inl


@guarded
def rule_blocks(repo):
    res = RuleResult('C05.BLOCKS', 'Sim3: the algebra adjoint ad(x) and the group adjoint Adj(X) = exp(ad) are written block by block and share '
                     'their block sparsity pattern (rotation-scale block, translation x rotation block, translation column, rotation block); every block of ad is filled from the tangent component ad(tau, phi, sigma) has there', floor=9)
    A, _ = _written_blocks(repo, 'Sim3_Adj')
    a, inl = _written_blocks(repo, 'sim3_adj')
    # blocks provided by a base matrix taken from a sibling helper count as written
    f = repo.func(OP, 'sim3_adj')
    for st, env in inl.log:
        if isinstance(st, ast.Assign):
            for c in paths.calls_in(st.value):
                if dotted(c.func) == 'se3_adj':
                    b2, _ = _written_blocks(repo, 'se3_adj')
                    a |= {(r, cc.replace('3:', '3:6') if cc == '3:' else cc) for r, cc in b2}
    res.inst({'function': 'Sim3_Adj', 'blocks': sorted(A)}, 'Adj')
    res.inst({'function': 'sim3_adj', 'blocks': sorted(a)}, 'adj')
    missing = sorted(A - a)
    extra = sorted(a - A)
    # which component of the tangent vector fills which block.  ad(xi) for xi = (tau, phi, sigma) in the layout of the type table is
    #   [[phi^ + sigma I, tau^, -tau], [0, phi^, 0], [0, 0, 0]]   (se3: the upper-left 6 x 6 without sigma)
    # the component positions come from the layout table extracted from the type classes, the slices from the inlined stores of the helper
    from ..layout import extract_table
    table = extract_table(repo)
    WANT = {'sim3_adj': {(0, 0): {'phi', 'sigma'}, (0, 3): {'tau'}, (0, 6): {'tau'}, (3, 3): {'phi'}},
            'se3_adj': {(0, 0): {'phi'}, (0, 3): {'tau'}, (3, 3): {'phi'}}}

    def lo(e):
        e = e.replace(' ', '')
        return int(e.split(':')[0] or 0) if ':' in e else int(e)
    for fname, want in WANT.items():
        g = repo.func(OP, fname)
        slots = table[fname[:-4]]['slots']
        dim = table[fname[:-4]]['dim']
        arg = g.pos_params[0]
        blocks = []
        inl_g = inline_straight(g.node)
        for bk, idx, val, st in inl_g.stores:
            if not (isinstance(idx, ast.Tuple) and len(idx.elts) == 3):
                continue
            try:
                blocks.append(((lo(src(idx.elts[1])), lo(src(idx.elts[2]))), val, st))
            except ValueError:
                continue
        if not blocks:
            # the other form the file uses (se3_Jl_inv): rows of 3 x 3 blocks concatenated along -1, the rows along -2
            rets = returns_of(g.node)
            rvv = inl_g.value(rets[0].value) if len(rets) == 1 and rets[0].value is not None else None

            def cat_parts(e, dim):
                if isinstance(e, ast.Call) and dotted(e.func) in ('torch.cat', 'torch.concat', 'torch.concatenate') and e.args and isinstance(e.args[0], (ast.Tuple, ast.List)):
                    d = next((k.value for k in e.keywords if k.arg == 'dim'), e.args[1] if len(e.args) > 1 else None)
                    d = d.operand.value * -1 if isinstance(d, ast.UnaryOp) and isinstance(d.op, ast.USub) and isinstance(d.operand, ast.Constant) else None
                    if d == dim:
                        return list(e.args[0].elts)
                return None
            rows = cat_parts(rvv, -2) if rvv is not None else None
            if rows is None or dim % 3:
                raise AnalysisError('C05.BLOCKS: %s neither writes its blocks into a buffer nor returns rows of 3 x 3 blocks concatenated along -1 / -2' % fname)
            for i, r in enumerate(rows):
                cols = cat_parts(r, -1)
                if cols is None:
                    raise AnalysisError('C05.BLOCKS: row %d of the matrix returned by %s is not a concatenation of blocks along -1' % (i, fname))
                for j, c in enumerate(cols):
                    blocks.append(((3 * i, 3 * j), c, rets[0]))
        for key, val, st in blocks:
            roles = set()
            # a zero block written as zeros_like(<another block>) takes only the extents of its argument
            shells = [c for c in ast.walk(val) if isinstance(c, ast.Call) and (dotted(c.func) or '').split('.')[-1] in ('zeros_like', 'zeros', 'new_zeros')]
            inert = {id(y) for c in shells for y in ast.walk(c)}
            for n in ast.walk(val):
                if id(n) in inert:
                    continue
                if isinstance(n, ast.Subscript) and isinstance(n.value, ast.Name) and n.value.id == arg and isinstance(n.slice, ast.Tuple) and len(n.slice.elts) == 2:
                    e = n.slice.elts[1]
                    if isinstance(e, ast.Slice):
                        a = e.lower.value if isinstance(e.lower, ast.Constant) else 0 if e.lower is None else None
                        b = e.upper.value if isinstance(e.upper, ast.Constant) else dim if e.upper is None else None
                    elif isinstance(e, ast.Constant) and isinstance(e.value, int):
                        a, b = e.value % dim, e.value % dim + 1
                    else:
                        a = b = None
                    if a is None or b is None:
                        roles.add('?')
                        continue
                    roles |= {r for r, x, y in slots if x < b and a < y}
            res.inst({'function': fname, 'block (row, col) origin': key, 'filled from components': sorted(roles), 'ad(tau, phi, sigma) has there': sorted(want.get(key, ()))},
                     (fname, key))
            if roles != want.get(key, set()):
                res.add(Finding('C05.BLOCKS', g, '%s fills block %s of ad from the %s component(s) of its argument (layout %s); ad(tau, phi, sigma) has %s there: the helper '
                                'reads its argument in another component order than Log / Exp / Adj of the type write it' % (
                                    fname, key, sorted(roles), [(r, x, y) for r, x, y in slots], sorted(want.get(key, ())) or 'zero'), node=st, construct='%s block %s components' % (fname, key)))
    if missing or extra:
        res.add(Finding('C05.BLOCKS', f, 'sim3_adj writes blocks %s while Sim3_Adj writes %s: missing %s, extra %s - ad and Adj of the same group must '
                        'have the same block pattern' % (sorted(a), sorted(A), missing, extra), construct='blocks missing %s extra %s' % (missing, extra)))
    return res


def rule_jlimit(repo):
    from ..limits import rule_limit
    return rule_limit(repo, 'C05.LIMIT', [(OP, 'so3_Jl'), (OP, 'so3_Jl_inv'), (OP, 'calcQ')], floor=6, decided_floor=6)


@guarded
def rule_wide(repo):
    """The tensor added to a LieTensor may be WIDER than the manifold dimension; the components beyond it are ignored (a `.grad`-width buffer, a padded vector).  The
    slicing happens in the add_ of the type.  Before that, LieTensor.add / add_ therefore read no VALUE of the full-width tensor: it is scaled by alpha, its shape is
    read, and it is handed on.  A test or a selection computed from all its components (isfinite, norm, any, where) lets the ignored slots decide."""
    res = RuleResult('C05.WIDE', 'LieTensor.add / add_ do not read the values of the full-width `other` (beyond scaling it by alpha and reading its shape) before the type\'s '
                     'add_ slices it to the manifold dimension: the ignored trailing components cannot influence the result', floor=2)
    for q in ('LieTensor.add', 'LieTensor.add_'):
        f = repo.func(LT, q)
        o = f.pos_params[1]
        names = {o}
        # names bound to alpha * other (still full width)
        for n in ast.walk(f.node):
            if isinstance(n, ast.Assign) and len(n.targets) == 1 and isinstance(n.targets[0], ast.Name) and isinstance(n.value, ast.BinOp) and isinstance(n.value.op, ast.Mult) and \
                    any(isinstance(x, ast.Name) and x.id in names for x in (n.value.left, n.value.right)):
                names.add(n.targets[0].id)
        bad = []
        parents = {}
        for n in ast.walk(f.node):
            for c in ast.iter_child_nodes(n):
                parents[c] = n
        for n in ast.walk(f.node):
            if isinstance(n, ast.Name) and n.id in names and isinstance(n.ctx, ast.Load):
                p = parents.get(n)
                ok = False
                if isinstance(p, ast.BinOp) and isinstance(p.op, ast.Mult):
                    ok = True                                               # alpha * other
                elif isinstance(p, ast.Attribute) and p.attr in ('shape', 'dtype', 'device', 'ndim'):
                    ok = True
                elif isinstance(p, ast.keyword) and p.arg == 'other':
                    ok = True                                               # handed on: .add_(other = other)
                elif isinstance(p, ast.Call) and n in p.args and isinstance(p.func, ast.Attribute) and p.func.attr in ('add_', 'add'):
                    ok = True
                if not ok:
                    bad.append((n, p))
        res.inst({'function': f.fq, 'full-width names': sorted(names), 'value reads before the slice': len(bad)}, f.fq)
        for n, p in bad:
            res.add(Finding('C05.WIDE', f, '`%s` reads the values of the full-width added tensor `%s` before the type\'s add_ slices it: components beyond the manifold '
                            'dimension, which the contract ignores, take part in the result' % (src(p)[:60], n.id), node=n, construct='full-width value read|' + src(p)[:40]))
    return res


@guarded
def rule_alpha(repo):
    """`alpha` scales the increment: X.add(a, alpha) = Exp(alpha a) @ X.  On EVERY path that returns a result the returned value depends on alpha; an early
    return taken before `other = alpha * other` (a fast path for equal batch shapes, say) honours the option on one path only."""
    from ..expr import Inliner
    res = RuleResult('C05.ALPHA', 'LieTensor.add / add_: on every returning path the returned value depends on the `alpha` option', floor=2)
    for q in ('LieTensor.add', 'LieTensor.add_'):
        f = repo.func(LT, q)
        if 'alpha' not in f.params:
            raise AnalysisError('C05.ALPHA: %s has no alpha parameter' % q)
        pths, _ = paths.function_paths(f.node, limit=256, strict=False)
        n_ret = 0
        for ev, ex in pths:
            if ex != 'return':
                continue
            inl = Inliner()
            ret = None
            for e in ev:
                if e[0] == 'stmt' and isinstance(e[1], ast.Return):
                    ret = inl.value(e[1].value) if e[1].value is not None else None
                    retnode = e[1]
                elif e[0] == 'stmt':
                    inl.feed(e[1])
            if ret is None:
                continue
            n_ret += 1
            dep = any(isinstance(x, ast.Name) and x.id == 'alpha' for x in ast.walk(ret))
            res.inst({'function': f.fq, 'returned': src(retnode)[:60], 'depends on alpha': dep}, (f.fq, src(retnode)[:70]))
            if not dep:
                res.add(Finding('C05.ALPHA', f, '%s returns `%s` on a path where `alpha` has not been applied: the option is honoured on the other path(s) only'
                                % (q, src(retnode)[:60]), node=retnode, construct='return without alpha'))
        if n_ret == 0:
            raise AnalysisError('C05.ALPHA: %s has no returning path' % q)
    return res


def _rules_core(repo, tier):
    return [rule_fwd(repo), rule_retr_add(repo), rule_jinv(repo), rule_clone(repo), rule_dt(repo), rule_adj(repo), rule_blocks(repo), rule_jlimit(repo), rule_alpha(repo), rule_wide(repo)] + list(rule_masks(repo, 'C05.MPW', 'C05.GDW', [(OP, 'rxso3_Ws')], floor=1)) + [ __import__('sa.limits', fromlist=['x']).rule_bernoulli(repo, 'C05.BERN', OP, [('sim3_Jl', 'sim3_Jl_inv', 'sim3_adj')])] + rule_jr(repo)


def rules(repo, tier):
    from ..memo import rule_memo
    from ..optional import rule_optional
    from ..mode import mode_rules
    from ..callsig import rule_callsig
    from ..docsig import rule_docsig
    from ..axisdefault import rule_axisdefault
    return list(_rules_core(repo, tier)) + __import__('sa.core', fromlist=['x']).reid([__import__('sa.rules.c06', fromlist=['x']).rule_bcast(repo, tier, 'C05')], 'C05') + [rule_memo(repo, 'C05.MEMO', 'history independence: nothing computed from the contents of a tensor argument is kept '
                                                      'under the identity, address or version of that tensor, in module-level storage, or published from a generator '
                                                      'before it is complete - a later call with the same object and other contents must not be answered from it',
                                                      ['pypose.lietensor.lietensor', 'pypose.lietensor.operation', 'pypose.lietensor.basics', 'pypose.lietensor.utils'], floor=3),
            rule_optional(repo, 'C05.OPT', ['pypose.lietensor.lietensor', 'pypose.lietensor.operation', 'pypose.lietensor.basics', 'pypose.lietensor.utils'])] + mode_rules(repo, 'C05', ['pypose.lietensor.lietensor', 'pypose.lietensor.operation', 'pypose.lietensor.basics', 'pypose.lietensor.utils']) + [rule_callsig(repo, 'C05.SIG', ['pypose.lietensor.lietensor', 'pypose.lietensor.operation', 'pypose.lietensor.basics', 'pypose.lietensor.utils']), rule_docsig(repo, 'C05.DOC', ['pypose.lietensor.lietensor', 'pypose.lietensor.operation', 'pypose.lietensor.basics', 'pypose.lietensor.utils'])] + [
            rule_axisdefault(repo, 'C05.AXDEF', ['pypose.lietensor.lietensor', 'pypose.lietensor.operation', 'pypose.lietensor.basics', 'pypose.lietensor.utils', 'pypose.lietensor.convert', 'pypose.basics.ops']), __import__('sa.axisdefault', fromlist=['x']).rule_frontaxis(repo, 'C05.BAX', ['pypose.lietensor.lietensor', 'pypose.lietensor.operation', 'pypose.lietensor.basics', 'pypose.lietensor.utils', 'pypose.lietensor.convert']), __import__('sa.axisdefault', fromlist=['x']).rule_regroup(repo, 'C05.REGROUP', ['pypose.lietensor.lietensor', 'pypose.lietensor.operation', 'pypose.lietensor.basics', 'pypose.lietensor.utils', 'pypose.lietensor.convert']), __import__('sa.axisdefault', fromlist=['x']).rule_zerocmp(repo, 'C05.ZEROCMP', ['pypose.lietensor.lietensor', 'pypose.lietensor.operation', 'pypose.lietensor.basics', 'pypose.lietensor.utils', 'pypose.lietensor.convert']), __import__('sa.axisdefault', fromlist=['x']).rule_batchbranch(repo, 'C05.BIF', ['pypose.lietensor.lietensor', 'pypose.lietensor.operation', 'pypose.lietensor.basics', 'pypose.basics.ops'])]
