"""C16 - IMU preintegration: carried-state completeness, rank normalisation, product direction, composition roles,
increment slicing, and reachability of the scan primitive's integer-kind rule."""
import ast, re
from ..core import RuleResult, Finding, AnalysisError, dotted, src, norm_construct, guarded, guarded_list
from ..expr import inline_straight, returns_of, dump, subst, rv
from .. import paths
from .c12 import ki_check

IMU = 'pypose.module.imu_preintegrator'
CLS = 'IMUPreintegrator'


def _self_attr_reads(node):
    return {n.attr for n in ast.walk(node) if isinstance(n, ast.Attribute) and dotted(n.value) == 'self' and isinstance(n.ctx, ast.Load)}


@guarded
def rule_carry(repo):
    res = RuleResult('C16.CARRY', 'every buffer read as initial state when init_state is None (pos, rot, vel, cov, Rij) is written back from '
                     'the last frame of this call\'s result on the not-reset path', floor=5)
    f = repo.func(IMU, CLS + '.forward')
    init = repo.func(IMU, CLS + '.__init__')
    buffers = set()
    for c in paths.calls_in(init.node):
        if dotted(c.func) == 'self.register_buffer' and c.args and isinstance(c.args[0], ast.Constant):
            buffers.add(c.args[0].value)
    for n in ast.walk(init.node):
        if isinstance(n, ast.Attribute) and dotted(n.value) == 'self' and isinstance(n.ctx, ast.Store):
            buffers.add(n.attr)
    # state carried between calls = buffers that forward both reads (as an initial value) and that describe the trajectory state
    consts = {'gravity', 'gyro_cov', 'acc_cov', 'reset', 'prop_cov'}
    reads = (_self_attr_reads(f.node) & buffers) - consts
    # the not-reset branch
    branch = None
    for n in ast.walk(f.node):
        if isinstance(n, ast.If) and isinstance(n.test, ast.UnaryOp) and isinstance(n.test.op, ast.Not) and dotted(n.test.operand) == 'self.reset':
            branch = n.body
        if isinstance(n, ast.If) and dotted(n.test) == 'self.reset':
            branch = n.orelse
    if branch is None:
        raise AnalysisError('C16.CARRY: the not-reset branch of forward was not found')
    written = {}
    for st in branch:
        for n in ast.walk(st):
            if isinstance(n, ast.Assign):
                for t in n.targets:
                    if isinstance(t, ast.Attribute) and dotted(t.value) == 'self':
                        written[t.attr] = n.value
    # the branch must be reached on every non-raising path where self.reset is false: it is a top-level statement of forward
    top = any(isinstance(st, ast.If) and (st.body is branch or st.orelse is branch) for st in f.node.body)
    for b in sorted(reads):
        ok = b in written
        last = None
        if ok:
            v = written[b]
            # last frame: [..., -1:, :] slice, or a value that is already the end-of-call quantity (cov)
            last = any(isinstance(n, ast.Subscript) and '-1:' in src(n.slice).replace(' ', '') for n in ast.walk(v)) or b == 'cov'
        from_result = None
        if ok:
            from_result, why_not = _from_this_calls_result(f, written[b], b)
        res.inst({'function': f.fq, 'buffer': b, 'written_back': ok, 'from_last_frame': last, 'from_this_calls_result': from_result}, b)
        if ok and not from_result:
            res.add(Finding('C16.CARRY', f, 'buffer self.%s is written back from `%s`: %s - the next chunk does not continue from where the trajectory '
                            'returned by this call ended' % (b, src(written[b])[:60], why_not), construct='carry-result ' + b))
        if not ok:
            res.add(Finding('C16.CARRY', f, 'buffer self.%s is read as initial state but not written back when reset is False: a stream split '
                            'into chunks continues from a stale %s' % (b, b), construct='carry ' + b))
        elif not last:
            res.add(Finding('C16.CARRY', f, 'buffer self.%s is written back from `%s`, not from the last frame of this call' % (b, src(written[b])[:50]),
                            construct='carry-last ' + b))
    if not top:
        res.add(Finding('C16.CARRY', f, 'the write-back branch is nested under another condition', construct='carry nested'))
    return res


def _alternatives(e):
    if isinstance(e, ast.IfExp):
        return _alternatives(e.body) + _alternatives(e.orelse)
    if isinstance(e, ast.BoolOp) and isinstance(e.op, ast.Or):
        out = []
        for v in e.values:
            out += _alternatives(v)
        return out
    return [e]


def _from_this_calls_result(f, value, buf):
    """every alternative of the written-back value is (a last-frame slice of) the entry `buf` of a dict this call returns, or - for a quantity
    that is not returned - is computed from the result of this call's integration"""
    returned = set()
    for r in ast.walk(f.node):
        if isinstance(r, ast.Return) and isinstance(r.value, ast.Dict):
            for k, v in zip(r.value.keys, r.value.values):
                if k is None and isinstance(v, ast.Name):
                    returned.add(v.id)
    # names computed from the integration of this call
    tainted = set()
    assigns = [n for n in ast.walk(f.node) if isinstance(n, ast.Assign)]
    for n in assigns:
        if any(isinstance(c, ast.Call) and isinstance(c.func, ast.Attribute) and c.func.attr == 'integrate' for c in ast.walk(n.value)):
            tainted |= {t.id for t in n.targets if isinstance(t, ast.Name)}
    changed = True
    while changed:
        changed = False
        for n in assigns:
            if {x.id for x in ast.walk(n.value) if isinstance(x, ast.Name)} & tainted:
                for t in n.targets:
                    if isinstance(t, ast.Name) and t.id not in tainted:
                        tainted.add(t.id)
                        changed = True
    for alt in _alternatives(value):
        e = alt
        key = None
        while isinstance(e, ast.Subscript):
            if isinstance(e.slice, ast.Constant) and isinstance(e.slice.value, str):
                key = e.slice.value
            e = e.value
        if isinstance(e, ast.Call) and isinstance(e.func, ast.Attribute) and e.func.attr in ('detach', 'clone', 'contiguous'):
            e = e.func.value
            while isinstance(e, ast.Subscript):
                if isinstance(e.slice, ast.Constant) and isinstance(e.slice.value, str):
                    key = e.slice.value
                e = e.value
        if not isinstance(e, ast.Name):
            return False, 'the alternative `%s` is not taken from a result of this call' % src(alt)[:40]
        if e.id in returned:
            if key is not None and key != buf:
                return False, 'it stores the entry %r of the returned dict under the buffer %r' % (key, buf)
            continue
        if e.id in tainted:
            continue
        return False, 'the alternative `%s` does not come from the trajectory this call computed and returned' % src(alt)[:40]
    return True, None


@guarded
def rule_rank(repo):
    res = RuleResult('C16.RANK', 'dt, gyro, acc and rot are rebound through _check (rank normalisation to (B, F, H)) before any use other '
                     'than the shape assertion', floor=4)
    f = repo.func(IMU, CLS + '.forward')
    names = ['dt', 'gyro', 'acc', 'rot']
    checked = set()
    for st in f.node.body:
        if isinstance(st, ast.Expr) and isinstance(st.value, ast.Constant):
            continue
        if __import__('sa.core', fromlist=['x']).as_assert(st) is not None:
            continue
        if isinstance(st, ast.Assign) and isinstance(st.value, ast.Call) and dotted(st.value.func) == 'self._check' and \
                len(st.targets) == 1 and isinstance(st.targets[0], ast.Name) and st.value.args and dotted(st.value.args[0]) == st.targets[0].id:
            checked.add(st.targets[0].id)
            continue
        used = {n.id for n in ast.walk(st) if isinstance(n, ast.Name) and isinstance(n.ctx, ast.Load)} & set(names)
        for u in sorted(used - checked):
            res.add(Finding('C16.RANK', f, '`%s` is used in `%s` before it has passed through self._check' % (u, src(st)[:60]), node=st,
                            construct='rank ' + u))
            checked.add(u)      # report once
    for n in names:
        res.inst({'function': f.fq, 'input': n, 'normalised_first': n in checked}, n)
    return res


def _frame_normaliser(repo, f, e):
    """if e wraps an operand in a frame-axis insertion (x.unsqueeze(-2), x[..., None, :], or a helper of the class / module that does one of
    these to its argument) return the wrapped operand, else None"""
    if isinstance(e, ast.Call) and isinstance(e.func, ast.Attribute) and e.func.attr == 'unsqueeze' and len(e.args) == 1 and src(e.args[0]).replace(' ', '') == '-2':
        return e.func.value
    if isinstance(e, ast.Subscript) and isinstance(e.slice, ast.Tuple) and len(e.slice.elts) == 3 and isinstance(e.slice.elts[0], ast.Constant) and \
            e.slice.elts[0].value is Ellipsis and isinstance(e.slice.elts[1], ast.Constant) and e.slice.elts[1].value is None and isinstance(e.slice.elts[2], ast.Slice):
        return e.value
    if isinstance(e, ast.Call) and len(e.args) == 1 and not e.keywords:
        tg, how = repo.resolve_call(f, e)
        for g in tg or []:
            if g.module.name != IMU:
                continue
            ps = [p_ for p_ in g.pos_params if p_ not in ('self', 'cls')]
            if len(ps) != 1:
                continue
            hit = False
            for n in ast.walk(g.node):
                inner = _frame_normaliser(repo, g, n) if isinstance(n, (ast.Call, ast.Subscript)) and not (isinstance(n, ast.Call) and len(n.args) == 1 and not isinstance(n.func, ast.Attribute)) else None
                if inner is not None and isinstance(inner, ast.Name) and inner.id == ps[0]:
                    hit = True
            if hit:
                return e.args[0]
    return None


def _strip_frames(repo, f, e):
    class T(ast.NodeTransformer):
        def generic_visit(self, n):
            n = super().generic_visit(n)
            if isinstance(n, (ast.Call, ast.Subscript)):
                inner = _frame_normaliser(repo, f, n)
                if inner is not None:
                    return inner
            return n
    import copy
    return T().visit(copy.deepcopy(e))


@guarded
def rule_stateax(repo):
    """predict() and integrate() document their initial state as ONE state per batch item, shape (B, H_in), and combine it with increments of shape
    (B, F, H_out).  Right-aligned broadcasting would match the batch axis of the state with the FRAME axis of the increments (an error for B != F, item
    b applied to frame b when the two agree): the state needs a frame axis inserted (B, 1, H) before it meets an increment."""
    res = RuleResult('C16.STATEAX', 'every initial-state operand of predict() (init_state[pos|rot|vel]) and the init_rot of integrate(), documented with the '
                     'per-item shape (B, H_in), passes through a frame-axis insertion (unsqueeze(-2) / [..., None, :] / a helper doing it) before it is '
                     'combined with a (B, F, H) increment', floor=2)
    for q, is_state, is_incr in ((CLS + '.predict', lambda x: isinstance(x, ast.Subscript) and dotted(x.value) == 'init_state',
                                  lambda x: isinstance(x, ast.Subscript) and dotted(x.value) == 'integrate'),
                                 (CLS + '.integrate', lambda x: isinstance(x, ast.Name) and x.id == 'init_rot',
                                  lambda x: isinstance(x, ast.Name) and x.id in ('incre_r', 'incre_v', 'incre_p', 'incre_t'))):
        f = repo.func(IMU, q)
        doc = ast.get_docstring(f.node) or ''
        per_item = bool(re.search(r'init_(state|rot)[^\n]*(\n[^\n-]*){0,4}\(B, H_\{in\}\)', doc))
        parents = {}
        for n in ast.walk(f.node):
            for c in ast.iter_child_nodes(n):
                parents[id(c)] = n
        # names that hold a bare state operand (a, b = init_state['a'], init_state['b'] / x = init_rot): their arithmetic uses count as well
        holders = set()
        for n in ast.walk(f.node):
            if isinstance(n, ast.Assign) and len(n.targets) == 1 and isinstance(n.targets[0], ast.Name) and is_state(n.value):
                holders.add(n.targets[0].id)
        for n in ast.walk(f.node):
            if not (is_state(n) or (isinstance(n, ast.Name) and n.id in holders and isinstance(n.ctx, ast.Load))):
                continue
            if isinstance(getattr(n, 'ctx', None), ast.Store):
                continue
            par = parents.get(id(n))
            # position of this use
            if isinstance(par, (ast.BinOp,)) and isinstance(par.op, (ast.Mult, ast.Add, ast.Sub, ast.MatMult, ast.Div)):
                other = par.right if par.left is n else par.left
                res.inst({'function': f.fq, 'state operand': src(n)[:40], 'used in': src(par)[:50], 'documented per item (B, H_in)': per_item, 'frame axis inserted': False},
                         (f.fq, src(n), src(par)[:60]))
                if per_item:
                    res.add(Finding('C16.STATEAX', f, '`%s` (documented shape (B, H_in): one state per batch item) is combined with `%s` as it is: against a (B, F, H) '
                                    'increment broadcasting aligns its batch axis with the frame axis - a size error for B != F (B > 1), and for B == F item b of '
                                    'the state silently meets frame b of every item' % (src(n)[:40], src(other)[:40]), node=par,
                                    construct='state without frame axis|' + src(n)[:40]))
            elif isinstance(par, (ast.Call, ast.Subscript)) and _frame_normaliser(repo, f, par) is n:
                res.inst({'function': f.fq, 'state operand': src(n)[:40], 'used in': src(par)[:50], 'documented per item (B, H_in)': per_item, 'frame axis inserted': True},
                         (f.fq, src(n), src(par)[:60]))
    return res


@guarded
def rule_dir_comp(repo):
    res = RuleResult('C16.DIR', 'rotation increments are accumulated as a right product (cumprod(..., left=False)) of [identity, Exp(w dt)...]; '
                     'predict composes R0 * dR, v0 + R0 * dv, p0 + R0 * dp + v0 * dt; every returned increment is the [1:] slice of its '
                     'cumulative array', floor=9)
    f = repo.func(IMU, CLS + '.integrate')
    inl = inline_straight(f.node)
    cp = [c for c in paths.calls_in(f.node) if dotted(c.func) == 'cumprod']
    # the accumulated rotation is a PRODUCT of exponentials: Exp of an accumulated sum of rotation vectors (so3(cumsum(w dt)).Exp()) is that product only when all
    # increments share one axis
    for c in ast.walk(f.node):
        if isinstance(c, ast.Call) and isinstance(c.func, ast.Attribute) and c.func.attr == 'Exp':
            recv = inl.value(c.func.value) if hasattr(inl, 'value') else c.func.value
            sums = [x for x in ast.walk(recv) if isinstance(x, ast.Call) and (dotted(x.func) or (x.func.attr if isinstance(x.func, ast.Attribute) else '')).split('.')[-1] in ('cumsum', 'sum')]
            if sums:
                res.add(Finding('C16.DIR', f, '`%s` exponentiates an accumulated SUM of rotation vectors (`%s`): the product Exp(w_1 dt) .. Exp(w_k dt) of the recursion equals the '
                                'exponential of the sum only for increments about one common axis' % (src(c)[:60], src(sums[0])[:40]), node=c, construct='Exp of a sum'))
    if res.findings:
        return res
    if not cp:
        raise AnalysisError('C16.DIR: integrate no longer calls cumprod')
    for c in cp:
        kw = {k.arg: k.value for k in c.keywords}
        left = kw.get('left', c.args[2] if len(c.args) > 2 else None)
        ok = isinstance(left, ast.Constant) and left.value is False
        res.inst({'function': f.fq, 'site': src(c)[:50], 'right_product': ok}, src(c))
        if not ok:
            res.add(Finding('C16.DIR', f, 'rotation increments are accumulated with left=%s; the documented recursion dR <- dR Exp(w dt) is a '
                            'right product (left=False)' % (src(left) if left is not None else 'default True'), node=c))
    # returned dictionary of integrate: each increment is a [.., 1:, :] slice
    rets = returns_of(f.node)
    v0 = _dict_literal(f.node, rets[0]) if len(rets) == 1 else None
    if v0 is None:
        raise AnalysisError('C16.DIR: integrate no longer returns a dict literal')
    d = {k.value: v for k, v in zip(v0.keys, v0.values) if isinstance(k, ast.Constant)}
    for key in ('Dp', 'Dv', 'Dr', 'Dt', 'w'):
        v = d.get(key)
        ok = False
        if isinstance(v, ast.Subscript) and isinstance(v.slice, ast.Tuple) and len(v.slice.elts) == 3:
            mid = v.slice.elts[1]
            ok = isinstance(mid, ast.Slice) and isinstance(mid.lower, ast.Constant) and mid.lower.value == 1 and mid.upper is None and mid.step is None
        res.inst({'function': f.fq, 'increment': key, 'slice_1_to_end': ok}, key)
        if not ok:
            res.add(Finding('C16.SLICE', f, 'returned increment %s is `%s`; every increment is the [1:] slice of its cumulative array (whose '
                            'entry 0 is the initial zero / identity)' % (key, src(v)[:40] if v is not None else None), construct='slice ' + key))
    # predict composition roles
    p = repo.func(IMU, CLS + '.predict')
    rets = returns_of(p.node)
    v0 = _dict_literal(p.node, rets[0]) if len(rets) == 1 else None
    if v0 is None:
        raise AnalysisError('C16.COMP: predict no longer returns a dict literal')
    pin = inline_straight(p.node, upto=rets[0])
    d = {k.value: src(_strip_frames(repo, p, pin.value(v))).replace(' ', '').replace('"', "'") for k, v in zip(v0.keys, v0.values)
         if isinstance(k, ast.Constant)}
    want = {'rot': ["init_state['rot']*integrate['Dr']", "init_state['rot']@integrate['Dr']"],
            'vel': ["init_state['vel']+init_state['rot']*integrate['Dv']", "init_state['vel']+init_state['rot']@integrate['Dv']"],
            'pos': ["init_state['pos']+init_state['rot']*integrate['Dp']+init_state['vel']*integrate['Dt']",
                    "init_state['pos']+init_state['rot']@integrate['Dp']+init_state['vel']*integrate['Dt']"]}
    for key, forms in want.items():
        got = d.get(key)
        ok = got is not None and (got in forms or _same_sum(got, forms[0]))
        res.inst({'function': p.fq, 'output': key, 'ok': ok}, 'comp' + key)
        if not ok:
            res.add(Finding('C16.COMP', p, 'predict[%s] is `%s`; the documented composition is `%s` (initial rotation on the left)' % (key, got, forms[0]),
                            construct='comp ' + key))
    return res


def _dict_literal(fnode, ret):
    """the dict literal returned (as written), following one level of `name = {...}; return name`"""
    v = ret.value
    if isinstance(v, ast.Name):
        name = v.id
        for n in ast.walk(fnode):
            if isinstance(n, ast.Assign) and any(isinstance(t, ast.Name) and t.id == name for t in n.targets):
                v = n.value
    return v if isinstance(v, ast.Dict) else None


def _same_sum(a, b):
    """same set of additive terms (order of + does not matter, order inside a product does)"""
    return sorted(a.replace('@', '*').split('+')) == sorted(b.replace('@', '*').split('+'))


@guarded
def rule_cov(repo):
    from ..expr import triple_products, is_transpose_of
    res = RuleResult('C16.COV', 'the propagated covariance is a sum of congruences X S X^T (the two outer factors of every triple matrix product in it '
                     'are transposes of one another): symmetry and positive semi-definiteness of the noise terms carry over to the result', floor=3)
    f = repo.func(IMU, CLS + '.propagate_cov')
    rets = returns_of(f.node)
    d = _dict_literal(f.node, rets[0]) if len(rets) == 1 else None
    if d is None:
        raise AnalysisError('C16.COV: propagate_cov no longer returns a dict literal')
    cov = None
    for k, v in zip(d.keys, d.values):
        if isinstance(k, ast.Constant) and k.value == 'cov':
            cov = inline_straight(f.node, upto=rets[0]).value(v)
    if cov is None:
        raise AnalysisError('C16.COV: no cov entry returned')
    trips = triple_products(cov)
    for L_, M_, R_, node in trips:
        ok = is_transpose_of(L_, R_)
        res.inst({'function': f.fq, 'product': '%s @ . @ %s' % (src(L_)[:30], src(R_)[:30]), 'congruence': ok}, dump(node)[:200])
        if not ok:
            res.add(Finding('C16.COV', f, 'the covariance contains the product `%s @ ... @ %s` whose outer factors are not transposes of one another: '
                            'the result is in general neither symmetric nor positive semi-definite' % (src(L_)[:40], src(R_)[:40]),
                            construct='non-congruence ' + src(L_)[:40] + ' | ' + src(R_)[:40]))
    if len(trips) < 3:
        raise AnalysisError('C16.COV: only %d triple products found in the covariance expression' % len(trips))
    return res


@guarded
def rule_init(repo):
    res = RuleResult('C16.INIT', 'forward hands integrate() the rotation of the very initial state that predict() composes with (init_state[rot]), '
                     'so gravity is removed in the frame the result is expressed in', floor=1)
    f = repo.func(IMU, CLS + '.forward')
    calls = [c for c in paths.calls_in(f.node) if dotted(c.func) == 'self.integrate']
    pcalls = [c for c in paths.calls_in(f.node) if dotted(c.func) == 'self.predict']
    if not calls or not pcalls:
        raise AnalysisError('C16.INIT: integrate / predict calls not found in forward')
    pinit = pcalls[0].args[0] if pcalls[0].args else None
    for c in calls:
        kw = {k.arg: k.value for k in c.keywords}
        ir = kw.get('init_rot')
        ok = ir is not None and pinit is not None and isinstance(ir, ast.Subscript) and dotted(ir.value) == dotted(pinit) and \
            isinstance(ir.slice, ast.Constant) and ir.slice.value == 'rot'
        res.inst({'function': f.fq, 'init_rot': src(ir) if ir is not None else None, 'predict_init': src(pinit) if pinit is not None else None, 'ok': ok},
                 norm_construct(c, f.node))
        if not ok:
            res.add(Finding('C16.INIT', f, 'integrate() receives init_rot=`%s` while predict() composes with `%s`: with an explicit init_state the gravity '
                            'is removed in the frame of the module buffers, not of the supplied state' % (src(ir) if ir is not None else None,
                                                                                                  src(pinit) if pinit is not None else None), node=c))
    return res


@guarded
def rule_dep(repo):
    res = RuleResult('C16.DEP', 'every scan primitive reachable from integrate / propagate_cov satisfies the integer-kind rule of C12 '
                     '(call path reported)', floor=2)
    seen = {}
    frontier = [(repo.func(IMU, CLS + '.integrate'), ()), (repo.func(IMU, CLS + '.propagate_cov'), ())]
    depth = 0
    while frontier and depth < 5:
        nxt = []
        for f, chain in frontier:
            for c in paths.calls_in(f.node):
                cands, how = repo.resolve_call(f, c, by_name=False)
                for g in cands:
                    if g.module.name.startswith('pypose.basics') and g.fq not in seen:
                        seen[g.fq] = chain + (f.fq, g.fq)
                        nxt.append((g, chain + (f.fq,)))
        frontier = nxt
        depth += 1
    if not any(k.endswith(':cumops_') for k in seen):
        raise AnalysisError('C16.DEP: the scan primitive cumops_ is no longer reachable from integrate/propagate_cov')
    for fq, chain in seen.items():
        mod, q = fq.split(':')
        g = repo.func(mod, q)
        sub = RuleResult('C16.DEP', '', 0)
        ki_check(g, sub, 'C16.DEP')
        res.inst({'function': fq, 'path': ' -> '.join(chain), 'integer_range_sites': len(sub.instances)}, fq)
        for fd in sub.findings:
            fd.what = fd.what + ' [reached via ' + ' -> '.join(chain) + ']'
            res.add(fd)
    return res


@guarded
def rule_covord(repo):
    """C_F = sum_k Phi_k B_k Phi_k^T with Phi_k = A_{F-1} ... A_{k+1} A_k: LATER transitions multiply from the left (the recursion C <- A C A^T + B).
    propagate_cov obtains all suffix products at once by scanning the time-REVERSED sequence (I, A_{F-1}, A_{F-2}, ...); on a reversed sequence
    "later on the left" is the RIGHT fold x_1 o x_2 o ... o x_i, i.e. cumprod(..., left=False).  The default left=True yields A_k ... A_{F-1}.
    Non-commuting 9x9 blocks make the difference first order in dt."""
    res = RuleResult('C16.COVORD', 'propagate_cov: the suffix products of the transition matrices put later transitions on the left (time-reversed sequence '
                     'scanned with left=False, or the forward sequence with left=True)', floor=1)
    f = repo.func(IMU, CLS + '.propagate_cov')
    n = 0
    for c in paths.calls_in(f.node):
        if (dotted(c.func) or '').split('.')[-1] in ('cumprod', 'cumprod_') and c.args:
            n += 1
            flipped = any(isinstance(x, ast.Call) and isinstance(x.func, ast.Attribute) and x.func.attr == 'flip' for x in ast.walk(c.args[0]))
            leftkw = next((k.value for k in c.keywords if k.arg == 'left'), c.args[2] if len(c.args) > 2 else None)
            left = True if leftkw is None else (leftkw.value if isinstance(leftkw, ast.Constant) else None)
            ok = left is not None and (flipped != left)
            res.inst({'function': f.fq, 'scan': src(c)[:60], 'sequence time-reversed': flipped, 'left': left, 'later transitions on the left': ok}, src(c))
            if left is None:
                res.unresolved += 1
            elif not ok:
                res.add(Finding('C16.COVORD', f, '`%s` scans the %s sequence of transition matrices with left=%s: the products come out as A_k ... A_{F-1} (earlier '
                                'transitions on the left) instead of A_{F-1} ... A_k, so for two or more frames per call the covariance is not the documented '
                                'recursion and differs from frame-by-frame propagation' % (src(c)[:60], 'time-reversed' if flipped else 'forward', left), node=c))
    if n == 0:
        raise AnalysisError('C16.COVORD: propagate_cov no longer scans the transition matrices with cumprod')
    return res


@guarded
def rule_grav(repo):
    """Gravity is removed from the measured acceleration the same way whether the rotation is supplied or integrated: a = acc - R^-1 g with R the
    supplied resp. integrated rotation.  The two branches of integrate() are siblings: same sign of the gravity term, same side of the inverse,
    same gravity vector; a change of convention in the buffer (downward vs. upward vector) has to reach both."""
    res = RuleResult('C16.GRAV', 'integrate(): both branches (supplied / integrated rotation) remove gravity by the same expression acc - R.Inv() @ self.gravity', floor=3)
    f = repo.func(IMU, CLS + '.integrate')
    forms = []
    for n in ast.walk(f.node):
        if isinstance(n, ast.Assign) and len(n.targets) == 1 and isinstance(n.targets[0], ast.Name) and \
                any(isinstance(x, ast.Attribute) and x.attr == 'gravity' for x in ast.walk(n.value)):
            v = n.value
            sign = '+' if isinstance(v, ast.BinOp) and isinstance(v.op, ast.Add) else '-' if isinstance(v, ast.BinOp) and isinstance(v.op, ast.Sub) else '?'
            term = v.right if isinstance(v, ast.BinOp) else v
            inv = any(isinstance(x, ast.Call) and isinstance(x.func, ast.Attribute) and x.func.attr == 'Inv' for x in ast.walk(term))
            left = dotted(v.left) if isinstance(v, ast.BinOp) else None
            neg = any(isinstance(x, ast.UnaryOp) and isinstance(x.op, ast.USub) for x in ast.walk(term))
            forms.append((n, (n.targets[0].id, left, sign, inv, neg)))
    if len(forms) < 2:
        raise AnalysisError('C16.GRAV: found %d gravity-removal assignments in integrate(), expected the two branches' % len(forms))
    shapes = {fm for _, fm in forms}
    for n, fm in forms:
        res.inst({'function': f.fq, 'gravity removal': src(n)[:70], 'form (target, minuend, sign, inverse rotation, negated)': fm, 'agrees with sibling': len(shapes) == 1}, src(n))
    if len(shapes) != 1:
        res.add(Finding('C16.GRAV', f, 'the two branches of integrate() remove gravity differently (%s): with a supplied rotation gravity is %s, with the '
                        'integrated rotation it is %s' % (sorted(shapes), 'added' if forms[0][1][2] == '+' else 'subtracted', 'added' if forms[1][1][2] == '+' else 'subtracted'),
                        node=forms[0][0], construct='gravity siblings'))
    elif forms[0][1][2:] != ('-', True, False):
        res.add(Finding('C16.GRAV', f, 'gravity is not removed as acc - R.Inv() @ self.gravity (%s)' % (forms[0][1],), node=forms[0][0], construct='gravity form'))
    # time index of the integrated rotation: the table R_i dR has F+1 entries (the identity is prepended to the increments); the F accelerations
    # are paired with entries 1..F (the attitude after the k-th gyro increment), the pairing every released result of the integrator was computed
    # with.  Entries 0..F-1 give a different velocity / position whenever gravity and angular rate are both non-zero.
    once = {}
    for a in ast.walk(f.node):
        if isinstance(a, ast.Assign) and len(a.targets) == 1 and isinstance(a.targets[0], ast.Name):
            once.setdefault(a.targets[0].id, []).append(a.value)
    for n, fm in forms:
        cands = list(ast.walk(n.value))
        for y in list(cands):
            # `Rk = inte_rot[:, 1:, :]` ... `Rk.Inv() @ g`: a rotation named first
            if isinstance(y, ast.Name) and len(once.get(y.id, [])) == 1 and isinstance(once[y.id][0], ast.Subscript):
                cands.append(once[y.id][0])
        for x in cands:
            if isinstance(x, ast.Subscript) and isinstance(x.value, ast.Name) and x.value.id != 'acc' and isinstance(x.slice, ast.Tuple) and len(x.slice.elts) >= 2:
                fr = x.slice.elts[1]
                ok = isinstance(fr, ast.Slice) and isinstance(fr.lower, ast.Constant) and fr.lower.value == 1 and fr.upper is None and fr.step is None
                res.inst({'function': f.fq, 'integrated rotation table': x.value.id, 'frame selection': ast.unparse(fr), 'entries 1..F': ok}, src(n))
                if not ok:
                    res.add(Finding('C16.GRAV', f, 'the integrated rotation used to remove gravity is taken at frames [%s] of the F+1-entry table %s, not at 1: '
                                    '(attitude after the k-th increment): velocity and position differ from the recursion whenever gravity and angular rate are '
                                    'both non-zero' % (ast.unparse(fr), x.value.id), node=n, construct='gravity frame index'))
    return res


@guarded
def rule_scan(repo):
    """Every cumulative scan of the integrator runs along the frame axis.  _check normalises dt / gyro / acc to rank 3 (B, F, H) (C16.RANK) and every
    increment table built from them in integrate() keeps that rank, so the frame axis is 1, equivalently -2; the transition tables of
    propagate_cov are (B, F, 9, 9), frame axis 1, equivalently -3.  A scan along any other axis - in particular the size-1 signal axis of dt -
    returns its input and the elapsed time / velocity / position is no longer the running sum of the recursion."""
    res = RuleResult('C16.SCAN', 'every cumulative scan (cumsum / cumprod) and every concatenation of the initial zero / identity in integrate() and '
                     'propagate_cov() runs along the frame axis: axis 1 of the (B, F, H) tables (-2), axis 1 of the (B, F, 9, 9) tables (-3)', floor=10)
    for fn, ok_axes in ((CLS + '.integrate', (1, -2)), (CLS + '.propagate_cov', (1, -3))):
        f = repo.func(IMU, fn)
        for c in paths.calls_in(f.node):
            d = dotted(c.func) or ''
            last = d.split('.')[-1]
            if last not in ('cumsum', 'cumprod', 'cummul', 'cumops', 'cumprod_', 'cumsum_', 'cat', 'concat', 'concatenate'):
                continue
            kw = {k.arg: k.value for k in c.keywords}
            pos = c.args[1:] if d in ('torch.cumsum', 'cumprod', 'cumops', 'cummul', 'torch.cumprod', 'pp.cumprod', 'torch.cat', 'torch.concat',
                                      'torch.concatenate') else c.args
            ax = kw.get('dim', pos[0] if pos else None)
            val = None
            if isinstance(ax, ast.Constant):
                val = ax.value
            elif isinstance(ax, ast.UnaryOp) and isinstance(ax.op, ast.USub) and isinstance(ax.operand, ast.Constant):
                val = -ax.operand.value
            ok = val in ok_axes
            res.inst({'function': f.fq, 'scan': src(c)[:60], 'axis': src(ax) if ax is not None else None, 'frame_axis': ok}, (fn, src(c)))
            if not ok:
                res.add(Finding('C16.SCAN', f, 'the scan / concatenation `%s` runs along axis %s; the frame axis of the tables in %s is %s: along any other axis the '
                                'result is not the running sum / product of the recursion (along the size-1 signal axis of dt it is dt itself)'
                                % (src(c)[:60], src(ax) if ax is not None else 'default', fn, ' or '.join(map(str, ok_axes))), node=c))
    return res


@guarded
def rule_bufcopy(repo):
    """The initial state (pos, rot, vel) the integrator composes every result with is a COPY of what the constructor was given: the defaults are tensors created
    once when the class is defined (shared by every instance) and an explicit argument is the caller's tensor.  Registered through view-preserving steps only
    (_check adds axes, detach shares storage) the state buffer aliases them: an in-place write on either side silently moves the initial state of this - or, for
    the defaults, of every later - integrator."""
    res = RuleResult('C16.BUFCOPY', 'IMUPreintegrator.__init__: the state buffers pos / rot / vel are registered from a copy (clone / a fresh tensor) of the constructor '
                     'argument, never from a view of it', floor=3)
    f = repo.func(IMU, CLS + '.__init__')
    params = set(f.params)
    n = 0
    for c in paths.calls_in(f.node):
        if not (isinstance(c.func, ast.Attribute) and c.func.attr == 'register_buffer' and len(c.args) >= 2 and isinstance(c.args[0], ast.Constant)):
            continue
        name = c.args[0].value
        if name not in ('pos', 'rot', 'vel'):
            continue
        n += 1
        e = c.args[1]
        fresh = False
        while True:
            if isinstance(e, ast.Call) and isinstance(e.func, ast.Attribute) and not (dotted(e.func) or '').startswith('torch.'):
                if e.func.attr in ('clone',):
                    fresh = True
                    break
                if dotted(e.func) == 'self._check' and e.args:
                    e = e.args[0]
                    continue
                if e.func.attr in ('detach', 'view', 'unsqueeze', 'squeeze', 'expand', 'reshape', 'contiguous', 'to', 'float', 'double', 'requires_grad_', 'tensor', 'lview'):
                    e = e.func.value
                    continue
                fresh = True                               # any other method computes a new tensor
                break
            if isinstance(e, ast.Call):
                d = dotted(e.func) or ''
                if d in ('torch.atleast_1d', 'torch.atleast_2d', 'torch.atleast_3d', 'torch.as_tensor', 'torch.detach') and e.args:
                    e = e.args[0]
                    continue
                fresh = True
                break
            if isinstance(e, ast.Subscript):
                e = e.value
                continue
            break
        aliased = (not fresh) and isinstance(e, ast.Name) and e.id in params
        res.inst({'function': f.fq, 'buffer': name, 'registered from': src(c.args[1])[:50], 'copy': fresh}, (f.fq, name))
        if aliased:
            res.add(Finding('C16.BUFCOPY', f, 'the state buffer `%s` is registered from `%s`, a view of the constructor argument `%s` (its default is ONE tensor shared by all '
                            'instances): an in-place write to the caller\'s tensor, or to the buffer of another default-constructed integrator, changes the initial state '
                            'every later result is composed with' % (name, src(c.args[1])[:50], e.id), node=c, construct='state buffer aliases ' + name))
        elif not fresh:
            raise AnalysisError('C16.BUFCOPY: the origin of buffer %s was not understood' % name)
    if n < 3:
        raise AnalysisError('C16.BUFCOPY: found %d of the state buffers pos / rot / vel' % n)
    return res


@guarded
def rule_norec(repo):
    """forward() integrates the WHOLE sequence it is given in one pass from one initial state.  A call of forward on itself (block-wise processing "to bound memory")
    runs every block after the first through the reset / carry logic of a separate call: with reset=True each block restarts from the constructor state."""
    res = RuleResult('C16.NOREC', 'IMUPreintegrator.forward does not call itself (self.forward(..) / self(..)): one call is one pass over all frames from one initial state',
                     floor=1)
    f = repo.func(IMU, CLS + '.forward')
    hits = [c for c in paths.calls_in(f.node) if dotted(c.func) in ('self.forward', 'self.__call__') or (isinstance(c.func, ast.Name) and c.func.id == 'self')]
    res.inst({'function': f.fq, 'recursive calls': [src(c)[:50] for c in hits]}, f.fq)
    for c in hits:
        res.add(Finding('C16.NOREC', f, '`%s`: forward processes its input block by block through itself; every block after the first goes through the reset / carry logic '
                        'as if it were a new call (reset=True: restarts from the constructor state), so the result for more frames than one block is not the recursion '
                        'from the initial state' % src(c)[:50], node=c, construct='forward calls itself'))
    return res


@guarded
def rule_framefn(repo):
    """_frame gives a per-item state (B, H) the frame axis of the (B, F, H) increments and returns anything else as it is.  It selects nothing: a slice of the last
    frame (`state[..., -1:, :]`, to accept whole trajectories) taken before the axis is inserted cuts a (B, H) state down to its last BATCH item."""
    res = RuleResult('C16.FRAMEFN', 'IMUPreintegrator._frame only inserts the frame axis (unsqueeze(-2) / [..., None, :]) into a rank-2 state: it takes no slice of its '
                     'argument', floor=1)
    f = repo.func(IMU, CLS + '._frame')
    p0 = f.pos_params[-1]
    subs = [n for n in ast.walk(f.node) if isinstance(n, ast.Subscript) and isinstance(n.ctx, ast.Load) and
            any(isinstance(x, ast.Slice) and (x.lower is not None or x.upper is not None) for x in ast.walk(n.slice))]
    ins = [n for n in ast.walk(f.node) if (isinstance(n, ast.Call) and isinstance(n.func, ast.Attribute) and n.func.attr == 'unsqueeze') or
           (isinstance(n, ast.Subscript) and any(isinstance(x, ast.Constant) and x.value is None for x in ast.walk(n.slice)))]
    res.inst({'function': f.fq, 'frame-axis insertions': len(ins), 'slices of the argument': [src(x)[:30] for x in subs]}, f.fq)
    if not ins:
        raise AnalysisError('C16.FRAMEFN: _frame no longer inserts a frame axis')
    for x in subs:
        res.add(Finding('C16.FRAMEFN', f, '_frame takes `%s` from its argument: for the documented per-item state (B, H) the last-frame slice selects the last batch ITEM, and '
                        'every item of the batch is then propagated from that one state' % src(x)[:40], node=x, construct='_frame slices its argument'))
    return res


@guarded
def rule_carrylast(repo):
    """The carried state (pos, rot, vel, cov, Rij) is written once, at the end of forward(), from the results of the call.  integrate / propagate_cov / predict
    validate shapes and can raise; a write of the carried state in front of them (the caller's init_state loaded into the module "so that everything reads one
    place", to be restored at the end) is left behind by every exception, and the next call without init_state starts from it."""
    res = RuleResult('C16.CARRYLAST', 'IMUPreintegrator.forward writes its carried state (self.pos / rot / vel / cov / Rij) only after the last of its fallible steps '
                     '(integrate, propagate_cov, predict)', floor=1)
    f = repo.func(IMU, CLS + '.forward')
    steps = [c.lineno for c in paths.calls_in(f.node) if dotted(c.func) in ('self.integrate', 'self.propagate_cov', 'self.predict', 'cls.predict')]
    if not steps:
        raise AnalysisError('C16.CARRYLAST: the integration steps of forward were not found')
    last = max(steps)
    n = 0
    for a in ast.walk(f.node):
        if isinstance(a, (ast.Assign, ast.AugAssign)):
            tg = a.targets if isinstance(a, ast.Assign) else [a.target]
            for t in tg:
                for x in ([t] if not isinstance(t, ast.Tuple) else t.elts):
                    if isinstance(x, ast.Attribute) and dotted(x.value) == 'self' and x.attr in ('pos', 'rot', 'vel', 'cov', 'Rij'):
                        n += 1
                        ok = a.lineno > last
                        res.inst({'function': f.fq, 'write': src(a)[:50], 'after the fallible steps': ok}, (f.fq, src(a)[:50]))
                        if not ok:
                            res.add(Finding('C16.CARRYLAST', f, '`%s` overwrites carried state before integrate / propagate_cov / predict have run: when one of them raises '
                                            '(a rot or acc one frame short) the module keeps this value, and the next call that relies on the carried state starts from the '
                                            'rejected call\'s input' % src(a)[:50], node=a, construct='carried state written early|' + x.attr))
    if n == 0:
        raise AnalysisError('C16.CARRYLAST: forward no longer writes the carried state')
    return res


@guarded
def rule_recur(repo):
    """dp <- dp + dv dt + 1/2 dR a dt^2 with dv the ACCUMULATED velocity increment and dR the ACCUMULATED rotation: in the vectorised form the position
    summand of frame k multiplies dt with the k-th entry of the cumulative velocity table (the output of the cumsum scan), and the acceleration terms are
    rotated by the cumulative rotation table (the output of cumprod).  The per-frame table before the scan (dv, w) has the same shape; using it is right for
    one or two frames only."""
    res = RuleResult('C16.RECUR', 'integrate(): the velocity that multiplies dt in the position summand is the cumulative velocity (result of the cumsum scan), and every '
                     'rotation applied to the acceleration is the cumulative rotation (result of cumprod) - never the per-frame tables the scans start from', floor=2)
    f = repo.func(IMU, CLS + '.integrate')
    scans = {}
    for n in ast.walk(f.node):
        if isinstance(n, ast.Assign) and len(n.targets) == 1 and isinstance(n.targets[0], ast.Name) and isinstance(n.value, ast.Call):
            nm = (dotted(n.value.func) or '').split('.')[-1]
            if nm in ('cumsum', 'cumprod', 'cumprod_', 'cummul', 'cumops') and n.value.args and isinstance(n.value.args[0], ast.Name):
                scans[n.targets[0].id] = (nm, n.value.args[0].id)
    if len(scans) < 3:
        raise AnalysisError('C16.RECUR: integrate has %d scans, expected rotation, velocity and position' % len(scans))
    pre = {v[1]: k for k, v in scans.items()}            # per-frame table -> its cumulative table
    # summands: elements of torch.cat([zero, <summand>], dim=1) feeding a scan
    n_chk = 0
    for n in ast.walk(f.node):
        if isinstance(n, ast.Assign) and len(n.targets) == 1 and isinstance(n.targets[0], ast.Name) and n.targets[0].id in pre and \
                isinstance(n.value, ast.Call) and dotted(n.value.func) in ('torch.cat', 'torch.concat') and n.value.args and isinstance(n.value.args[0], (ast.List, ast.Tuple)):
            for el in n.value.args[0].elts[1:]:
                for sub in ast.walk(el):
                    if isinstance(sub, ast.Subscript) and isinstance(sub.value, ast.Name):
                        nm = sub.value.id
                        if nm in scans or nm in pre:
                            n_chk += 1
                            okn = nm in scans
                            res.inst({'function': f.fq, 'summand of': n.targets[0].id, 'table read': src(sub)[:30], 'cumulative': okn}, (n.targets[0].id, src(sub)))
                            if not okn:
                                res.add(Finding('C16.RECUR', f, 'the summand of `%s` reads `%s`, the PER-FRAME table that the scan `%s` starts from, where the recursion needs the '
                                                'accumulated quantity: exact for one or two frames, wrong from the third on' % (n.targets[0].id, src(sub)[:30], pre[nm]),
                                                node=n, construct='per-frame table in a summand|' + nm))
    if n_chk < 2:
        raise AnalysisError('C16.RECUR: the summands of the velocity / position scans were not recognised')
    return res


def _rules_core(repo, tier):
    from ..effects import rule_pure
    from ..fresh import rule_fresh
    t = [(IMU, CLS + '.forward'), (IMU, CLS + '.integrate'), (IMU, CLS + '.predict'), (IMU, CLS + '.propagate_cov'), (IMU, CLS + '._check')]
    return [rule_grav(repo), rule_scan(repo), rule_recur(repo), rule_bufcopy(repo), rule_norec(repo), rule_framefn(repo), rule_carrylast(repo), rule_stateax(repo), rule_covord(repo), rule_carry(repo), rule_rank(repo), rule_dir_comp(repo), rule_dep(repo), rule_init(repo), rule_cov(repo),
            rule_pure(repo, 'C16.PURE', 'the integrator does not write in place into the measurement tensors it is given (dt, gyro, acc, rot, init_state): '
                      'feeding the same stream again, whole or in chunks, starts from the same data', t),
            rule_fresh(repo, 'C16.FRESH', 'nothing the integrator writes in place is loaded from the integrator object (the carried state is rebound, '
                       'never accumulated into)', t)]


def rules(repo, tier):
    from ..memo import rule_memo
    from ..optional import rule_optional
    from ..mode import mode_rules
    from ..callsig import rule_callsig
    from ..docsig import rule_docsig
    from ..axisdefault import rule_axisdefault
    return list(_rules_core(repo, tier)) + __import__('sa.core', fromlist=['x']).reid([__import__('sa.rules.c05', fromlist=['x']).rule_jr(repo), __import__('sa.rules.c12', fromlist=['x']).rule_negdim(repo, tier)], 'C16') + [rule_memo(repo, 'C16.MEMO', 'history independence: nothing computed from the contents of a tensor argument is kept '
                                                      'under the identity, address or version of that tensor, in module-level storage, or published from a generator '
                                                      'before it is complete - a later call with the same object and other contents must not be answered from it',
                                                      ['pypose.module.imu_preintegrator', 'pypose.basics.ops'], floor=3),
            rule_optional(repo, 'C16.OPT', ['pypose.module.imu_preintegrator', 'pypose.basics.ops'])] + mode_rules(repo, 'C16', ['pypose.module.imu_preintegrator', 'pypose.basics.ops']) + [rule_callsig(repo, 'C16.SIG', ['pypose.module.imu_preintegrator', 'pypose.basics.ops']), rule_docsig(repo, 'C16.DOC', ['pypose.module.imu_preintegrator', 'pypose.basics.ops'])] + [
            rule_axisdefault(repo, 'C16.AXDEF', ['pypose.module.imu_preintegrator', 'pypose.basics.ops'])]
